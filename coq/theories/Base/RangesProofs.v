(** Proofs about [Ranges.add_range] (property C18). *)
From Coq Require Import List ZArith Lia Bool.
From Gocc Require Import Base.Ranges.
Import ListNotations.
Open Scope Z_scope.

(** [x] lies in class / interval [r]. *)
Definition inr (x : Z) (r : rng) : Prop := fst r <= x <= snd r.
(** [x] is covered by some class of [l]. *)
Definition mem (x : Z) (l : list rng) : Prop := exists r, In r l /\ inr x r.

(** Sorted, pairwise disjoint (with a gap-free-or-not strict order), every class
    non-empty, everything at or above [lo]. *)
Fixpoint wf_from (lo : Z) (l : list rng) : Prop :=
  match l with
  | [] => True
  | (a, b) :: rest => lo <= a /\ a <= b /\ wf_from (b + 1) rest
  end.

Definition Inv (l : list rng) : Prop := exists lo, wf_from lo l.

Lemma wf_from_weaken lo lo' l : lo' <= lo -> wf_from lo l -> wf_from lo' l.
Proof. destruct l as [|[a b] rest]; simpl; intros; intuition lia. Qed.

Ltac zb :=
  repeat match goal with
  | H : (_ <? _) = true |- _ => apply Z.ltb_lt in H
  | H : (_ <? _) = false |- _ => apply Z.ltb_ge in H
  | H : (_ =? _) = true |- _ => apply Z.eqb_eq in H
  | H : (_ =? _) = false |- _ => apply Z.eqb_neq in H
  end.

Ltac split_ifs :=
  repeat match goal with
  | |- context [if ?c then _ else _] => let H := fresh "C" in destruct c eqn:H
  end; zb.

Lemma add_range_wf : forall l lo from to,
  wf_from lo l -> lo <= from -> wf_from lo (add_range from to l).
Proof.
  induction l as [|[rf rt] rest IH]; intros lo from to Hwf Hlo; simpl.
  - destruct (to <? from) eqn:E; simpl; auto. zb. lia.
  - destruct (to <? from) eqn:E; [exact Hwf|]. zb.
    simpl in Hwf. destruct Hwf as (H1 & H2 & H3).
    split_ifs; simpl; repeat split; try lia;
      try (apply IH; [assumption|lia]);
      try (eapply wf_from_weaken; [|eassumption]; lia).
Qed.

(** *** Sortedness consequences *)
Lemma wf_from_mem_ge lo l x : wf_from lo l -> mem x l -> lo <= x.
Proof.
  revert lo. induction l as [|[a b] rest IH]; intros lo Hwf [r [Hin Hx]].
  - destruct Hin.
  - simpl in Hwf. destruct Hwf as (H1 & H2 & H3). destruct Hin as [<-|Hin].
    + unfold inr in Hx; simpl in Hx. lia.
    + assert (b + 1 <= x) by (apply IH; [assumption| exists r; auto]). lia.
Qed.

Lemma wf_from_disjoint lo l : wf_from lo l ->
  forall i j ri rj, nth_error l i = Some ri -> nth_error l j = Some rj -> (i < j)%nat ->
  snd ri < fst rj.
Proof.
  revert lo. induction l as [|[a b] rest IH]; intros lo Hwf i j ri rj Hi Hj Hij.
  - destruct i; discriminate.
  - simpl in Hwf. destruct Hwf as (H1 & H2 & H3).
    destruct j as [|j]; [lia|]. simpl in Hj.
    destruct i as [|i].
    + simpl in Hi. inversion Hi; subst ri. simpl.
      assert (b + 1 <= fst rj).
      { assert (Hm : mem (fst rj) rest).
        { exists rj. split; [eapply nth_error_In; eauto|].
          unfold inr. split; [lia|].
          (* fst rj <= snd rj from wf *)
          clear - H3 Hj. revert j b H3 Hj. induction rest as [|[c d] rest IH]; intros j b H3 Hj.
          - destruct j; discriminate.
          - simpl in H3. destruct H3 as (? & ? & ?). destruct j; simpl in Hj.
            + inversion Hj; subst; simpl; lia.
            + eapply IH; eauto. }
        eapply wf_from_mem_ge; eauto. }
      lia.
    + simpl in Hi. eapply IH; eauto. lia.
Qed.

Lemma wf_from_nonempty lo l r : wf_from lo l -> In r l -> fst r <= snd r.
Proof.
  revert lo. induction l as [|[a b] rest IH]; intros lo Hwf Hin; [destruct Hin|].
  simpl in Hwf. destruct Hwf as (H1 & H2 & H3). destruct Hin as [<-|Hin]; simpl; eauto.
Qed.

(** *** Union is exact *)
Lemma mem_cons x r l : mem x (r :: l) <-> inr x r \/ mem x l.
Proof.
  unfold mem; split.
  - intros [r' [[<-|Hin] Hx]]; [left; assumption| right; exists r'; auto].
  - intros [Hx|[r' [Hin Hx]]]; [exists r; split; [left; reflexivity|assumption]|
                                exists r'; split; [right; assumption|assumption]].
Qed.

Lemma mem_nil x : ~ mem x [].
Proof. intros [r [[] _]]. Qed.

Lemma add_range_mem : forall l lo from to x,
  wf_from lo l ->
  (mem x (add_range from to l) <-> mem x l \/ from <= x <= to).
Proof.
  induction l as [|[rf rt] rest IH]; intros lo from to x Hwf; simpl.
  - destruct (to <? from) eqn:E; zb.
    + split; [auto|]. intros [H|H]; [assumption|lia].
    + rewrite mem_cons. unfold inr; simpl. split; intros [H|H]; auto; exfalso; eapply mem_nil; eauto.
  - destruct (to <? from) eqn:E; zb.
    { split; [auto|]. intros [H|H]; [assumption|lia]. }
    simpl in Hwf. destruct Hwf as (H1 & H2 & H3).
    split_ifs; repeat rewrite mem_cons; unfold inr; simpl;
      try (rewrite (IH (rt + 1) _ _ x H3));
      try tauto; try (intuition lia).
Qed.

(** *** Refinement: every class of the result is inside the added interval or
    disjoint from it, and is a sub-interval of an old class or entirely new. *)
Definition subr (c c0 : rng) : Prop := fst c0 <= fst c /\ snd c <= snd c0.

Lemma add_range_refines : forall l lo from to c,
  wf_from lo l -> In c (add_range from to l) ->
  ((forall x, inr x c -> from <= x <= to) \/ (forall x, inr x c -> ~ from <= x <= to)) /\
  ((exists c0, In c0 l /\ subr c c0) \/ (forall x, inr x c -> ~ mem x l)).
Proof.
  induction l as [|[rf rt] rest IH]; intros lo from to c Hwf Hin; simpl in Hin.
  - destruct (to <? from) eqn:E; [destruct Hin|]. zb.
    destruct Hin as [<-|[]]. unfold inr; simpl. split; [left; auto|right; intros x _ H; eapply mem_nil; eauto].
  - simpl in Hwf. destruct Hwf as (H1 & H2 & H3).
    assert (Hrest : forall x, mem x rest -> rt + 1 <= x) by (intros; eapply wf_from_mem_ge; eauto).
    assert (Hold : forall c, In c ((rf, rt) :: rest) ->
              to < from ->
              ((forall x, inr x c -> from <= x <= to) \/ (forall x, inr x c -> ~ from <= x <= to)) /\
              ((exists c0, In c0 ((rf, rt) :: rest) /\ subr c c0) \/
               (forall x, inr x c -> ~ mem x ((rf, rt) :: rest)))).
    { intros c' Hc' Hlt. split; [right; intros; lia|left; exists c'; split; [assumption|unfold subr; lia]]. }
    destruct (to <? from) eqn:E; zb; [apply Hold; assumption|].
    (* helper for a piece that is a sub-interval of (rf,rt) *)
    assert (Hsub : forall a b, rf <= a -> b <= rt ->
              (exists c0, In c0 ((rf, rt) :: rest) /\ subr (a, b) c0) \/
              (forall x, inr x (a, b) -> ~ mem x ((rf, rt) :: rest))).
    { intros a b Ha Hb. left. exists (rf, rt). split; [left; reflexivity|unfold subr; simpl; lia]. }
    (* helper for a piece strictly below rf *)
    assert (Hnew : forall a b, b < rf ->
              (exists c0, In c0 ((rf, rt) :: rest) /\ subr (a, b) c0) \/
              (forall x, inr x (a, b) -> ~ mem x ((rf, rt) :: rest))).
    { intros a b Hb. right. intros x Hx Hm. unfold inr in Hx; simpl in Hx.
      apply mem_cons in Hm. destruct Hm as [Hm|Hm]; [unfold inr in Hm; simpl in Hm; lia|].
      apply Hrest in Hm. lia. }
    (* helper for pieces coming from the recursive call *)
    assert (Hrec : forall from', rt + 1 <= from' -> from <= from' -> from' <= Z.max from (rt + 1) ->
              In c (add_range from' to rest) ->
              ((forall x, inr x c -> from <= x <= to) \/ (forall x, inr x c -> ~ from <= x <= to)) /\
              ((exists c0, In c0 ((rf, rt) :: rest) /\ subr c c0) \/
               (forall x, inr x c -> ~ mem x ((rf, rt) :: rest)))).
    { intros from' Hf1 Hf2 Hf3 Hc.
      destruct (IH (rt + 1) from' to c H3 Hc) as [Hio Hsn].
      assert (Hge : forall x, inr x c -> rt + 1 <= x).
      { intros x Hx.
        assert (Hm : mem x (add_range from' to rest)) by (exists c; auto).
        eapply (wf_from_mem_ge (rt + 1)); [|exact Hm]. apply add_range_wf; [assumption|lia]. }
      split.
      - destruct Hio as [Hio|Hio]; [left; intros x Hx; specialize (Hio x Hx); lia|].
        right. intros x Hx Hc'. apply (Hio x Hx).
        (* x >= rt+1; need from' <= x.  x is in c, a class of the result; if x < from' then
           x is covered by rest (union exactness) — still fine: we show ~ (from' <= x <= to) -> ... *)
        destruct (Z_lt_le_dec x from') as [Hlt|Hle]; [|lia].
        (* x >= rt+1 and x < from': only possible when from' > rt+1, i.e. case 8 with from' = from *)
        specialize (Hge x Hx). lia.
      - destruct Hsn as [[c0 [Hc0 Hs]]|Hn]; [left; exists c0; split; [right; assumption|assumption]|].
        right. intros x Hx Hm. apply mem_cons in Hm. destruct Hm as [Hm|Hm].
        + unfold inr in Hm; simpl in Hm. specialize (Hge x Hx). lia.
        + exact (Hn x Hx Hm). }
    assert (Htail : In c rest -> to <= rt ->
              ((forall x, inr x c -> from <= x <= to) \/ (forall x, inr x c -> ~ from <= x <= to)) /\
              ((exists c0, In c0 ((rf, rt) :: rest) /\ subr c c0) \/
               (forall x, inr x c -> ~ mem x ((rf, rt) :: rest)))).
    { intros Hc Hto. split.
      - right. intros x Hx. assert (rt + 1 <= x) by (apply Hrest; exists c; auto). lia.
      - left. exists c. split; [right; assumption|unfold subr; lia]. }
    Opaque Z.add Z.sub.
    repeat match type of Hin with
      | context [if ?c then _ else _] => let H := fresh "C" in destruct c eqn:H
      end; zb; simpl in Hin;
      repeat match goal with
      | H : _ \/ _ |- _ => destruct H as [H|H]
      | H : (_, _) = c |- _ => subst c
      | H : False |- _ => destruct H
      end;
      try (match goal with H : In c (add_range ?f _ _) |- _ => apply (Hrec f); [lia|lia|lia|exact H] end);
      try (apply Htail; [assumption|lia]);
      try (split; [unfold inr; simpl; first [left; intros; lia|right; intros; lia]|
                   first [apply Hsub; lia|apply Hnew; lia]]);
      try (split; [unfold inr; simpl; first [left; intros; lia|right; intros; lia]|
                   left; eexists; split; [right; eassumption|unfold subr; lia]]).
    Transparent Z.add Z.sub.
Qed.

(** ** Lifting to every sequence of added intervals *)

Lemma classes_from_snoc l ops op :
  classes_from l (ops ++ [op]) = add_range (fst op) (snd op) (classes_from l ops).
Proof. unfold classes_from. rewrite fold_left_app. reflexivity. Qed.

Lemma add_range_Inv a b l : Inv l -> Inv (add_range a b l).
Proof.
  intros [lo H]. exists (Z.min lo a). apply add_range_wf; [|lia].
  eapply wf_from_weaken; [|exact H]. lia.
Qed.

Theorem classes_Inv ops : Inv (classes ops).
Proof.
  unfold classes. induction ops as [|op ops IH] using rev_ind.
  - exists 0. exact I.
  - rewrite classes_from_snoc. apply add_range_Inv. exact IH.
Qed.

(** Explicit reading of [Inv]: strictly increasing, hence pairwise disjoint; non-empty classes. *)
Theorem Inv_sorted_disjoint l : Inv l ->
  forall i j ri rj, nth_error l i = Some ri -> nth_error l j = Some rj -> (i < j)%nat ->
  snd ri < fst rj.
Proof. intros [lo H]. eapply wf_from_disjoint; eauto. Qed.

Theorem Inv_nonempty l r : Inv l -> In r l -> fst r <= snd r.
Proof. intros [lo H]. eapply wf_from_nonempty; eauto. Qed.

Theorem Inv_unique l x c1 c2 : Inv l -> In c1 l -> In c2 l -> inr x c1 -> inr x c2 -> c1 = c2.
Proof.
  intros HI H1 H2 Hx1 Hx2.
  destruct (In_nth_error _ _ H1) as [i Hi]. destruct (In_nth_error _ _ H2) as [j Hj].
  destruct (Nat.lt_trichotomy i j) as [Hlt|[->|Hlt]].
  - pose proof (Inv_sorted_disjoint l HI i j c1 c2 Hi Hj Hlt). unfold inr in *. lia.
  - congruence.
  - pose proof (Inv_sorted_disjoint l HI j i c2 c1 Hj Hi Hlt). unfold inr in *. lia.
Qed.

Theorem classes_mem ops x : mem x (classes ops) <-> exists op, In op ops /\ inr x op.
Proof.
  unfold classes. induction ops as [|op ops IH] using rev_ind.
  - split; [intros H; exfalso; eapply mem_nil; eauto|intros [op [[] _]]].
  - rewrite classes_from_snoc. destruct (classes_Inv ops) as [lo Hwf].
    rewrite (add_range_mem _ lo _ _ x Hwf). rewrite IH. split.
    + intros [[op' [Hin Hx]]|Hx]; [exists op'; split; [apply in_or_app; auto|assumption]|].
      exists op. split; [apply in_or_app; right; left; reflexivity|exact Hx].
    + intros [op' [Hin Hx]]. apply in_app_or in Hin. destruct Hin as [Hin|[<-|[]]]; [left; eauto|right; exact Hx].
Qed.

Theorem classes_refine ops c op : In c (classes ops) -> In op ops ->
  (forall x, inr x c -> inr x op) \/ (forall x, inr x c -> ~ inr x op).
Proof.
  unfold classes. revert c op. induction ops as [|o ops IH] using rev_ind; intros c op Hc Hop.
  - destruct Hop.
  - rewrite classes_from_snoc in Hc. destruct (classes_Inv ops) as [lo Hwf].
    destruct (add_range_refines _ lo _ _ c Hwf Hc) as [Hio Hsn].
    apply in_app_or in Hop. destruct Hop as [Hop|[<-|[]]]; [|exact Hio].
    destruct Hsn as [[c0 [Hc0 Hs]]|Hnew].
    + destruct (IH c0 op Hc0 Hop) as [H|H]; [left|right]; intros x Hx; apply H;
        unfold inr, subr in *; lia.
    + right. intros x Hx Hxo. apply (Hnew x Hx). apply classes_mem. exists op. auto.
Qed.

(** Every added range is exactly a union of classes. *)
Theorem classes_cover_range ops op x : In op ops -> inr x op ->
  exists c, In c (classes ops) /\ inr x c /\ (forall y, inr y c -> inr y op).
Proof.
  intros Hop Hx.
  assert (Hm : mem x (classes ops)) by (apply classes_mem; eauto).
  destruct Hm as [c [Hc Hxc]]. exists c. split; [assumption|split; [assumption|]].
  destruct (classes_refine ops c op Hc Hop) as [H|H]; [exact H|]. exfalso. exact (H x Hxc Hx).
Qed.

(** The boolean oracle decides [wf_from]. *)
Lemma sorted_disjoint_from_spec lo l : sorted_disjoint_from lo l = true <-> wf_from lo l.
Proof.
  revert lo. induction l as [|[a b] rest IH]; intros lo; simpl; [tauto|].
  rewrite !andb_true_iff, IH, !Z.leb_le. tauto.
Qed.
