(** Model of Go's unicode/utf8.DecodeRune on a byte list (bytes are [Z] in 0..255).
    Written from the UTF-8 definition (RFC 3629 well-formed ranges, as the Go table
    encodes them); ill-formed input yields (RuneError, 1); empty input (RuneError, 0).
    Tied to Go by an exhaustive/grid correspondence check (verifdump utf8). *)
From Coq Require Import List ZArith Bool.
Import ListNotations.
Open Scope Z_scope.

Definition rune_error : Z := 65533.

Definition in_rng (lo hi x : Z) : bool := (lo <=? x) && (x <=? hi).
Definition cont (x : Z) : bool := in_rng 128 191 x.

Definition decode_rune (bs : list Z) : Z * nat :=
  match bs with
  | [] => (rune_error, 0%nat)
  | b0 :: t =>
    if b0 <? 128 then (b0, 1%nat)
    else if in_rng 194 223 b0 then
      match t with
      | b1 :: _ => if cont b1 then ((b0 - 192) * 64 + (b1 - 128), 2%nat) else (rune_error, 1%nat)
      | _ => (rune_error, 1%nat)
      end
    else if in_rng 224 239 b0 then
      match t with
      | b1 :: b2 :: _ =>
        let lo := if b0 =? 224 then 160 else 128 in
        let hi := if b0 =? 237 then 159 else 191 in
        if in_rng lo hi b1 && cont b2
        then ((b0 - 224) * 4096 + (b1 - 128) * 64 + (b2 - 128), 3%nat)
        else (rune_error, 1%nat)
      | _ => (rune_error, 1%nat)
      end
    else if in_rng 240 244 b0 then
      match t with
      | b1 :: b2 :: b3 :: _ =>
        let lo := if b0 =? 240 then 144 else 128 in
        let hi := if b0 =? 244 then 143 else 191 in
        if in_rng lo hi b1 && cont b2 && cont b3
        then ((b0 - 240) * 262144 + (b1 - 128) * 4096 + (b2 - 128) * 64 + (b3 - 128), 4%nat)
        else (rune_error, 1%nat)
      | _ => (rune_error, 1%nat)
      end
    else (rune_error, 1%nat)
  end.

(** UTF-8 encoding of a code point (used for literals and by the lexer-input generators). *)
Definition encode_rune (r : Z) : list Z :=
  if r <? 0 then [239; 191; 189]
  else if r <? 128 then [r]
  else if r <? 2048 then [192 + r / 64; 128 + r mod 64]
  else if in_rng 55296 57343 r then [239; 191; 189]
  else if r <? 65536 then [224 + r / 4096; 128 + (r / 64) mod 64; 128 + r mod 64]
  else if r <=? 1114111 then [240 + r / 262144; 128 + (r / 4096) mod 64; 128 + (r / 64) mod 64; 128 + r mod 64]
  else [239; 191; 189].
