(** C02 — the generated parser accepts exactly the language of a conflict-free grammar.
    Only property theorems (closed by [exact]/[apply] of library lemmas) and examples.

    The theorems hold for EVERY grammar [g], tables [tb] and (untrusted) annotation [an] that
    pass the boolean validator; on every run the validator is evaluated by the Coq kernel
    ([vm_compute]) on the tables gocc actually emitted for each grammar of the run, which
    instantiates the theorems to gocc's own output, for all token sequences. *)
From Coq Require Import List Arith ZArith Lia Bool.
From Gocc Require Import LR.Parse LR.Validate LR.Trees LR.Eval LR.Sound LR.SoundTop LR.Complete LR.Exact LR.ErrorPos LR.Canonical LR.Gen LR.GenProofs.
Import ListNotations.

(** [input] is a sentence: a parse tree of the start symbol (the single body symbol of
    production 0) whose yield is exactly the token sequence. An 'empty' alternative is a
    production with an empty body, deriving the empty string. *)
Definition sentence (g : grammar) (input : list token) : Prop :=
  exists pr0 X0 t, nth_error g 0 = Some pr0 /\ rhs pr0 = [X0] /\ wt g X0 t input.

(** "only if": a nil error implies a sentence (for every amount of fuel, every actions). *)
Theorem C02_accept_implies_sentence : forall g tb an sem input fuel v,
  valid_backward g tb an = true -> no_error_shift tb = true ->
  Forall (fun t => ttype t <> EOFT) input -> Forall (fun t => ttype t < nterms tb) input ->
  r_out (parse tb sem input fuel) = POk v -> sentence g input.
Proof.
  intros g tb an sem input fuel v HV HN HI HR Hok.
  pose proof (parse_sound_valid g tb an sem input fuel HV HN HI HR) as H.
  unfold good_result in H. rewrite Hok in H.
  destruct H as (t & pr0 & X0 & c & H0 & H1 & H2 & _). exists pr0, X0, t. auto.
Qed.
Print Assumptions C02_accept_implies_sentence.

(** "if": every sentence is accepted, within an explicit number of steps (tree size + 1);
    actions are assumed not to fail (a failing action is the subject of C03). *)
Theorem C02_sentence_implies_accept : forall g tb an sem input,
  valid_forward g tb an = true -> (forall i p kids, sem i p kids <> None) ->
  forall pr0 X0 t, nth_error g 0 = Some pr0 -> rhs pr0 = [X0] -> wt g X0 t input ->
  forall fuel, size t + 1 <= fuel -> exists v, r_out (parse tb sem input fuel) = POk v.
Proof. exact lr_complete. Qed.
Print Assumptions C02_sentence_implies_accept.

(** Parse never panics (no index out of range, no failed type assertion, no missing goto). *)
Theorem C02_no_panic : forall g tb an sem input fuel c,
  valid_backward g tb an = true -> no_error_shift tb = true ->
  Forall (fun t => ttype t <> EOFT) input -> Forall (fun t => ttype t < nterms tb) input ->
  r_out (parse tb sem input fuel) <> PPanic c.
Proof.
  intros g tb an sem input fuel c HV HN HI HR Hp.
  pose proof (parse_sound_valid g tb an sem input fuel HV HN HI HR) as H.
  unfold good_result in H. rewrite Hp in H. exact H.
Qed.
Print Assumptions C02_no_panic.

(** Parse terminates on every token sequence: sentences within tree size + 1 steps (above); in general
    for tables that additionally pass the canonicity checks [x_checks] (exact nullable/FIRST, justified
    closure items, reachable nonterminals productive — grammars whose reachable part is unproductive have
    no sentences at all and are covered by the correspondence run only). *)
Theorem C02_parse_terminates : forall g tb an sem,
  lr_valid g tb an = true -> x_checks g tb an = true ->
  (forall i p kids, sem i p kids <> None) ->
  forall pr0 X0, nth_error g 0 = Some pr0 -> rhs pr0 = [X0] ->
  forall input, Forall (fun t => ttype t <> EOFT) input ->
  exists fuel0, forall fuel, fuel0 <= fuel -> r_out (parse tb sem input fuel) <> PFuel.
Proof. exact C02_terminates. Qed.
Print Assumptions C02_parse_terminates.

(** FOR EVERY GRAMMAR, without any per-grammar evaluation: [gen_all] is an executable Gallina model of gocc's
    generator (FIRST sets, Closure, Goto, the state worklist in gocc's order, table cells) whose output is
    compared with gocc's own item sets / transitions / compiled tables on every run (same state numbering, same
    item order).  Whatever it outputs satisfies the theorems above; it outputs tables exactly when the grammar
    has no canonical LR(1) conflict. *)
Theorem C02_every_grammar_accept_implies_sentence :
  forall g nn ntm symbols la_order p_acts terr fuel tb an tr,
  gen_all g nn ntm symbols la_order p_acts terr fuel = Some (tb, an, tr) ->
  forall sem input fuel' v, no_err_in_bodies g terr = true ->
  Forall (fun t => ttype t <> EOFT) input -> Forall (fun t => ttype t < ntm) input ->
  r_out (parse tb sem input fuel') = POk v ->
  exists pr0 X0 t, nth_error g 0 = Some pr0 /\ rhs pr0 = [X0] /\ wt g X0 t input.
Proof. exact gen_accept_implies_sentence. Qed.
Print Assumptions C02_every_grammar_accept_implies_sentence.

Theorem C02_every_grammar_sentence_implies_accept :
  forall g nn ntm symbols la_order p_acts terr fuel tb an tr,
  gen_all g nn ntm symbols la_order p_acts terr fuel = Some (tb, an, tr) ->
  forall sem input, (forall i p kids, sem i p kids <> None) ->
  forall pr0 X0 t, nth_error g 0 = Some pr0 -> rhs pr0 = [X0] -> wt g X0 t input ->
  forall fuel', size t + 1 <= fuel' -> exists v, r_out (parse tb sem input fuel') = POk v.
Proof. exact gen_sentence_implies_accept. Qed.
Print Assumptions C02_every_grammar_sentence_implies_accept.

Theorem C02_generator_succeeds_iff_LR1 : forall g nn ntm symbols la_order p_acts terr fuel,
  gen_wf g nn ntm symbols la_order terr = true -> 2 ^ length (item_universe g la_order) < fuel ->
  ((exists tb an tr, gen_run g nn ntm symbols la_order p_acts terr fuel = GenOk tb an tr) <-> ~ canonical_conflict g).
Proof. exact gen_succeeds_iff_lr1. Qed.
Print Assumptions C02_generator_succeeds_iff_LR1.

(** Non-vacuity: S' -> S ; S -> a S | b   with hand-made canonical tables; "a a b" is accepted. *)
Definition ex_g : grammar :=
  [ {| lhs := 0; rhs := [NT 1] |}; {| lhs := 1; rhs := [T 2; NT 1] |}; {| lhs := 1; rhs := [T 3] |} ].
Definition ex_tb : tables := {|
  t_states := [
    {| s_actions := [None; None; Some (Shift 2); Some (Shift 3)]; s_recover := false; s_gotos := [(-1)%Z; 1%Z] |};
    {| s_actions := [None; Some Accept; None; None]; s_recover := false; s_gotos := [(-1)%Z; (-1)%Z] |};
    {| s_actions := [None; None; Some (Shift 2); Some (Shift 3)]; s_recover := false; s_gotos := [(-1)%Z; 4%Z] |};
    {| s_actions := [None; Some (Reduce 2); None; None]; s_recover := false; s_gotos := [(-1)%Z; (-1)%Z] |};
    {| s_actions := [None; Some (Reduce 1); None; None]; s_recover := false; s_gotos := [(-1)%Z; (-1)%Z] |} ];
  t_prods := [ {| p_nt := 0; p_len := 1; p_act := false |}; {| p_nt := 1; p_len := 2; p_act := true |};
               {| p_nt := 1; p_len := 1; p_act := true |} ];
  t_err := 0; t_gate := false |}.
Definition ex_an : annot := {|
  a_items := [ [(0,0,1); (1,0,1); (2,0,1)]; [(0,1,1)]; [(1,1,1); (1,0,1); (2,0,1)]; [(2,1,1)]; [(1,2,1)] ];
  a_nullable := [false; false];
  a_first := [[2; 3]; [2; 3]] |}.
Example C02_example_valid : lr_valid ex_g ex_tb ex_an = true.
Proof. vm_compute. reflexivity. Qed.
Example C02_example_run :
  r_out (parse ex_tb (sem_node None) [ {| ttype := 2; tid := 0 |}; {| ttype := 2; tid := 1 |}; {| ttype := 3; tid := 2 |} ] 20)
  = POk (ANode 1 [ATok {| ttype := 2; tid := 0 |};
                  ANode 1 [ATok {| ttype := 2; tid := 1 |}; ANode 2 [ATok {| ttype := 3; tid := 2 |}]]]).
Proof. vm_compute. reflexivity. Qed.

(** From the BYTES of the grammar file to the generator's input.  [Front/SynAst.v] is the model of what gocc's front end hands
    to the LR(1) generator: numbered productions (S' first), the symbol order, the terminal numbering, the look-ahead order
    (terminals sorted by the bytes of their names), which alternatives carry an action, the number of the error terminal.
    On every run of C02/C04/C05 its output on the bytes of each grammar file is compared with gocc's symbol table and
    productions, so the generator model is compared with gocc from the file to the tables.  Whatever the file: every symbol
    number is in range, and the look-ahead order is a permutation of the terminal numbers sorted by name. *)
Require Gocc.Front.SynAst Gocc.Front.SynAstProofs.
Theorem C02_front_end_generator_input_in_range : forall toks gi,
  Gocc.Front.SynAst.gen_input_of_tokens toks = Some gi ->
  Forall (Gocc.Front.SynAstProofs.prod_ok (Gocc.Front.SynAst.gi_nn gi) (Gocc.Front.SynAst.gi_ntm gi)) (Gocc.Front.SynAst.gi_g gi).
Proof. exact Gocc.Front.SynAstProofs.gen_input_bounds_shipped. Qed.
Print Assumptions C02_front_end_generator_input_in_range.

Theorem C02_front_end_lookahead_order : forall ft sdt toks gi,
  Gocc.Front.SynAst.gen_input_of_tokens_ft ft sdt toks = Some gi ->
  Permutation.Permutation (Gocc.Front.SynAst.gi_la gi) (seq 0 (Gocc.Front.SynAst.gi_ntm gi)) /\
  Sorted.StronglySorted (fun i j => Gocc.Front.SynAst.name_leb
      (Gocc.Front.SynAstProofs.name_at (Gocc.Front.SynAst.gi_tnames gi) i)
      (Gocc.Front.SynAstProofs.name_at (Gocc.Front.SynAst.gi_tnames gi) j) = true) (Gocc.Front.SynAst.gi_la gi).
Proof.
  intros ft sdt toks gi H. split.
  - exact (Gocc.Front.SynAstProofs.gi_la_perm ft sdt toks gi H).
  - exact (Gocc.Front.SynAstProofs.gi_la_sorted ft sdt toks gi H).
Qed.
Print Assumptions C02_front_end_lookahead_order.
