(** C04 — LR(1) conflicts are reported exactly when the grammar is not LR(1). *)
From Coq Require Import List Arith Bool.
From Gocc Require Import LR.Parse LR.Validate LR.Canonical LR.CanonicalProofs LR.Gen LR.GenProofs LR.GenAuto LR.GenAutoProofs.
Import ListNotations.

(** SPECIFICATION (Canonical.v, no tables involved): [CI g gamma] is the Dragon-book canonical LR(1) item set
    of the symbol string [gamma] (start item; closure with semantic FIRST; goto); a canonical state is a
    non-empty [CI g gamma]; [canonical_conflict g] : some canonical state has a terminal with two DIFFERENT
    candidate actions (accept / reduce p / shift), candidates exactly as gocc's Item.action defines them;
    [canonical_accept_conflict g] : one of them is accept.
    DUMP: [gocc_reports g nterms an tr] recomputes, from the item sets [an] and transitions [tr] gocc built,
    the number of states with a conflicting cell using the verified model of ItemSet.Action ([None] = the
    resolution panics).  [auto_valid] is the boolean certificate check that the dumped automaton IS the
    canonical collection; it is evaluated by the Coq kernel on gocc's dump for every grammar of the run. *)

(** the dumped automaton is the canonical collection *)
Theorem C04_dump_is_canonical : forall g nterms an tr, auto_valid g nterms an tr = true ->
  (forall gamma s, path tr gamma = Some s ->
     s < length (a_items an) /\ forall it, In it (items_of an s) <-> CI g gamma it) /\
  (forall s, s < length (a_items an) -> exists gamma, path tr gamma = Some s) /\
  (forall gamma, canonical_state g gamma -> exists s, path tr gamma = Some s).
Proof. exact auto_canonical. Qed.
Print Assumptions C04_dump_is_canonical.

(** gocc announces conflicts (n > 0) iff the canonical automaton has a state in which some terminal admits
    two different actions *)
Theorem C04_reported_iff_not_LR1 : forall g nterms an tr, auto_valid g nterms an tr = true ->
  forall n, gocc_reports g nterms an tr = Some n -> (0 < n <-> canonical_conflict g).
Proof. exact C04_reports. Qed.
Print Assumptions C04_reported_iff_not_LR1.

(** the refusal in both modes (panic in ResolveConflict) happens iff accepting competes with another action *)
Theorem C04_refused_iff_accept_conflict : forall g nterms an tr, auto_valid g nterms an tr = true ->
  (gocc_reports g nterms an tr = None <-> canonical_accept_conflict g).
Proof. exact C04_panics. Qed.
Print Assumptions C04_refused_iff_accept_conflict.

Theorem C04_conflict_free_never_reported : forall g nterms an tr, auto_valid g nterms an tr = true ->
  (canonical_conflict g <->
   gocc_reports g nterms an tr = None \/ exists n, gocc_reports g nterms an tr = Some n /\ 0 < n).
Proof. exact C04_conflict_iff. Qed.
Print Assumptions C04_conflict_free_never_reported.

(** The exit status (non-zero without -a when n > 0; zero with -a; non-zero in both modes on refusal) is a
    three-line function of [gocc_reports] in main.go; it is checked against the real binary on every run. *)

(** For EVERY grammar, through the model of the generator (LR/Gen.v, LR/GenAuto.v; compared with gocc on every run, exit
    status included): the status the syntax part decides is zero exactly when, without -a, the canonical LR(1)
    collection has no conflict and, with -a, accepting competes with nothing.  ([gocc_exit] = 1 for reported
    conflicts without -a, 2 for the refusal, the Go panic.) *)
Theorem C04_every_grammar_exit_status : forall g nn ntm symbols la_order p_acts terr fuel auto,
  gen_wf g nn ntm symbols la_order terr = true ->
  2 ^ length (item_universe g la_order) < fuel ->
  (gocc_exit g nn ntm symbols la_order p_acts terr auto fuel = Some 0 <->
   (if auto then ~ canonical_accept_conflict g else ~ canonical_conflict g)).
Proof. intros. now apply gocc_exit_zero_iff. Qed.
Print Assumptions C04_every_grammar_exit_status.

(** the generator in mode -a always ends, with resolved tables or with the refusal *)
Theorem C04_every_grammar_generator_total : forall g nn ntm symbols la_order p_acts terr fuel,
  gen_wf g nn ntm symbols la_order terr = true ->
  2 ^ length (item_universe g la_order) < fuel ->
  (exists tb an tr n, gen_run_auto g nn ntm symbols la_order p_acts terr fuel = AutoOk tb an tr n) \/
  (exists an tr, gen_run_auto g nn ntm symbols la_order p_acts terr fuel = AutoRefused an tr).
Proof. intros. now apply gen_run_auto_total. Qed.
Print Assumptions C04_every_grammar_generator_total.
