(** C04 — LR(1) conflicts are reported exactly when the grammar is not LR(1). *)
From Coq Require Import List Arith Bool.
From Gocc Require Import LR.Parse LR.Validate LR.Canonical LR.CanonicalProofs.
Import ListNotations.

(** SPECIFICATION (Canonical.v, no tables involved): [CI g gamma] is the Dragon-book canonical LR(1) item set
    of the symbol string [gamma] (start item; closure with semantic FIRST; goto); a canonical state is a
    non-empty [CI g gamma]; [canonical_conflict g] : some canonical state has a terminal with two DIFFERENT
    candidate actions (accept / reduce p / shift), candidates exactly as gocc's Item.action defines them;
    [canonical_accept_conflict g] : one of them is accept.
    DUMP: [gocc_reports g nterms an tr] recomputes, from the item sets [an] and transitions [tr] gocc built,
    the number of states with a conflicting cell using the verified model of ItemSet.Action ([None] = the
    resolution panics).  [auto_valid] is the boolean certificate check that the dumped automaton IS the
    canonical collection; it is evaluated by the Coq kernel on gocc's dump for every grammar of the run. *)

(** the dumped automaton is the canonical collection *)
Theorem C04_dump_is_canonical : forall g nterms an tr, auto_valid g nterms an tr = true ->
  (forall gamma s, path tr gamma = Some s ->
     s < length (a_items an) /\ forall it, In it (items_of an s) <-> CI g gamma it) /\
  (forall s, s < length (a_items an) -> exists gamma, path tr gamma = Some s) /\
  (forall gamma, canonical_state g gamma -> exists s, path tr gamma = Some s).
Proof. exact auto_canonical. Qed.
Print Assumptions C04_dump_is_canonical.

(** gocc announces conflicts (n > 0) iff the canonical automaton has a state in which some terminal admits
    two different actions *)
Theorem C04_reported_iff_not_LR1 : forall g nterms an tr, auto_valid g nterms an tr = true ->
  forall n, gocc_reports g nterms an tr = Some n -> (0 < n <-> canonical_conflict g).
Proof. exact C04_reports. Qed.
Print Assumptions C04_reported_iff_not_LR1.

(** the refusal in both modes (panic in ResolveConflict) happens iff accepting competes with another action *)
Theorem C04_refused_iff_accept_conflict : forall g nterms an tr, auto_valid g nterms an tr = true ->
  (gocc_reports g nterms an tr = None <-> canonical_accept_conflict g).
Proof. exact C04_panics. Qed.
Print Assumptions C04_refused_iff_accept_conflict.

Theorem C04_conflict_free_never_reported : forall g nterms an tr, auto_valid g nterms an tr = true ->
  (canonical_conflict g <->
   gocc_reports g nterms an tr = None \/ exists n, gocc_reports g nterms an tr = Some n /\ 0 < n).
Proof. exact C04_conflict_iff. Qed.
Print Assumptions C04_conflict_free_never_reported.

(** The exit status (non-zero without -a when n > 0; zero with -a; non-zero in both modes on refusal) is a
    three-line function of [gocc_reports] in main.go; it is checked against the real binary on every run. *)
