(** C07 — error recovery resumes after the error symbol and preserves token order. *)
From Coq Require Import List Arith Bool Sorted.
From Gocc Require Import LR.Parse LR.Validate LR.Trees LR.Complete LR.Derive LR.Steps LR.CompleteSteps
     LR.Recovery LR.RecoveryToks LR.RecoveryInert LR.RecoveryTerm.
Import ListNotations.

(** (1) Parse never panics, recovery enabled, for every table passing the backward validator. *)
Theorem C07_never_panics : forall g tb an sem input fuel c,
  valid_backward g tb an = true -> Forall (fun t => ttype t < nterms tb) input ->
  r_out (parse tb sem input fuel) <> PPanic c.
Proof. exact C07_no_panic. Qed.
Print Assumptions C07_never_panics.

(** (2) What Error() does, exactly ([recovers] / [gives_up], see Recovery.v): with k = number of cells above
    the topmost state that can recover, the stack is cut by k cells; if that state shifts the error symbol
    the cell (s2, AErr offending-token discarded-attributes-in-order expected-of-that-state) is pushed and input
    is skipped, STARTING WITH THE OFFENDING TOKEN, up to the first token with an action in s2 ([skip_rel] with
    flag true); otherwise, or if the input ends first, the parse gives up. *)
Theorem C07_recovery_step : forall tb input st next pos st' next' pos',
  error_step tb input (S (length input)) st next pos = Recovered st' next' pos' <->
  recovers tb input st next pos st' next' pos'.
Proof. exact error_step_recovered. Qed.
Print Assumptions C07_recovery_step.
Theorem C07_give_up_step : forall tb input st next pos st' pos',
  error_step tb input (S (length input)) st next pos = NotRecovered st' pos' <->
  gives_up tb input st next pos st' pos'.
Proof. exact error_step_not_recovered. Qed.
Print Assumptions C07_give_up_step.

(** (3) tokens reach actions at most once and in input order: the token leaves of every argument list handed
    to an action are strictly increasing in input position (tokens recorded as the offending token of an
    error attribute are records, not arguments) *)
Theorem C07_tokens_once_in_order : forall tb fail tys fuel p kids,
  In (p, kids) (r_log (parse tb (sem_node fail) (canon tys) fuel)) ->
  StronglySorted lt (map tid (toks_list kids)).
Proof. exact C07_token_conservation_node. Qed.
Print Assumptions C07_tokens_once_in_order.

(** (4) on inputs without syntax errors the parser behaves as if the error alternatives were absent:
    the result is the post-order evaluation of the parse tree, no error is ever returned, and the nil-action
    branch (the only caller of Error) is never entered *)
Theorem C07_inert_on_sentences : forall g tb an sem input,
  valid_forward g tb an = true -> start_fresh g = true -> (forall i p kids, sem i p kids <> None) ->
  forall pr0 X0 t, nth_error g 0 = Some pr0 -> rhs pr0 = [X0] -> wt g X0 t input ->
  (forall fuel, size t + 1 <= fuel ->
     parse tb sem input fuel =
     (let '(v, _, lg) := teval tb sem t 0 nil in
      {| r_out := POk v; r_log := rev lg; r_scans := S (length input) |})) /\
  (forall fuel e, r_out (parse tb sem input fuel) <> PErr e) /\
  (exists cN, steps tb sem input (size t) cfg0 = Some cN /\ accepting tb input cN /\
     (forall m c1, m < size t -> steps tb sem input m cfg0 = Some c1 ->
        exists s act, top (c_st c1) = Some s /\
          action_at tb s (ttype (tok_at input (c_i c1))) = Some (Some act) /\ act <> Accept)).
Proof. exact C07_inert. Qed.
Print Assumptions C07_inert_on_sentences.

(** (5) Parse returns on every input, for conflict-free canonical tables (each recovery is followed by the
    shift of a token before the next error); the hand-made non-canonical table of RecoveryExamples.v loops *)
Theorem C07_parse_terminates : forall g tb an sem input,
  valid_backward g tb an = true -> valid_forward g tb an = true -> x_canon g tb an = true ->
  Forall (fun t => ttype t < nterms tb) input ->
  exists fuel0, forall fuel, fuel0 <= fuel ->
    exists res, r_out (parse tb sem input fuel) = res /\
      ((exists v, res = POk v) \/ (exists e, res = PErr e)).
Proof. exact C07_terminates. Qed.
Print Assumptions C07_parse_terminates.
