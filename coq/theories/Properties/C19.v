(** C19 — markdown input is equivalent to its fenced code, with positions preserved. *)
From Coq Require Import List ZArith Lia Bool.
From Gocc Require Import Front.Md Front.MdProofs.
Import ListNotations.
Open Scope Z_scope.

(** For every document  p0 ``` c1 ``` p1 ``` c2 ``` p2 ...  whose pieces satisfy [pieces_ok] (no ``` inside a
    piece, fences unambiguous: see MdProofs.v for the exact, weaker-than-"no backtick at the ends" condition),
    the text handed to the scanner is  blank p0 ++ "   " ++ c1 ++ "   " ++ blank p1 ...  where [blank] turns
    every prose rune into a space except newlines. *)
Theorem C19_spec : forall p0 blocks, pieces_ok p0 blocks -> load_md (doc p0 blocks) = expected p0 blocks.
Proof. exact load_md_spec. Qed.
Print Assumptions C19_spec.

(** Positions are preserved UNCONDITIONALLY (every document): same length, and a rune is a newline in the
    output iff it is one in the input; so every rune keeps its offset, line and column. *)
Theorem C19_length : forall l, length (load_md l) = length l.
Proof. exact load_md_length. Qed.
Print Assumptions C19_length.
Theorem C19_newlines : forall l i, nth i (load_md l) 0 = 10 <-> nth i l 0 = 10.
Proof. exact load_md_newlines. Qed.
Print Assumptions C19_newlines.

(** every rune is kept or blanked, never altered otherwise (every document) *)
Theorem C19_pointwise : forall l, Forall2 kept_or_blanked l (load_md l).
Proof. exact load_md_pointwise. Qed.
Print Assumptions C19_pointwise.

(** the code of every block is kept verbatim at its own offsets; everything else is blank *)
Theorem C19_code_kept : forall p0 blocks, pieces_ok p0 blocks ->
  (forall pre c p post j, blocks = pre ++ (c, p) :: post -> (j < length c)%nat ->
     let off := (length (doc p0 pre) + 3)%nat in
     nth (off + j) (doc p0 blocks) 0 = nth j c 0 /\
     nth (off + j) (code_mask p0 blocks) false = true /\
     nth (off + j) (load_md (doc p0 blocks)) 0 = nth j c 0) /\
  (forall i, (i < length (doc p0 blocks))%nat -> nth i (code_mask p0 blocks) false = false ->
     nth i (load_md (doc p0 blocks)) 0 = if nth i (doc p0 blocks) 0 =? 10 then 10 else 32).
Proof. exact load_md_code_kept. Qed.
Print Assumptions C19_code_kept.

(** an unterminated last fence: the rest of the file is code *)
Theorem C19_open_fence : forall p0 blocks c, pieces_ok_open p0 blocks c ->
  load_md (doc p0 blocks ++ fence ++ c) = expected p0 blocks ++ spaces3 ++ c.
Proof. exact load_md_spec_open. Qed.
Print Assumptions C19_open_fence.
