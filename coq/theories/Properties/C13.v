(** C13 — a grammar's meaning does not depend on how it is spelled. *)
From Coq Require Import List ZArith Bool Sorted.
From Gocc Require Import Base.Utf8 Front.LitConv Front.GoLit Front.LitConvProofs Front.FUnicode Front.FScan Front.FScanProofs.
From Gocc Require LR.Parse Front.Sem Front.FScanTypes.
Import ListNotations.
Open Scope Z_scope.

(** LAYOUT.  [fscan_all] is the model of gocc's hand-written front-end scanner (token stream up to the first EOF);
    [strip] drops positions.  Inserting layout [ws] (blanks, complete // comments with their newline, complete
    /* */ comments) at a token boundary — offset 0 or the end of any token the scanner reports ([C13_boundaries]) —
    leaves the token list unchanged; the back end only ever sees token types and literals. *)
Theorem C13_layout_insert : forall pre ws suf,
  nonneg (pre ++ ws ++ suf) -> is_layout ws -> boundary pre suf -> suf <> [] -> hard suf ->
  (ends_with_slash pre -> match ws with [] => True | w :: _ => is_blank w = true end) ->
  map strip (fst (fscan_all (pre ++ ws ++ suf))) = map strip (fst (fscan_all (pre ++ suf))).
Proof. exact fscan_all_layout_insert. Qed.
Print Assumptions C13_layout_insert.

Theorem C13_layout_insert_after_layout : forall pre L1 ws suf,
  nonneg (pre ++ L1 ++ ws ++ suf) -> is_layout L1 -> L1 <> [] -> is_layout ws -> boundary pre (L1 ++ suf) ->
  map strip (fst (fscan_all (pre ++ L1 ++ ws ++ suf))) = map strip (fst (fscan_all (pre ++ L1 ++ suf))).
Proof. exact fscan_all_layout_insert_in_layout. Qed.
Print Assumptions C13_layout_insert_after_layout.

Theorem C13_leading_layout : forall ws suf, is_layout ws -> nonneg (ws ++ suf) ->
  map strip (fst (fscan_all (ws ++ suf))) = map strip (fst (fscan_all suf)).
Proof. exact fscan_all_leading_layout. Qed.
Print Assumptions C13_leading_layout.

Theorem C13_boundaries : forall src ts e t, nonneg src -> fscan_all src = (ts, e) -> In t ts -> f_type t <> 0 ->
  boundary (firstn (Z.to_nat (tok_end t)) src) (skipn (Z.to_nat (tok_end t)) src).
Proof. exact boundary_token_end. Qed.
Print Assumptions C13_boundaries.

(** CHARACTER LITERALS.  Every spelling of a code point (literal character, \x, octal, \u, \U, named escape) is
    read by gocc as that code point; the generators use only the value (the original bytes of a character
    literal are never read by a generator: inventory re-checked on every run). *)
Theorem C13_char_literal_spellings : forall k k' c l l',
  spell k c = Some l -> spell k' c = Some l' -> lit_to_rune l = lit_to_rune l'.
Proof.
  intros k k' c l l' H H'. rewrite (spell_decodes k c l H), (spell_decodes k' c l' H'). reflexivity.
Qed.
Print Assumptions C13_char_literal_spellings.

(** STRING LITERALS.  The symbol of a string literal is the text between its quotes, whatever the quotes. *)
Definition unquote_symbol (lit : list Z) : list Z := removelast (tl lit).
Theorem C13_quoting_style : forall q1 q2 q3 q4 content,
  unquote_symbol ([q1] ++ content ++ [q2]) = unquote_symbol ([q3] ++ content ++ [q4]).
Proof.
  intros. unfold unquote_symbol. cbn [app tl]. rewrite !removelast_last. reflexivity.
Qed.
Print Assumptions C13_quoting_style.

(** The scanner model is total (so gocc's scanner terminates on every file). *)
Theorem C13_scanner_total : forall src, exists ts e, fscan_opt src = Some (ts, e) /\ fscan_all src = (ts, e).
Proof. exact fscan_opt_total. Qed.
Print Assumptions C13_scanner_total.

(** layout does not change what the front end DECIDES either: the whole front-end model (scanner ; parser on the
    shipped tables ; semantic checks) reads only the types and literals of the tokens, so layout inserted at a token
    boundary leaves its verdict unchanged (hypotheses: those of [C13_layout_insert]) *)
Theorem C13_layout_does_not_change_acceptance : forall ft tb fuel pre ws suf,
  nonneg (pre ++ ws ++ suf) -> is_layout ws -> boundary pre suf -> suf <> [] -> hard suf ->
  (ends_with_slash pre -> match ws with [] => True | w :: _ => is_blank w = true end) ->
  Sem.front_accepts_src ft tb fuel (pre ++ ws ++ suf) = Sem.front_accepts_src ft tb fuel (pre ++ suf).
Proof. exact FScanTypes.front_accepts_src_layout. Qed.
Print Assumptions C13_layout_does_not_change_acceptance.
