(** C01 — the generated lexer returns exactly the tokens the lexical rules define.
    Only property theorems (closed by [exact]) and non-vacuity examples.

    Structure of the argument:
    (A) [C01_scan_meets_spec], [C01_spec_deterministic], [C01_spec_characterises_scan]:
        what one call of Scan returns, for ANY automaton: reads while there is a transition into a
        non-ignored state; token type = accept code of the state reached (0 = INVALID) with exactly
        the text read; INVALID also owns the character that has no transition; an ignored-token
        state restarts at once; exhausted input gives the end-of-input token for ever.
    (B) [C01_definitional_automaton_*]: the derivative automaton of the grammar IS the property's
        reading of the lexical rules: regular definitions expanded as macros; for dot-free grammars
        component [i] is nullable iff the text read matches pattern [i] (textbook semantics
        [matches]) and live iff the text is a prefix of a lexeme of pattern [i]; the accept code is
        the priority winner (string literal first, else earliest declared); and the operational
        clause of the contextual dot.
    (C) [C01_checked_tables]: if the bisimulation checker accepts the emitted tables
        (re-run on every generated lexer), Scan on the tables returns, token for token, what the
        definitional tokenizer returns. *)
From Coq Require Import List ZArith Lia Bool.
From Gocc Require Import Lex.LexGen Lex.LexGenProofs Base.Utf8 Lex.Scan Lex.ScanProofs Lex.Pattern Lex.Deriv Lex.GScanProofs
  Lex.DerivProofs Lex.Bisim Lex.BisimProofs Lex.LexTop.
Import ListNotations.
Open Scope Z_scope.

(** (A) *)
Theorem C01_scan_meets_spec : forall decode d l t l',
  scan decode d l = Some (t, l') -> ScanSpec Z decode (dfa_machine d) l t l'.
Proof. exact scan_ScanSpec. Qed.
Print Assumptions C01_scan_meets_spec.

Theorem C01_spec_deterministic : forall St decode (M : machine St) l t1 l1 t2 l2,
  ScanSpec St decode M l t1 l1 -> ScanSpec St decode M l t2 l2 -> t1 = t2 /\ l1 = l2.
Proof. exact ScanSpec_det. Qed.
Print Assumptions C01_spec_deterministic.

Theorem C01_spec_characterises_scan : forall St decode (M : machine St) l t l',
  (forall bs r sz, bs <> [] -> decode bs = (r, sz) -> (1 <= sz <= length bs)%nat) ->
  ScanSpec St decode M l t l' -> gscan decode M l = Some (t, l').
Proof. exact ScanSpec_complete. Qed.
Print Assumptions C01_spec_characterises_scan.

Theorem C01_eof_for_ever : forall decode d l, rest l = [] ->
  scan decode d l =
  Some ({| ty := EOF; lit := []; toff := off l; tline := line l; tcol := col l; skipped := [] |}, l).
Proof. exact scan_eof_sticky. Qed.
Print Assumptions C01_eof_for_ever.

(** (B) *)
Theorem C01_pattern_semantics : forall p w, lang (re_of_pattern p) w <-> matches p w.
Proof. exact pattern_lang. Qed.
Print Assumptions C01_pattern_semantics.

Theorem C01_definitional_automaton_components : forall kps w,
  Forall (fun kp => dotfree (snd kp) = true) kps ->
  Forall2 (fun kp r => (nullable r = true <-> matches (snd kp) w) /\
                       (is_emp r = false <-> exists s, matches (snd kp) (w ++ s)))
          kps (dsteps (dstate0 kps) w).
Proof. exact deriv_correct. Qed.
Print Assumptions C01_definitional_automaton_components.

Theorem C01_definitional_automaton_live : forall kps w,
  Forall (fun kp => dotfree (snd kp) = true) kps ->
  (live (dsteps (dstate0 kps) w) = true <-> exists kp s, In kp kps /\ matches (snd kp) (w ++ s)).
Proof. exact live_prefix. Qed.
Print Assumptions C01_definitional_automaton_live.

Theorem C01_definitional_automaton_priority : forall kps w,
  Forall (fun kp => dotfree (snd kp) = true) kps ->
  Winner (fun p => matches p w) kps (verdict (map fst kps) (dsteps (dstate0 kps) w)).
Proof. exact verdict_correct. Qed.
Print Assumptions C01_definitional_automaton_priority.

Theorem C01_priority_unique : forall Q kps c1 c2, Winner Q kps c1 -> Winner Q kps c2 -> c1 = c2.
Proof. exact Winner_unique. Qed.
Print Assumptions C01_priority_unique.

Theorem C01_lexeme_dotfree : forall decode kps start bs s cur ty,
  Forall (fun kp => dotfree (snd kp) = true) kps ->
  Reads dstate decode (dmachine (map fst kps) (dstate0 kps)) (dstate0 kps) start INVALID bs s cur ty ->
  exists rs, Decodes decode start bs rs cur /\
    (rs = [] -> ty = INVALID) /\
    (rs <> [] -> Winner (fun p => matches p rs) kps ty) /\
    (forall c, m_step (dmachine (map fst kps) (dstate0 kps)) s c <> None <->
               exists kp sfx, In kp kps /\ matches (snd kp) (rs ++ c :: sfx)) /\
    (forall c s1, m_step (dmachine (map fst kps) (dstate0 kps)) s c = Some s1 ->
               Winner (fun p => matches p (rs ++ [c])) kps (m_acc (dmachine (map fst kps) (dstate0 kps)) s1)).
Proof. exact dotfree_reads. Qed.
Print Assumptions C01_lexeme_dotfree.

(** the contextual dot *)
Theorem C01_dot_explicit : forall S c, explicit S c = true <->
  exists r lo hi, In r S /\ In (lo, hi) (firstsyms r) /\ lo <= c <= hi.
Proof. exact explicit_spec. Qed.
Print Assumptions C01_dot_explicit.

Theorem C01_dot_step : forall dots S c, Forall (nz dots) S ->
  Forall2 (fun r r' => is_emp r' = false <->
             expl r c = true \/ (explicit S c = false /\ firstany r = true))
          S (dstep S c).
Proof. exact dstep_component. Qed.
Print Assumptions C01_dot_step.

(** (C) *)
Theorem C01_checked_tables : forall rows acts g fuel,
  bisim_check rows acts g fuel = true ->
  forall k l, Forall byte (rest l) ->
    scan_n decode_rune (table_dfa rows acts) k l = dscan_n g k l.
Proof. exact bisim_check_sound. Qed.
Print Assumptions C01_checked_tables.

Theorem C01_checked_tables_spec : forall rows acts g fuel ks S0,
  bisim_check rows acts g fuel = true -> dinit g = Some (ks, S0) ->
  forall l t l', Forall byte (rest l) ->
    scan decode_rune (table_dfa rows acts) l = Some (t, l') ->
    ScanSpec dstate decode_rune (dmachine ks S0) l t l'.
Proof. exact bisim_check_ScanSpec. Qed.
Print Assumptions C01_checked_tables_spec.

(** ** Non-vacuity *)
(** id : _l {_l} ; !ws : ' ' ; "if"  with _l : 'a'-'z' — and the DFA gocc emits for it *)
Example ex_g : lexgrammar := {| regdefs := [ [[Rng 97 122]] ];
  toks := [ (Tok 2 false, [[Ref 0; Rep [[Ref 0]]]]); (Ign, [[Chr 32]]); (Tok 3 true, [[Chr 105; Chr 102]]) ] |}.
Example ex_rows := [ {| cases := [(105,105,1);(97,104,2);(106,122,2);(32,32,3)]; dflt := -1 |};
  {| cases := [(102,102,4);(97,101,2);(103,122,2)]; dflt := -1 |};
  {| cases := [(97,122,2)]; dflt := -1 |};
  {| cases := []; dflt := -1 |};
  {| cases := [(97,122,2)]; dflt := -1 |} ].
Example ex_checker_accepts : bisim_check ex_rows [0;2;2;-1;3] ex_g 100 = true.
Proof. vm_compute. reflexivity. Qed.
(** a wrong action table (the keyword state accepts as identifier) is rejected *)
Example ex_checker_rejects : bisim_check ex_rows [0;2;2;-1;2] ex_g 100 = false.
Proof. vm_compute. reflexivity. Qed.
(** "if ifx ?i": keyword, identifier, INVALID, identifier, end of input *)
Example ex_tokens :
  option_map (fun r => map (fun t => (ty t, lit t)) (fst r)) (dscan_n ex_g 5 (init [105;102;32;105;102;120;32;63;105]))
  = Some [(3, [105;102]); (2, [105;102;120]); (0, [63]); (2, [105]); (1, [])].
Proof. vm_compute. reflexivity. Qed.
(** macro semantics on the known-finding grammar  n : _d {_d} 'y' ; _d : '0' ['1'] ;  "00y" is one token *)
Example ex_macro :
  option_map (fun r => map (fun t => (ty t, lit t)) (fst r))
    (dscan_n {| regdefs := [ [[Chr 48; Opt [[Chr 49]]]] ];
                toks := [ (Tok 2 false, [[Ref 0; Rep [[Ref 0]]; Chr 121]]) ] |} 2 (init [48;48;121]))
  = Some [(2, [48;48;121]); (1, [])].
Proof. vm_compute. reflexivity. Qed.
(** contextual dot:  s : '"' { . } '"'  — the dot does not match the quote: "AB""" is two tokens *)
Example ex_dot :
  option_map (fun r => map (fun t => (ty t, lit t)) (fst r))
    (dscan_n {| regdefs := []; toks := [ (Tok 2 false, [[Chr 34; Rep [[Dot]]; Chr 34]]) ] |} 2 (init [34;65;66;34;34;34]))
  = Some [(2, [34;65;66;34]); (2, [34;34])].
Proof. vm_compute. reflexivity. Qed.
(** a recursive regular definition is rejected *)
Example ex_recursive :
  dinit {| regdefs := [ [[Ref 1]]; [[Chr 1; Ref 0]] ]; toks := [ (Tok 2 false, [[Ref 0]]) ] |} = None.
Proof. vm_compute. reflexivity. Qed.

(** * For EVERY lexical part: the model of gocc's lexer generator (Lex/LexGen.v: regular definitions inlined, items as
    positions of the patterns, e-closure, symbol classes by the verified AddRange, state numbering of ItemSets.Closure,
    ItemSet.Action) — compared on every run with the DFA gocc builds AND with the emitted tables, by structural
    equality (numbering, class order, targets, accept codes). *)

(** whatever DFA the model generator outputs tokenizes every input exactly as the lexical rules define
    (derivative semantics: macros, contextual '.', longest match, priorities), dots included *)
Theorem C01_every_grammar_generated_dfa_correct : forall g fuel rows acts,
  lexgen g fuel = Some (rows, acts) ->
  forall k l, Forall byte (rest l) -> scan_n decode_rune (table_dfa rows acts) k l = dscan_n g k l.
Proof. exact lexgen_correct. Qed.
Print Assumptions C01_every_grammar_generated_dfa_correct.

(** the generator is total on well-formed lexical parts (fuel bound: one more than 2 ^ #positions) ... *)
Theorem C01_every_grammar_generator_total : forall g fuel, lex_wf g = true -> (lex_fuel g <= fuel)%nat ->
  exists rows acts, lexgen g fuel = Some (rows, acts).
Proof. exact lexgen_total. Qed.
Print Assumptions C01_every_grammar_generator_total.

(** ... and rejects exactly the ill-formed ones: undefined or recursive regular definitions, empty ranges,
    patterns without alternative *)
Theorem C01_every_grammar_generator_rejects : forall g, lexgen g (lex_fuel g) = None <-> lex_wf g = false.
Proof. exact lexgen_None_iff. Qed.
Print Assumptions C01_every_grammar_generator_rejects.

Theorem C01_lex_wf_spec : forall g,
  lex_wf g = match expand g with
             | None => false
             | Some kps => forallb (fun kp => wf_p (snd kp)) kps
             end.
Proof. exact lex_wf_spec. Qed.
Print Assumptions C01_lex_wf_spec.

(** (F) From the BYTES of the grammar file to the lexical part.  [Front/LexAst.v] is the model of the front end's handling of
    the lexical part: the token list of the scanner model is cut into definitions, each body is parsed by a structurally
    recursive pattern parser (no fuel), character literals are decoded by the [LitToRune] model, token numbers come from the
    terminal-numbering model.  On every run its output on the bytes of each grammar file is compared with the AST gocc
    parsed; composed with (E) this ties the whole path file -> DFA to the model.  The parser is a left inverse of the
    printer on every well-formed pattern (brackets, ranges, references, non-ASCII characters included): no well-formed
    pattern is mis-parsed, refused or confused with another. *)
Require Gocc.Front.LexAst Gocc.Front.LexAstProofs.
Theorem C01_front_end_pattern_parser_round_trip : forall regs (p : Pattern.pattern),
  Gocc.Front.LexAstProofs.wf_pattern regs p = true ->
  Gocc.Front.LexAst.parse_pattern Gocc.Front.Sem.shipped_ftypes Gocc.Front.LexAst.shipped_ltypes regs
    (Gocc.Front.LexAstProofs.print_pattern_ftok regs p) = Some p.
Proof. exact Gocc.Front.LexAstProofs.parse_pattern_print. Qed.
Print Assumptions C01_front_end_pattern_parser_round_trip.
