(** C17 — independent lexer/parser instances are safe to use concurrently (the part a theorem can carry). *)
From Coq Require Import List Arith.
From Gocc Require Import Front.Interleave LR.Parse LR.ObjParse LR.ObjConc.
Import ListNotations.

(** Objects (a lexer, a parser: their state includes what they have returned so far) whose steps read only
    shared immutable tables and write only their own state: for EVERY schedule, every object ends in
    exactly the state it reaches after the same number of its own steps run alone.
    The frame assumption — generated code performs no write to package-level state outside init() — is
    re-checked on the emitted packages on every run; data races proper (Go memory model) are the subject
    of the race-detector run, not of this theorem. *)
Theorem C17_every_schedule_gives_sequential_results : forall (T O : Type) (step : T -> O -> O) t sch s i o,
  nth_error s i = Some o ->
  nth_error (run_sched T O step t sch s) i = Some (Nat.iter (steps_of i sch) (step t) o).
Proof. exact interleaving_irrelevant. Qed.
Print Assumptions C17_every_schedule_gives_sequential_results.

Theorem C17_schedules_equivalent : forall (T O : Type) (step : T -> O -> O) t sch sch' s,
  (forall i, steps_of i sch = steps_of i sch') ->
  forall i, nth_error (run_sched T O step t sch s) i = nth_error (run_sched T O step t sch' s) i.
Proof. exact schedules_equivalent. Qed.
Print Assumptions C17_schedules_equivalent.

(** The same statement for the objects the generated code really has (LR/ObjParse.v: parser objects with their slices and
    backing arrays), one Parse call per step: n goroutines, each with its own parser object (in ANY state) and its own inputs,
    sharing the tables.  For every schedule, every goroutine has obtained exactly the results that fresh parsers give on
    its own inputs, in order — as many as the schedule has let it complete. *)
Theorem C17_parser_objects_every_schedule : forall sh sch (ws : list worker) i w,
  nth_error ws i = Some w ->
  exists w', nth_error (run_sched shared worker w_step sh sch ws) i = Some w' /\
    w_done w' = w_done w ++
      map (fun c => parse (sh_tb sh) (fst c) (snd c) (sh_fuel sh)) (firstn (steps_of i sch) (w_todo w)).
Proof. exact parsers_every_schedule. Qed.
Print Assumptions C17_parser_objects_every_schedule.
