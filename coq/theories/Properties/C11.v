(** C11 — generation is deterministic (independent of map iteration order). *)
From Coq Require Import List ZArith Bool Arith Permutation.
From Gocc Require Import LR.Parse Front.TokMap Front.TokMapProofs Front.Perm Front.PermProofs.
Import ListNotations.

(** Every place where the generator ranges over a Go map is modelled as iteration over an ARBITRARY
    permutation of the key list; the results that reach generated files do not depend on it.
    (The inventory of map-range sites of the source is re-derived on every run and compared with the
    list of sites these theorems cover.) *)

(** ast.LexPart.TokenIds (map keys, then sort.Strings) and hence the token numbering *)
Theorem C11_token_ids : forall order order', Permutation order order' -> token_ids_z order = token_ids_z order'.
Proof. exact token_ids_z_order_independent. Qed.
Print Assumptions C11_token_ids.
Theorem C11_token_numbering : forall prods order order', Permutation order order' ->
  terminals_z prods (token_ids_z order) = terminals_z prods (token_ids_z order').
Proof. exact terminals_z_lex_order_independent. Qed.
Print Assumptions C11_token_numbering.

(** FIRST sets: SymbolSet.AddSet / FirstSets.AddSet range over maps; for every fuel the sets computed under
    two families of iteration orders are equal as sets and the run is in the same state (same number of rounds) *)
Theorem C11_first_sets : forall ord ord' fuel (prods : list (list Z * list (list Z))) EMPTY is_term,
  permuting3 (list Z) ord -> permuting3 (list Z) ord' ->
  env_eq (list Z) (fst (first_sets (list Z) zstr_eqb EMPTY is_term ord fuel prods))
                  (fst (first_sets (list Z) zstr_eqb EMPTY is_term ord' fuel prods)) /\
  snd (first_sets (list Z) zstr_eqb EMPTY is_term ord fuel prods) =
  snd (first_sets (list Z) zstr_eqb EMPTY is_term ord' fuel prods).
Proof.
  intros ord ord' fuel prods EMPTY is_term H1 H2.
  exact (first_sets_order_independent (list Z) zstr_eqb EMPTY is_term zstr_eqb_eq ord ord' fuel prods H1 H2).
Qed.
Print Assumptions C11_first_sets.

(** the look-ahead lists handed to the LR(1) closure (first1: keys of a map, sorted) are equal as lists *)
Theorem C11_lookahead_lists : forall EMPTY is_term o o' pm pm' fs fs' syms following,
  permuting1 (list Z) o -> permuting1 (list Z) o' ->
  (forall l, Permutation (pm l) l) -> (forall l, Permutation (pm' l) l) -> env_eq (list Z) fs fs' ->
  first1 (list Z) zstr_eqb EMPTY is_term lex_leb o pm fs syms following =
  first1 (list Z) zstr_eqb EMPTY is_term lex_leb o' pm' fs' syms following.
Proof.
  intros. apply (first1_order_independent (list Z) zstr_eqb EMPTY is_term zstr_eqb_eq lex_leb
                   lex_leb_total lex_leb_trans lex_leb_antisym); assumption.
Qed.
Print Assumptions C11_lookahead_lists.

(** ItemSet.Action: the conflictMap's iteration order affects only the order of the reported conflict
    list, never the resolved action nor the number of conflicts *)
Theorem C11_action_and_conflict_count : forall pm pm' cs cs',
  (forall l, Permutation (pm l) l) -> (forall l, Permutation (pm' l) l) -> Permutation cs cs' ->
  match action_go pm cs, action_go pm' cs' with
  | Some (w, cf), Some (w', cf') => w = w' /\ Permutation cf cf' /\ length cf = length cf'
  | None, None => True
  | _, _ => False
  end.
Proof.
  intros pm pm' cs cs' H1 H2 H3. pose proof (action_order_independent pm pm' cs cs' H1 H2 H3) as H.
  destruct (action_go pm cs) as [[w cf]|]; destruct (action_go pm' cs') as [[w' cf']|]; auto.
Qed.
Print Assumptions C11_action_and_conflict_count.
