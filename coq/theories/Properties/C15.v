(** C15 — the front end accepts exactly the token language of spec/gocc2.ebnf.
    The theorems are C02's, instantiated on every run to (spec grammar, checked-in tables) by the
    kernel-evaluated obligation  lr_valid spec front_tables annotation = true. Re-stated here so that
    the instantiation is explicit: [tb] stands for the tables of internal/frontend/parser/tables.go,
    [g] for the grammar of spec/gocc2.ebnf with production 0 = S! -> Grammar. *)
From Coq Require Import List Arith ZArith Lia Bool.
From Gocc Require Import LR.Parse LR.Validate LR.Trees LR.Eval LR.Sound LR.SoundTop LR.SoundGated LR.Complete.
Import ListNotations.

(** accepted => sentence of the spec, and the logged reductions are the productions of a parse tree of
    the input in post-order (every production is logged: [p_act] is set for all of them).
    The shipped tables DO shift the keyword "error" (it is an ordinary terminal of the spec), so the hypothesis of
    C02's soundness theorem ([no_error_shift]) is false for them; what holds, and what the kernel re-checks on every
    run, is that recovery is gated on canRecover and no state can recover (LR/SoundGated.v). *)
Theorem C15_accept_implies_sentence_and_reductions : forall g tb an sem input fuel v,
  valid_backward g tb an = true ->
  t_gate tb = true -> forallb (fun r => negb (s_recover r)) (t_states tb) = true ->
  Forall (fun t => ttype t <> EOFT) input -> Forall (fun t => ttype t < nterms tb) input ->
  r_out (parse tb sem input fuel) = POk v ->
  exists t pr0 X0 c, nth_error g 0 = Some pr0 /\ rhs pr0 = [X0] /\ wt g X0 t input /\
                     eval tb sem t 0 [] = EOk v c (r_log (parse tb sem input fuel)).
Proof.
  intros g tb an sem input fuel v HV HG HN HI HR Hok.
  exact (parse_sound_gated g tb an sem input HG HN fuel v HV HI HR Hok).
Qed.
Print Assumptions C15_accept_implies_sentence_and_reductions.

Theorem C15_sentence_implies_accept : forall g tb an sem input,
  valid_forward g tb an = true -> (forall i p kids, sem i p kids <> None) ->
  forall pr0 X0 t, nth_error g 0 = Some pr0 -> rhs pr0 = [X0] -> wt g X0 t input ->
  forall fuel, size t + 1 <= fuel -> exists v, r_out (parse tb sem input fuel) = POk v.
Proof. exact lr_complete. Qed.
Print Assumptions C15_sentence_implies_accept.

(** With recovery gated on canRecover and no state able to recover, the keyword "error" is never
    shifted as a recovery symbol: whatever the tables say about the "error" column. *)
Theorem C15_gated_recovery_never_triggers : forall tb input fuel st next pos st' next' pos',
  t_gate tb = true -> forallb (fun r => negb (s_recover r)) (t_states tb) = true ->
  error_step tb input fuel st next pos <> Recovered st' next' pos'.
Proof.
  intros tb input fuel st next pos st' next' pos' Hg Hall. unfold error_step.
  match goal with |- context [let '(_, _) := ?m in _] => destruct m as [removed st1] end.
  destruct (top st1) as [s1|]; [|discriminate].
  destruct (action_at tb s1 (t_err tb)) as [[[s2|p|]|]|]; try discriminate.
  rewrite Hg. assert (Hr : recover_at tb s1 = false).
  { unfold recover_at. destruct (nth_error (t_states tb) s1) as [r|] eqn:E; [|reflexivity].
    rewrite forallb_forall in Hall. specialize (Hall r (nth_error_In _ _ E)).
    destruct (s_recover r); [discriminate|reflexivity]. }
  rewrite Hr. simpl. discriminate.
Qed.
Print Assumptions C15_gated_recovery_never_triggers.
