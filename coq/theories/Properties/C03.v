(** C03 — semantic actions are applied bottom-up, left to right, over the parse tree. *)
From Coq Require Import List Arith ZArith Lia Bool.
From Gocc Require Import LR.Parse LR.Validate LR.Trees LR.Eval LR.Sound LR.SoundTop Front.Sdt Front.SdtProofs.
Import ListNotations.
Close Scope Z_scope.

(** When Parse succeeds with value [v], there is a parse tree [t] of the input such that
    [v] and the log of action calls are exactly the post-order evaluation [eval] of the
    action expressions over [t] starting with call index 0 and an empty log:
    each explicit action is called once per node of its alternative, after the actions of the
    node's children (left to right), with the children's attributes in order as arguments;
    a terminal's attribute is the token object itself ([ATok] carries the token's identity);
    an alternative without action yields its first attribute, an empty one yields nil
    (see [Eval.apply_action]).  For all grammars, validated tables, actions [sem], inputs. *)
Theorem C03_result_is_postorder_evaluation : forall g tb an sem input fuel v,
  valid_backward g tb an = true -> no_error_shift tb = true ->
  Forall (fun t => ttype t <> EOFT) input -> Forall (fun t => ttype t < nterms tb) input ->
  r_out (parse tb sem input fuel) = POk v ->
  exists t pr0 X0 c, nth_error g 0 = Some pr0 /\ rhs pr0 = [X0] /\ wt g X0 t input /\
                     eval tb sem t 0 [] = EOk v c (r_log (parse tb sem input fuel)).
Proof.
  intros g tb an sem input fuel v HV HN HI HR Hok.
  pose proof (parse_sound_valid g tb an sem input fuel HV HN HI HR) as H.
  unfold good_result in H. rewrite Hok in H. exact H.
Qed.
Print Assumptions C03_result_is_postorder_evaluation.

(** If the [i]-th action call returns an error, Parse stops with an error carrying it and the
    failing call is the last entry of the log: no further action ran. *)
Theorem C03_action_error_stops : forall g tb an sem input fuel e i,
  valid_backward g tb an = true -> no_error_shift tb = true ->
  Forall (fun t => ttype t <> EOFT) input -> Forall (fun t => ttype t < nterms tb) input ->
  r_out (parse tb sem input fuel) = PErr e -> e_action e = Some i ->
  exists p kids l0, r_log (parse tb sem input fuel) = l0 ++ [(p, kids)] /\ sem i p kids = None.
Proof.
  intros g tb an sem input fuel e i HV HN HI HR He Hi.
  pose proof (parse_sound_valid g tb an sem input fuel HV HN HI HR) as H.
  unfold good_result in H. rewrite He, Hi in H. exact H.
Qed.
Print Assumptions C03_action_error_stops.

(** post-order: evaluation of a node = evaluation of its children in order, then its action *)
Theorem C03_eval_is_postorder : forall tb sem p kids c log,
  eval tb sem (Node p kids) c log =
  match evals tb sem kids c log with
  | EFail i l => EFail i l
  | EOk vs c' l' => apply_action tb sem p vs c' l'
  end.
Proof. exact eval_node. Qed.
Print Assumptions C03_eval_is_postorder.

(** The rewriting of action expressions (model of Token.SDTVal, compared with the Go function on every run):
    text without '$' is untouched; $i (i a maximal digit string) becomes X[i]; $Ti becomes X[i] with the token
    type assertion; $Context becomes C. *)
Theorem C03_sdt_untouched : forall l, ~ In 36%Z l -> rw l = l.
Proof. exact rw_no_dollar. Qed.
Print Assumptions C03_sdt_untouched.
Theorem C03_sdt_attr : forall d ds rest, Forall (fun b => is_digit b = true) (d :: ds) ->
  match rest with b :: _ => is_digit b = false | [] => True end ->
  rw (36%Z :: (d :: ds) ++ rest) = s_x_open ++ (d :: ds) ++ s_close ++ rw rest.
Proof. exact rw_attr. Qed.
Print Assumptions C03_sdt_attr.
Theorem C03_sdt_token : forall d ds rest, Forall (fun b => is_digit b = true) (d :: ds) ->
  match rest with b :: _ => is_digit b = false | [] => True end ->
  rw (36%Z :: 84%Z :: (d :: ds) ++ rest) = s_x_open ++ (d :: ds) ++ s_tok ++ rw rest.
Proof. exact rw_token. Qed.
Print Assumptions C03_sdt_token.
Theorem C03_sdt_context : forall rest, rw (36%Z :: s_context ++ rest) = 67%Z :: rw rest.
Proof. exact rw_context. Qed.
Print Assumptions C03_sdt_context.
