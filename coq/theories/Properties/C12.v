(** C12 — presentation flags do not change the generated language (the provable part: -zip). *)
From Coq Require Import List Arith Lia Bool Permutation.
From Gocc Require Import LR.Parse LR.ZipTab LR.ZipTabProofs.
Import ListNotations.

(** The compressed action table rebuilt by the generated init() equals the literal table, for every row
    (gob+gzip being a lossless transport of the triples; goto rows are transported unchanged). *)
Theorem C12_zip_row_roundtrip : forall r, decode_row (length r) (encode_row r) = r.
Proof. exact decode_encode_row. Qed.
Print Assumptions C12_zip_row_roundtrip.

Theorem C12_zip_table_roundtrip : forall n tab,
  Forall (fun r => length (snd r) = n) tab -> decode_table n (encode_table tab) = tab.
Proof. exact decode_encode_table. Qed.
Print Assumptions C12_zip_table_roundtrip.

(** decoding does not depend on the order in which the triples arrive *)
Theorem C12_zip_order_irrelevant : forall r ts, Permutation (encode_row r) ts -> decode_row (length r) ts = r.
Proof. exact decode_encode_row_perm. Qed.
Print Assumptions C12_zip_order_irrelevant.

(** The other flags (-debug_lexer, -debug_parser, -v, -no_lexer) change only which template blocks are
    emitted; that they leave behaviour unchanged is checked on every run by diffing the generated files
    (debug blocks may only print) and by running all flag subsets on the same inputs. *)
