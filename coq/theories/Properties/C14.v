(** C14 — ill-formed grammars are rejected, never silently repaired.
    The front end is  scanner ; parser ; semantic checks.
    - scanner: [FScan.fscan_all] (total; tied to the code by C13's correspondence);
    - parser: [Parse.parse] on the SHIPPED tables, for which the kernel re-checks on every run (C15) that
      [valid_backward spec tables annot = true] and that recovery is gated off;
    - semantic checks: [Sem.sem_verdict] (Front/Sem.v), a model of ast.NewLexPart / LexProdMap.Add, ast.consistent,
      LexPart.UndefinedRegDef, symbols.NewSymbols, UpdateStringLitTokens and the recursion check of the regular
      definitions, in the order in which main.go runs them; compared with gocc's exit status (both directions) on
      every run.  [Sem.front_accepts] is the conjunction  parse succeeds && verdict = SemOk. *)
From Coq Require Import List Arith ZArith Bool.
From Gocc Require Import LR.Parse LR.Validate LR.Trees LR.Sound LR.SoundTop LR.SoundGated LR.Complete
  Front.FUnicode Front.FScan Front.FScanProofs Front.Sem Front.SemProofs Front.SemTop Front.SemRange Front.FScanTypes.
Import ListNotations.

(** success of the front-end parser implies the token sequence is a sentence of the grammar the tables were
    validated against — for ALL token sequences; nothing is skipped: the parse tree's yield is the whole input.
    (The shipped tables shift the keyword "error" as an ordinary terminal; the hypothesis is the gate.) *)
Theorem C14_accept_only_sentences : forall g tb an sem input fuel v,
  valid_backward g tb an = true ->
  t_gate tb = true -> forallb (fun r => negb (s_recover r)) (t_states tb) = true ->
  Forall (fun t => ttype t <> EOFT) input -> Forall (fun t => (ttype t < nterms tb)%nat) input ->
  r_out (parse tb sem input fuel) = POk v ->
  exists t pr0 X0, nth_error g 0 = Some pr0 /\ rhs pr0 = [X0] /\ wt g X0 t input.
Proof.
  intros g tb an sem input fuel v HV HG HN HI HR Hok.
  destruct (parse_sound_gated g tb an sem input HG HN fuel v HV HI HR Hok) as (t & pr0 & X0 & c & H0 & H1 & H2 & _).
  exists t, pr0, X0. auto.
Qed.
Print Assumptions C14_accept_only_sentences.

(** the scanner hands EVERY byte range it recognises to the parser in order: token literals are the source bytes
    at increasing offsets (no part of the file is reordered); whatever lies between tokens is layout by C13 *)
Theorem C14_tokens_in_file_order : forall src ts e, fscan_all src = (ts, e) ->
  Forall (tok_in_src src) ts /\ Sorted.StronglySorted tok_before ts.
Proof. intros src ts e H. exact (conj (fscan_all_lits src ts e H) (fscan_all_offsets src ts e H)). Qed.
Print Assumptions C14_tokens_in_file_order.

(** the semantic checks accept EXACTLY the declaratively well-formed files ([sem_wf] is written without reference to
    the checking code): no lexical identifier defined twice; every regular definition referred to is defined, wherever
    the reference occurs; no regular definition a token reaches is recursive; every symbol of a syntax body that the
    scanner classifies as a production name is defined; no reserved name; no alternative without symbols *)
Theorem C14_semantic_verdict_iff_well_formed : forall ft toks,
  sem_verdict ft toks = SemOk <-> sem_wf ft toks.
Proof. exact sem_verdict_ok_iff. Qed.
Print Assumptions C14_semantic_verdict_iff_well_formed.

Theorem C14_semantic_ok_facts : forall ft toks, sem_verdict ft toks = SemOk ->
  NoDup (tok_defs ft toks) /\ NoDup (reg_defs ft toks) /\ NoDup (ign_defs ft toks) /\
  (forall r, In r (reg_uses ft toks) -> In r (reg_defs ft toks)) /\
  regdefs_acyclic (lex_defs ft toks) /\
  (forall p, UpperInitial p -> In p (prod_uses ft toks) -> In p (tok_defs ft toks ++ prod_heads ft toks)) /\
  (forall a, In a (aug_alts ft toks) -> snd a <> [] /\ fst a <> n_INVALID /\
             forall s, In s (snd a) -> snd s <> n_INVALID /\ snd s <> n_EOF).
Proof. exact sem_ok_facts. Qed.
Print Assumptions C14_semantic_ok_facts.

(** the whole front-end model: an accepted token list is a sentence of the grammar (all of it), the definitions the
    semantic model checks ARE the definition nodes of its parse tree (head = first child, body = yield of the third
    child: "the token followed by ':' ... up to ';'" is not a heuristic), and they are well formed.  [cut_ok] is a
    boolean side condition on the grammar, evaluated by the kernel on the spec grammar on every run. *)
Theorem C14_accepted_files_are_well_formed : forall ft g tb an sf toks fuel,
  valid_backward g tb an = true ->
  t_gate tb = true -> forallb (fun r => negb (s_recover r)) (t_states tb) = true ->
  (0 <= ft_colon ft)%Z -> (0 <= ft_semi ft)%Z ->
  cut_ok g (Z.to_nat (ft_colon ft + 1)) (Z.to_nat (ft_semi ft + 1)) sf = true ->
  Forall (fun t => f_type t <> 0%Z) toks -> Forall (fun t => (Z.to_nat (f_type t + 1) < nterms tb)%nat) toks ->
  front_accepts ft tb fuel toks = true ->
  sem_wf ft toks /\
  exists t pr0 X0, nth_error g 0 = Some pr0 /\ rhs pr0 = [X0] /\ wt g X0 t (to_ptoks 0 toks) /\
    defs_tree g (Z.to_nat (ft_colon ft + 1)) t = map (pmap mk) (tagged_defs ft toks) /\
    defs ft toks = map (pmap snd) (tagged_defs ft toks).
Proof. exact front_accepts_sound. Qed.
Print Assumptions C14_accepted_files_are_well_formed.

(** conversely (no spurious rejection at model level): a sentence whose definitions are well formed is accepted *)
Theorem C14_well_formed_sentences_accepted : forall ft g tb an toks,
  valid_forward g tb an = true ->
  forall pr0 X0 t, nth_error g 0 = Some pr0 -> rhs pr0 = [X0] -> wt g X0 t (to_ptoks 0 toks) ->
  sem_wf ft toks ->
  forall fuel, (size t + 1 <= fuel)%nat -> front_accepts ft tb fuel toks = true.
Proof. exact front_accepts_complete. Qed.
Print Assumptions C14_well_formed_sentences_accepted.

(** the check that runs while the patterns are built (repair of defect D17): the model the harness runs is
    [front_accepts_r]; it accepts exactly when [front_accepts] does and no range  lo '-' hi  has decoded bounds lo > hi *)
Theorem C14_empty_ranges_refused : forall ft cl mn tb fuel toks,
  front_accepts_r ft cl mn tb fuel toks = true <->
  front_accepts ft tb fuel toks = true /\ no_empty_range cl mn toks.
Proof. exact front_accepts_r_iff. Qed.
Print Assumptions C14_empty_ranges_refused.

(** FROM THE BYTES OF THE FILE: the scanner model only produces token types the tables know (-1 .. 21: proved for
    every source), so the hypotheses about the token list disappear: a grammar FILE the front-end model accepts is a
    well-formed sentence of the spec; the one remaining side condition (22 < number of terminals of the tables) is
    evaluated with the tables. *)
Theorem C14_accepted_source_is_well_formed : forall ft g tb an sf src fuel,
  valid_backward g tb an = true ->
  t_gate tb = true -> forallb (fun r => negb (s_recover r)) (t_states tb) = true ->
  (0 <= ft_colon ft)%Z -> (0 <= ft_semi ft)%Z ->
  cut_ok g (Z.to_nat (ft_colon ft + 1)) (Z.to_nat (ft_semi ft + 1)) sf = true ->
  (Z.to_nat (max_ftype + 1) < nterms tb)%nat ->
  front_accepts_src ft tb fuel src = true ->
  let toks := strip_eof (fst (fscan_all src)) in
  sem_wf ft toks /\
  exists t pr0 X0, nth_error g 0 = Some pr0 /\ rhs pr0 = [X0] /\ wt g X0 t (to_ptoks 0 toks) /\
    defs_tree g (Z.to_nat (ft_colon ft + 1)) t = map (pmap mk) (tagged_defs ft toks) /\
    defs ft toks = map (pmap snd) (tagged_defs ft toks).
Proof. exact front_accepts_src_sound. Qed.
Print Assumptions C14_accepted_source_is_well_formed.

Theorem C14_scanner_token_types : forall src ts e, fscan_all src = (ts, e) ->
  Forall (fun t => (-1 <= f_type t <= 21)%Z) ts.
Proof. exact fscan_all_types_21. Qed.
Print Assumptions C14_scanner_token_types.
