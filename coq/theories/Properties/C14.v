(** C14 — ill-formed grammars are rejected, never silently repaired (the part a theorem carries).
    The front end is  scanner ; parser.  The scanner is [FScan.fscan_all] (total; tied to the code by C13's
    correspondence); the parser is [Parse.parse] on the shipped tables, for which the kernel re-checks on every run
    (C15) that [lr_valid spec tables annot = true] and that recovery is gated off.  Hence: *)
From Coq Require Import List Arith ZArith Bool.
From Gocc Require Import LR.Parse LR.Validate LR.Trees LR.Sound LR.SoundTop Front.FUnicode Front.FScan Front.FScanProofs.
Import ListNotations.

(** success of the front-end parser implies the token sequence is a sentence of the grammar the tables were
    validated against — for ALL token sequences; nothing is skipped: the parse tree's yield is the whole input *)
Theorem C14_accept_only_sentences : forall g tb an sem input fuel v,
  valid_backward g tb an = true -> no_error_shift tb = true ->
  Forall (fun t => ttype t <> EOFT) input -> Forall (fun t => (ttype t < nterms tb)%nat) input ->
  r_out (parse tb sem input fuel) = POk v ->
  exists t pr0 X0, nth_error g 0 = Some pr0 /\ rhs pr0 = [X0] /\ wt g X0 t input.
Proof.
  intros g tb an sem input fuel v HV HN HI HR Hok.
  pose proof (parse_sound_valid g tb an sem input fuel HV HN HI HR) as H.
  unfold good_result in H. rewrite Hok in H.
  destruct H as (t & pr0 & X0 & c & H0 & H1 & H2 & _). exists t, pr0, X0. auto.
Qed.
Print Assumptions C14_accept_only_sentences.

(** the scanner hands EVERY byte range it recognises to the parser in order: token literals are the source bytes
    at increasing offsets (no part of the file is reordered); whatever lies between tokens is layout by C13 *)
Theorem C14_tokens_in_file_order : forall src ts e, fscan_all src = (ts, e) ->
  Forall (tok_in_src src) ts /\ Sorted.StronglySorted tok_before ts.
Proof. intros src ts e H. exact (conj (fscan_all_lits src ts e H) (fscan_all_offsets src ts e H)). Qed.
Print Assumptions C14_tokens_in_file_order.
