(** C05 — automatic conflict resolution prefers shift, then the earliest production. *)
From Coq Require Import List Arith Lia Bool Permutation.
From Gocc Require Import LR.Parse LR.Validate LR.Resolve LR.ResolveProofs LR.Canonical LR.Gen LR.GenAuto LR.GenAutoProofs.
Import ListNotations.

(** For every list of candidate actions competing for one (state, terminal) cell, in every order
    ([cs] lists the candidates contributed by the items of the state in item order; [None] is "no action"):
    when resolution does not panic, the winner is Shift iff a shift is among the candidates, otherwise the
    Reduce with the smallest production index, otherwise Accept / nothing. *)
Theorem C05_winner : forall cs w cf, row_action cs = Some (w, cf) ->
  (forall s, w = Some (Shift s) <-> In (Some (Shift s)) cs) /\
  (forall p, w = Some (Reduce p) <->
     (forall s, ~ In (Some (Shift s)) cs) /\ In (Some (Reduce p)) cs /\
     forall q, In (Some (Reduce q)) cs -> p <= q) /\
  (w = Some Accept <-> In (Some Accept) cs) /\
  (w = None <-> forall a, ~ In (Some a) cs).
Proof. exact row_action_winner. Qed.
Print Assumptions C05_winner.

(** entries without competition are unaffected *)
Theorem C05_single_candidate_unchanged : forall cs a,
  In (Some a) cs -> (forall b, In (Some b) cs -> b = a) -> row_action cs = Some (Some a, []).
Proof. exact row_action_single. Qed.
Print Assumptions C05_single_candidate_unchanged.

(** a conflict is recorded exactly when two distinct actions compete *)
Theorem C05_conflict_iff_competition : forall cs w cf, row_action cs = Some (w, cf) ->
  (cf <> [] <-> exists a b, a <> b /\ In (Some a) cs /\ In (Some b) cs).
Proof. exact row_action_conflicts_nonempty. Qed.
Print Assumptions C05_conflict_iff_competition.

(** the resolved cell (and whether resolution is refused) does not depend on the order of the items *)
Theorem C05_order_independent : forall cs cs', Permutation cs cs' ->
  match row_action cs, row_action cs' with
  | None, None => True
  | Some (w, cf), Some (w', cf') => w = w' /\ Permutation cf cf'
  | _, _ => False
  end.
Proof. exact row_action_perm. Qed.
Print Assumptions C05_order_independent.

(** resolution is refused (gocc panics, in both modes) exactly when Accept competes with another action
    (or two different shift targets compete, which cannot happen for one automaton) *)
Theorem C05_refused_iff : forall cs, row_action cs = None <-> panics cs.
Proof. exact row_action_panic. Qed.
Print Assumptions C05_refused_iff.

(** The parser clause ("verdict and reductions are those of the canonical LR(1) machine resolved by that rule")
    is definitional at model level: the generated parser is [Parse.parse] on the table whose cells are
    [row_action] of the candidates; on every run each emitted cell is re-derived with [row_action] from
    the dumped item sets and the compiled parser is compared with [Parse.parse] on those tables. *)
Example C05_example : row_action [Some (Reduce 5); None; Some (Shift 7); Some (Reduce 3); Some (Reduce 5)]
  = Some (Some (Shift 7), [Reduce 5; Shift 7; Reduce 3]).
Proof. vm_compute. reflexivity. Qed.

(** * For EVERY grammar: the model of gocc's generator in mode -a (LR/GenAuto.v, compared with gocc -a on every run:
    item sets, numbering, announced count, refusal, and the resolved tables as compiled). *)

(** the automaton it resolves is the canonical LR(1) collection, conflicts or not *)
Theorem C05_every_grammar_automaton_canonical : forall g nn ntm symbols la_order p_acts terr fuel an tr,
  (exists tb n, gen_run_auto g nn ntm symbols la_order p_acts terr fuel = AutoOk tb an tr n) \/
  gen_run_auto g nn ntm symbols la_order p_acts terr fuel = AutoRefused an tr ->
  auto_valid g ntm an tr = true.
Proof. exact gen_auto_automaton_valid. Qed.
Print Assumptions C05_every_grammar_automaton_canonical.

(** every cell of the table it writes: shift iff some item of the state shifts on the terminal, otherwise the least
    production among the reductions on that look-ahead, otherwise accept / no action *)
Theorem C05_every_grammar_cells_resolved : forall g nn ntm symbols la_order p_acts terr fuel tb an tr n,
  gen_run_auto g nn ntm symbols la_order p_acts terr fuel = AutoOk tb an tr n ->
  forall s a, s < length (a_items an) -> a < ntm ->
  exists w, action_at tb s a = Some w /\
    (forall t, w = Some (Shift t) <-> In (Some (Shift t)) (cands g an tr s a)) /\
    (forall p, w = Some (Reduce p) <->
       (forall t, ~ In (Some (Shift t)) (cands g an tr s a)) /\ In (Some (Reduce p)) (cands g an tr s a) /\
       forall q, In (Some (Reduce q)) (cands g an tr s a) -> p <= q) /\
    (w = Some Accept <-> In (Some Accept) (cands g an tr s a)) /\
    (w = None <-> forall x, ~ In (Some x) (cands g an tr s a)).
Proof. exact gen_auto_cell_rule. Qed.
Print Assumptions C05_every_grammar_cells_resolved.

(** entries (indeed whole tables) of a conflict-free grammar are unaffected by -a *)
Theorem C05_every_grammar_unaffected_without_conflict : forall g nn ntm symbols la_order p_acts terr fuel tb an tr,
  gen_run g nn ntm symbols la_order p_acts terr fuel = GenOk tb an tr ->
  gen_run_auto g nn ntm symbols la_order p_acts terr fuel = AutoOk tb an tr 0.
Proof. exact gen_auto_conservative. Qed.
Print Assumptions C05_every_grammar_unaffected_without_conflict.

(** the number announced with the tables is positive exactly when the grammar is not LR(1); generation is refused
    only when accepting competes with another action in the canonical collection *)
Theorem C05_every_grammar_announced : forall g nn ntm symbols la_order p_acts terr fuel tb an tr n,
  gen_run_auto g nn ntm symbols la_order p_acts terr fuel = AutoOk tb an tr n -> (0 < n <-> canonical_conflict g).
Proof. exact gen_auto_reports_iff_not_LR1. Qed.
Print Assumptions C05_every_grammar_announced.

Theorem C05_every_grammar_refused : forall g nn ntm symbols la_order p_acts terr fuel an tr,
  gen_run_auto g nn ntm symbols la_order p_acts terr fuel = AutoRefused an tr ->
  gocc_reports g ntm an tr = None /\ canonical_accept_conflict g.
Proof. exact gen_auto_refused. Qed.
Print Assumptions C05_every_grammar_refused.
