(** C09 — gocc always terminates; status zero means complete, compilable output.  PARTIAL.
    A Gallina definition is a termination proof; what is stated here is that the executable models of the
    generator's algorithms are total functions whose fuel, where used, never runs out.  The remainder of
    the property (templates, go/format, compiler, operating system) is explored by the check, not proved. *)
From Coq Require Import List ZArith Lia Bool.
From Gocc Require Import Base.Utf8 Base.Ranges Lex.Scan Lex.ScanProofs Front.Md Front.MdProofs LR.Parse LR.Complete LR.Exact LR.ErrorPos.
Import ListNotations.

(** generated lexer: every Scan call returns *)
Theorem C09_generated_scan_terminates : forall d l, scan decode_rune d l <> None.
Proof. intros d l. exact (scan_total decode_rune d decode_rune_progress l). Qed.
Print Assumptions C09_generated_scan_terminates.

(** generated parser: Parse returns on every input (validated canonical tables) *)
Theorem C09_generated_parse_terminates : forall g tb an sem,
  Validate.lr_valid g tb an = true -> x_checks g tb an = true -> (forall i p kids, sem i p kids <> None) ->
  forall pr0 X0, nth_error g 0 = Some pr0 -> rhs pr0 = [X0] ->
  forall input, Forall (fun t => ttype t <> EOFT) input ->
  exists fuel0, forall fuel, (fuel0 <= fuel)%nat -> r_out (parse tb sem input fuel) <> PFuel.
Proof. exact C02_terminates. Qed.
Print Assumptions C09_generated_parse_terminates.

(** markdown pre-processing: structural, length-preserving *)
Theorem C09_md_total : forall l, length (load_md l) = length l.
Proof. exact load_md_length. Qed.
Print Assumptions C09_md_total.
