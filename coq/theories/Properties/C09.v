(** C09 — gocc always terminates; status zero means complete, compilable output.  PARTIAL.
    A Gallina definition is a termination proof; what is stated here is that the executable models of the
    generator's algorithms are total functions whose fuel, where used, never runs out.  The remainder of
    the property (templates, go/format, compiler, operating system) is explored by the check, not proved. *)
From Coq Require Import List ZArith Lia Bool.
From Gocc Require Import Base.Utf8 Base.Ranges Lex.Scan Lex.ScanProofs Lex.Pattern Lex.LexGen Lex.LexGenProofs Front.Md Front.MdProofs
  Front.FScan Front.FScanProofs LR.Parse LR.Validate LR.Canonical LR.Complete LR.Exact LR.ErrorPos LR.Gen LR.GenProofs.
Import ListNotations.

(** generated lexer: every Scan call returns *)
Theorem C09_generated_scan_terminates : forall d l, Scan.scan decode_rune d l <> None.
Proof. intros d l. exact (ScanProofs.scan_total decode_rune d decode_rune_progress l). Qed.
Print Assumptions C09_generated_scan_terminates.

(** generated parser: Parse returns on every input (validated canonical tables) *)
Theorem C09_generated_parse_terminates : forall g tb an sem,
  Validate.lr_valid g tb an = true -> x_checks g tb an = true -> (forall i p kids, sem i p kids <> None) ->
  forall pr0 X0, nth_error g 0 = Some pr0 -> rhs pr0 = [X0] ->
  forall input, Forall (fun t => ttype t <> EOFT) input ->
  exists fuel0, forall fuel, (fuel0 <= fuel)%nat -> r_out (parse tb sem input fuel) <> PFuel.
Proof. exact C02_terminates. Qed.
Print Assumptions C09_generated_parse_terminates.

(** markdown pre-processing: structural, length-preserving *)
Theorem C09_md_total : forall l, length (load_md l) = length l.
Proof. exact load_md_length. Qed.
Print Assumptions C09_md_total.

(** gocc's own stages, at model level (each model is compared with the code on every run of C01/C02/C04/C13):
    the front-end scanner returns on every byte string (its fuel, the length of the source plus two, never runs out) ... *)
Theorem C09_front_end_scanner_total : forall src, exists ts e, fscan_opt src = Some (ts, e) /\ fscan_all src = (ts, e).
Proof. exact fscan_opt_total. Qed.
Print Assumptions C09_front_end_scanner_total.

(** ... the LR(1) generator (FIRST sets, closure, the collection of item sets, the tables) ends on every well-formed
    grammar with tables or with a conflict report: its three work lists never run out of the stated fuel ... *)
Theorem C09_lr_generator_total : forall g nn ntm symbols la_order p_acts terr fuel,
  gen_wf g nn ntm symbols la_order terr = true ->
  (2 ^ length (item_universe g la_order) < fuel)%nat ->
  (exists tb an tr, gen_run g nn ntm symbols la_order p_acts terr fuel = GenOk tb an tr) \/
  (exists an tr cells, gen_run g nn ntm symbols la_order p_acts terr fuel = GenConflict an tr cells).
Proof. exact gen_run_total. Qed.
Print Assumptions C09_lr_generator_total.

(** ... and the lexer generator (inlining of the regular definitions, e-closure, symbol classes, the collection of
    item sets) ends with a DFA on every well-formed lexical part (the e-closure is structural in the model: the
    visited set that repaired defect D5 is not needed) *)
Theorem C09_lexer_generator_total : forall g fuel, lex_wf g = true -> (lex_fuel g <= fuel)%nat ->
  exists rows acts, lexgen g fuel = Some (rows, acts).
Proof. exact lexgen_total. Qed.
Print Assumptions C09_lexer_generator_total.
