(** C16 — parsers and lexers can be reused: results do not depend on history. *)
From Coq Require Import List ZArith Arith.
From Gocc Require Import Base.Utf8 Lex.Scan Lex.ScanProofs LR.Parse.
Import ListNotations.

(** The generated Parse starts with Reset: whatever stack an earlier run left behind (ANY stack, not only
    reachable ones) is replaced by the initial one, and the look-ahead/position fields are overwritten by
    the first Scan.  In the model the parser object's state is its stack. *)
Definition parser_reset (old : stack) : stack := [(0%nat, ANil)].
Definition parse_on (tb : tables) sem input fuel (old : stack) : result :=
  run tb sem input fuel (parser_reset old) (tok_at input 0) 1 0 [].

Theorem C16_parse_independent_of_history : forall tb sem input fuel old,
  parse_on tb sem input fuel old = parse tb sem input fuel.
Proof. intros. reflexivity. Qed.
Print Assumptions C16_parse_independent_of_history.

(** Histories: whatever a Parse call leaves behind in the object — ANY function [leftover] of the previous
    stack and of the result, not only what the code leaves — the k-th call on the used object returns what a
    freshly created parser returns on the k-th input (result, error with its expected list, action log, number of
    scans: all fields of [result]). *)
Fixpoint history (tb : tables) sem (fuel : nat) (leftover : stack -> result -> stack)
                 (st : stack) (inputs : list (list token)) : list result :=
  match inputs with
  | [] => []
  | i :: rest => let res := parse_on tb sem i fuel st in res :: history tb sem fuel leftover (leftover st res) rest
  end.

Theorem C16_history_independent : forall tb sem fuel leftover inputs st,
  history tb sem fuel leftover st inputs = map (fun i => parse tb sem i fuel) inputs.
Proof.
  intros tb sem fuel leftover inputs. induction inputs as [|i rest IH]; intro st; [reflexivity|].
  cbn [history map]. rewrite IH. reflexivity.
Qed.
Print Assumptions C16_history_independent.

(** A lexer after Reset (fix: position, line and column) is a fresh lexer on the same source:
    every later prefix of its token stream is the fresh one, for every earlier state. *)
Theorem C16_lexer_reset_is_fresh : forall d src l k,
  scan_n decode_rune d k (reset src l) = scan_n decode_rune d k (init src).
Proof. intros. reflexivity. Qed.
Print Assumptions C16_lexer_reset_is_fresh.

(** These two statements are shallow by design: the model's Parse begins with Reset because the code
    does.  The assurance for C16 comes from the correspondence run over call histories (one object vs
    fresh objects), which is what ties [parser_reset]/[reset] to the generated code. *)
