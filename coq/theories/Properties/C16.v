(** C16 — parsers and lexers can be reused: results do not depend on history. *)
From Coq Require Import List ZArith Arith.
From Gocc Require Import Base.Utf8 Lex.Scan Lex.ScanProofs LR.Parse.
Import ListNotations.

(** The generated Parse starts with Reset: whatever stack an earlier run left behind (ANY stack, not only
    reachable ones) is replaced by the initial one, and the look-ahead/position fields are overwritten by
    the first Scan.  In the model the parser object's state is its stack. *)
Definition parser_reset (old : stack) : stack := [(0%nat, ANil)].
Definition parse_on (tb : tables) sem input fuel (old : stack) : result :=
  run tb sem input fuel (parser_reset old) (tok_at input 0) 1 0 [].

Theorem C16_parse_independent_of_history : forall tb sem input fuel old,
  parse_on tb sem input fuel old = parse tb sem input fuel.
Proof. intros. reflexivity. Qed.
Print Assumptions C16_parse_independent_of_history.

(** A lexer after Reset (fix: position, line and column) is a fresh lexer on the same source:
    every later prefix of its token stream is the fresh one, for every earlier state. *)
Theorem C16_lexer_reset_is_fresh : forall d src l k,
  scan_n decode_rune d k (reset src l) = scan_n decode_rune d k (init src).
Proof. intros. reflexivity. Qed.
Print Assumptions C16_lexer_reset_is_fresh.

(** These two statements are shallow by design: the model's Parse begins with Reset because the code
    does.  The assurance for C16 comes from the correspondence run over call histories (one object vs
    fresh objects), which is what ties [parser_reset]/[reset] to the generated code. *)
