(** C16 — parsers and lexers can be reused: results do not depend on history. *)
From Coq Require Import List ZArith Arith.
From Gocc Require Import Base.Utf8 Lex.Scan Lex.ScanProofs LR.Parse LR.ObjParse LR.ObjParseProofs.
Import ListNotations.

(** The generated Parse starts with Reset: whatever stack an earlier run left behind (ANY stack, not only
    reachable ones) is replaced by the initial one, and the look-ahead/position fields are overwritten by
    the first Scan.  In the model the parser object's state is its stack. *)
Definition parser_reset (old : stack) : stack := [(0%nat, ANil)].
Definition parse_on (tb : tables) sem input fuel (old : stack) : result :=
  run tb sem input fuel (parser_reset old) (tok_at input 0) 1 0 [].

Theorem C16_parse_independent_of_history : forall tb sem input fuel old,
  parse_on tb sem input fuel old = parse tb sem input fuel.
Proof. intros. reflexivity. Qed.
Print Assumptions C16_parse_independent_of_history.

(** Histories: whatever a Parse call leaves behind in the object — ANY function [leftover] of the previous
    stack and of the result, not only what the code leaves — the k-th call on the used object returns what a
    freshly created parser returns on the k-th input (result, error with its expected list, action log, number of
    scans: all fields of [result]). *)
Fixpoint history (tb : tables) sem (fuel : nat) (leftover : stack -> result -> stack)
                 (st : stack) (inputs : list (list token)) : list result :=
  match inputs with
  | [] => []
  | i :: rest => let res := parse_on tb sem i fuel st in res :: history tb sem fuel leftover (leftover st res) rest
  end.

Theorem C16_history_independent : forall tb sem fuel leftover inputs st,
  history tb sem fuel leftover st inputs = map (fun i => parse tb sem i fuel) inputs.
Proof.
  intros tb sem fuel leftover inputs. induction inputs as [|i rest IH]; intro st; [reflexivity|].
  cbn [history map]. rewrite IH. reflexivity.
Qed.
Print Assumptions C16_history_independent.

(** A lexer after Reset (fix: position, line and column) is a fresh lexer on the same source:
    every later prefix of its token stream is the fresh one, for every earlier state. *)
Theorem C16_lexer_reset_is_fresh : forall d src l k,
  scan_n decode_rune d k (reset src l) = scan_n decode_rune d k (init src).
Proof. intros. reflexivity. Qed.
Print Assumptions C16_lexer_reset_is_fresh.

(** The statements above are shallow by design: the list model's Parse begins with a fresh list because the code begins with
    Reset.  The statements below are about the parser OBJECT as the generated code represents it (LR/ObjParse.v): two Go
    slices whose backing arrays survive Reset with everything earlier runs wrote into them, a capacity beyond which append
    re-allocates (with ANY content in the new cells), a stale look-ahead field; top/peek/popN index those arrays and panic
    beyond the length.  [pobj] is a plain record: the theorems quantify over EVERY value of it, reachable or not. *)

(** Parse on any object returns exactly what the list model's Parse returns (result, error with its expected list, action
    log, number of scans), and leaves an object satisfying the representation invariant *)
Theorem C16_object_parse_is_fresh_parse : forall grow_s grow_a tb sem input fuel o,
  fst (k_parse grow_s grow_a tb sem input fuel o) = parse tb sem input fuel
  /\ o_inv (snd (k_parse grow_s grow_a tb sem input fuel o)).
Proof. exact k_parse_is_parse. Qed.
Print Assumptions C16_object_parse_is_fresh_parse.

(** histories: ONE object handed from call to call (each call with its own actions and token stream), starting from any
    object: the k-th result is the result of a fresh parser on the k-th input *)
Theorem C16_object_history_independent : forall grow_s grow_a tb fuel calls o,
  k_history grow_s grow_a tb fuel o calls = map (fun c => parse tb (fst c) (snd c) fuel) calls.
Proof. exact k_history_independent. Qed.
Print Assumptions C16_object_history_independent.

(** what lies beyond the lengths of the slices, and how append grows them, is unobservable *)
Theorem C16_object_garbage_irrelevant : forall grow_s grow_a grow_s' grow_a' tb sem input fuel o o' pos calls log,
  o_inv o -> o_inv o' -> o_abs o = o_abs o' -> o_next o = o_next o' ->
  fst (k_run grow_s grow_a tb sem input fuel o pos calls log) = fst (k_run grow_s' grow_a' tb sem input fuel o' pos calls log).
Proof. exact k_run_garbage_irrelevant. Qed.
Print Assumptions C16_object_garbage_irrelevant.

(** Non-vacuity and teeth: on hand-written tables for  S : a S | b  the history [101 a's then b; a b] run on the object
    model gives the fresh results, while the variant whose reset re-allocates the grown attribute array with LENGTH 100
    (the seeded change C16b) hands cells to the actions that the run never wrote. *)
Example C16_object_model_distinguishes_a_bad_reset :
  nth_error (k_history_bad go_grow_s go_grow_a tb_ex 300 (k_new go_grow_s go_grow_a) hist_ex) 1 <>
  Some (parse tb_ex (sem_node None) (toks_from 0 [2; 3]%nat) 300)
  /\ k_history go_grow_s go_grow_a tb_ex 300 (k_new go_grow_s go_grow_a) hist_ex =
     map (fun c => parse tb_ex (fst c) (snd c) 300) hist_ex.
Proof. exact bad_history_differs. Qed.

(** The object model is tied to the generated code on every run: the extracted [k_parse], threaded through each history,
    is compared with ONE Go parser object fed the same history (deep inputs that make the arrays grow included).  What
    it does not exhibit: the slice popN returns aliases the backing array (an action that keeps its X argument would see
    later pushes); attribute values are immutable in the model. *)
