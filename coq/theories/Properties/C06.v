(** C06 — syntax errors name the first offending token and the exact expected set. *)
From Coq Require Import List Arith ZArith Lia Bool.
From Gocc Require Import LR.Parse LR.Validate LR.Trees LR.Complete LR.Derive LR.Steps LR.Exact LR.ErrorPos.
Import ListNotations.

(** Inputs are token TYPE sequences [tys], delivered as tokens whose identity is their index ([canon]).
    [sentence_t g X0 u] : u is a sentence; [viable_t g X0 u] : u is a prefix of a sentence;
    [next_ok g X0 u a]  : u followed by terminal a (a = end of input: u itself is a sentence) is still viable.

    For EVERY grammar, tables and annotation passing [lr_valid] and the canonicity/productivity checks
    [x_checks] (exact nullable/FIRST, every closure item justified by an earlier item, every reachable
    nonterminal productive, no recovery) — evaluated by the Coq kernel on gocc's output for each grammar
    of the run — when Parse fails with a syntax error carrying token number [i]:
    - it is the very token the scanner delivered at index [i];
    - [firstn i tys] is a prefix of a sentence and extending it by token [i] is not: [i] is the FIRST
      offending token;
    - the expected list is EXACTLY the set of terminals (or end of input) that keep the prefix viable,
      in strictly increasing terminal order;
    - every configuration whose look-ahead is token [i] is stuck: no shift, no reduction and hence no
      action expression ran with that token as look-ahead, and the reported action log is the log of the
      configuration in which token [i] became the look-ahead. *)
Theorem C06_first_offending_token_and_exact_expected_set :
  forall g tb an sem,
    lr_valid g tb an = true -> x_checks g tb an = true ->
    (forall i p kids, sem i p kids <> None) ->
    forall pr0 X0, nth_error g 0 = Some pr0 -> rhs pr0 = [X0] ->
    forall tys, Forall (fun ty => ty <> EOFT) tys ->
    forall fuel e,
      r_out (parse tb sem (canon tys) fuel) = PErr e -> e_action e = None ->
      let i := tid (e_tok e) in
      let u := firstn i tys in
      i <= length tys /\
      e_tok e = tok_at (canon tys) i /\
      viable_t g X0 u /\
      ~ next_ok g X0 u (ttype (e_tok e)) /\
      (forall a, In a (e_expected e) <-> next_ok g X0 u a) /\
      increasing (e_expected e) /\
      (forall m c, steps tb sem (canon tys) m cfg0 = Some c -> c_i c = i ->
                   step tb sem (canon tys) c = None) /\
      (exists n c, steps tb sem (canon tys) n cfg0 = Some c /\ c_i c = i /\
                   r_log (parse tb sem (canon tys) fuel) = rev (c_log c)).
Proof. exact C06_exact. Qed.
Print Assumptions C06_first_offending_token_and_exact_expected_set.

(** The half that needs no canonicity: an error is never reported while the tokens consumed plus the
    look-ahead are still a prefix of a sentence (holds for every table passing [valid_forward]). *)
Theorem C06_error_never_early :
  forall g tb an sem,
    valid_forward g tb an = true -> no_error_shift tb = true ->
    (forall i p kids, sem i p kids <> None) ->
    forall pr0 X0, nth_error g 0 = Some pr0 -> rhs pr0 = [X0] ->
    forall tys fuel e,
      r_out (parse tb sem (canon tys) fuel) = PErr e -> e_action e = None ->
      let i := tid (e_tok e) in
      e_tok e = tok_at (canon tys) i /\
      ~ sentence_t g X0 tys /\
      (i < length tys -> ~ viable_t g X0 (firstn i tys ++ [ttype (e_tok e)])).
Proof. exact C06_never_early. Qed.
Print Assumptions C06_error_never_early.

(** Parse terminates on EVERY token sequence (also the second sentence of C02). *)
Theorem C06_C02_parse_terminates :
  forall g tb an sem,
    lr_valid g tb an = true -> x_checks g tb an = true ->
    (forall i p kids, sem i p kids <> None) ->
    forall pr0 X0, nth_error g 0 = Some pr0 -> rhs pr0 = [X0] ->
    forall input, Forall (fun t => ttype t <> EOFT) input ->
    exists fuel0, forall fuel, fuel0 <= fuel -> r_out (parse tb sem input fuel) <> PFuel.
Proof. exact C02_terminates. Qed.
Print Assumptions C06_C02_parse_terminates.
