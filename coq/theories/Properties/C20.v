(** C20 — literal conversion helpers agree with Go's own literal semantics. *)
From Coq Require Import List ZArith Lia Bool.
From Gocc Require Import Base.Utf8 Front.LitConv Front.GoLit Front.LitConvProofs.
Import ListNotations.
Open Scope Z_scope.

(** For EVERY valid Go rune literal [l] (as specified in GoLit.v from the Go language specification:
    'c' for a UTF-8 encoded scalar value other than ' \ newline; \ooo <= 255; \xhh; \uhhhh and \Uhhhhhhhh
    denoting a valid scalar value; the nine named escapes) the decoder shared by gocc (util.LitToRune)
    and the generated code (util.RuneValue — the two Go copies are compared textually on every run)
    returns the code point Go assigns to it. *)
Theorem C20_decoder_agrees_with_go : forall l c, golit_value l = Some c -> lit_to_rune l = Some c.
Proof. exact lit_to_rune_agrees. Qed.
Print Assumptions C20_decoder_agrees_with_go.

(** Every spelling of a code point (raw UTF-8, \x, octal, \u, \U, named escape) is a valid literal
    denoting that code point, and is decoded to it (also the first half of C13). *)
Theorem C20_every_spelling_decodes : forall k c l, spell k c = Some l ->
  golit_value l = Some c /\ lit_to_rune l = Some c.
Proof. intros k c l H. exact (conj (spell_denotes k c l H) (spell_decodes k c l H)). Qed.
Print Assumptions C20_every_spelling_decodes.

(** non-vacuity: every Unicode scalar value has a literal *)
Theorem C20_every_scalar_has_literal : forall c, is_scalar c = true ->
  exists l, golit_value l = Some c /\ lit_to_rune l = Some c.
Proof. exact every_scalar_has_literal. Qed.
Print Assumptions C20_every_scalar_has_literal.

(** the uint32 arithmetic of the Go loop never wraps for the digit counts gocc uses *)
Theorem C20_no_uint32_wrap : forall lit len i base off, (i <= 8)%nat -> 0 <= base <= 16 ->
  esc_loop lit len i base 0 off = esc_loop_nw lit len i base 0 off.
Proof. exact esc_loop_no_wrap. Qed.
Print Assumptions C20_no_uint32_wrap.

(** IntValue / UintValue are single calls of strconv.ParseInt / ParseUint: checked on the source text
    and by correspondence on every run; there is nothing to prove about them. *)
