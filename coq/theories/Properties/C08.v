(** C08 — token positions are exact and lexemes tile the input.
    Only property theorems (closed by [exact]) and non-vacuity examples. *)
From Coq Require Import List ZArith Lia.
From Gocc Require Import Base.Utf8 Lex.Scan Lex.ScanProofs.
Import ListNotations.
Open Scope Z_scope.

(** For every DFA [d], every byte string [src] and every number [k] of Scan calls on a fresh
    lexer (every prefix of the token stream), with Go's UTF-8 decoding:
    - the calls return (no fuel exhaustion);
    - every token [t] — INVALID and end-of-input included — is positioned exactly
      ([TokPos]): there is a prefix [pre] of [src], ending at a character boundary and
      holding the characters [rs], with  src = pre ++ lit t ++ post,  offset = |pre|,
      line = 1 + number of newlines in [rs],  column = 1 + advance since the last CR/LF
      in [rs] (4 per tab, 1 per other character);
    - the lexemes tile the input: src = skipped1 ++ lit1 ++ skipped2 ++ lit2 ++ ... ++ rest,
      each literal starting exactly where the previous lexeme plus the ignored text ended
      ([tiles]), [rest] being the part not yet read after [k] calls. *)
Theorem C08_positions_and_tiling : forall (d : dfa) (src : list Z) (k : nat),
  exists ts l',
    scan_n decode_rune d k (init src) = Some (ts, l') /\
    Forall (TokPos decode_rune src) ts /\
    src = pieces ts ++ rest l' /\
    tiles 0 ts.
Proof.
  intros d src k.
  destruct (scan_n decode_rune d k (init src)) as [[ts l']|] eqn:E;
    [|exfalso; exact (scan_n_total decode_rune d decode_rune_progress k (init src) E)].
  exists ts, l'.
  destruct (scan_n_spec decode_rune d decode_rune_progress src k (init src) ts l'
              (Good_init decode_rune src) E) as (_ & HF & HR & HT & _).
  exact (conj eq_refl (conj HF (conj HR HT))).
Qed.
Print Assumptions C08_positions_and_tiling.

(** The same for every decoder that makes progress (nothing else about UTF-8 is used), from
    every consistent lexer state, i.e. for every history of earlier calls. *)
Theorem C08_any_decoder_any_state : forall decode d,
  (forall bs r sz, bs <> [] -> decode bs = (r, sz) -> (1 <= sz <= length bs)%nat) ->
  forall src k l ts l',
  Good decode src l -> scan_n decode d k l = Some (ts, l') ->
  Good decode src l' /\ Forall (TokPos decode src) ts /\ rest l = pieces ts ++ rest l' /\ tiles (off l) ts /\
  off l' = off l + Z.of_nat (length (pieces ts)).
Proof. exact scan_n_spec. Qed.
Print Assumptions C08_any_decoder_any_state.

(** The end-of-input token: returned exactly when the input is exhausted, with empty literal,
    at offset |src| (so the lexemes before it cover the input to the last byte) — provided no
    DFA state accepts with the reserved type 1 (re-checked on the emitted tables on every run). *)
Theorem C08_eof_token : forall d, (forall s, accept d s <> EOF) ->
  forall l t l', scan decode_rune d l = Some (t, l') -> ty t = EOF -> rest l' = [] /\ lit t = [].
Proof. intros d H l t l'. exact (scan_eof_only_at_end decode_rune d l t l' H). Qed.
Print Assumptions C08_eof_token.

Theorem C08_eof_sticky : forall d l, rest l = [] ->
  scan decode_rune d l =
  Some ({| ty := EOF; lit := []; toff := off l; tline := line l; tcol := col l; skipped := [] |}, l).
Proof. exact (scan_eof_sticky decode_rune). Qed.
Print Assumptions C08_eof_sticky.

(** The implementation's incremental line/column bookkeeping equals the definitional functions. *)
Theorem C08_line_col_definitional : forall rs r,
  line_of (rs ++ [r]) = adv_line r (line_of rs) /\ col_of (rs ++ [r]) = adv_col r (col_of rs).
Proof. intros rs r. exact (conj (line_of_snoc rs r) (col_of_snoc rs r)). Qed.
Print Assumptions C08_line_col_definitional.

(** Non-vacuity: tokens a:'x' (2), !ig:'x' 'y' (ignored), id:'a'-'w'{'a'-'w'} (3); the input
    "xy?\n\txab" exercises ignore, INVALID (owning the killing rune), newline, tab. *)
Definition ex_dfa : dfa := table_dfa
  [ {| cases := [(97, 119, 2); (120, 120, 1)]; dflt := -1 |};
    {| cases := [(121, 121, 3)]; dflt := -1 |};
    {| cases := [(97, 119, 2)]; dflt := -1 |};
    {| cases := []; dflt := -1 |} ]
  [0; 2; 3; -1].
Example C08_example :
  option_map (fun p => map (fun t => (ty t, lit t, toff t, tline t, tcol t)) (fst p))
             (scan_n decode_rune ex_dfa 7 (init [120; 121; 63; 10; 9; 120; 97; 98]))
  = Some [(0, [63], 2, 1, 3); (0, [10], 3, 1, 4); (0, [9], 4, 2, 1); (2, [120], 5, 2, 5);
          (3, [97; 98], 6, 2, 6); (1, [], 8, 2, 8); (1, [], 8, 2, 8)].
Proof. vm_compute. reflexivity. Qed.
