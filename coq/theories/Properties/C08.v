(** C08 — token positions are exact and lexemes tile the input. (theorems follow) *)
From Gocc Require Import Lex.Scan.
