(** C18 — rune classes of a lexer state form an exact disjoint partition.
    This file holds nothing but the property theorems (each closed by [exact])
    and their non-vacuity examples. *)
From Coq Require Import List ZArith Lia.
From Gocc Require Import Base.Ranges Base.RangesProofs.
Import ListNotations.
Open Scope Z_scope.

(** For every finite sequence [ops] of closed rune intervals, added in that order
    (every order is some [ops]), the derived classes are sorted, pairwise disjoint and
    non-empty. *)
Theorem C18_sorted_disjoint : forall ops i j ri rj,
  nth_error (classes ops) i = Some ri -> nth_error (classes ops) j = Some rj -> (i < j)%nat ->
  snd ri < fst rj.
Proof. intros ops. exact (Inv_sorted_disjoint (classes ops) (classes_Inv ops)). Qed.
Print Assumptions C18_sorted_disjoint.

Theorem C18_nonempty : forall ops r, In r (classes ops) -> fst r <= snd r.
Proof. intros ops r. exact (Inv_nonempty (classes ops) r (classes_Inv ops)). Qed.
Print Assumptions C18_nonempty.

(** Their union is exactly the union of the added ranges. *)
Theorem C18_union_exact : forall ops x,
  (exists c, In c (classes ops) /\ fst c <= x <= snd c) <->
  (exists op, In op ops /\ fst op <= x <= snd op).
Proof. exact classes_mem. Qed.
Print Assumptions C18_union_exact.

(** Every class lies wholly inside or wholly outside every added range (an item matches
    a whole class or none of it) ... *)
Theorem C18_class_in_or_out : forall ops c op, In c (classes ops) -> In op ops ->
  (forall x, fst c <= x <= snd c -> fst op <= x <= snd op) \/
  (forall x, fst c <= x <= snd c -> ~ fst op <= x <= snd op).
Proof. exact classes_refine. Qed.
Print Assumptions C18_class_in_or_out.

(** ... hence every added range is exactly a union of classes ... *)
Theorem C18_range_is_union_of_classes : forall ops op x, In op ops -> fst op <= x <= snd op ->
  exists c, In c (classes ops) /\ fst c <= x <= snd c /\
            (forall y, fst c <= y <= snd c -> fst op <= y <= snd op).
Proof. exact classes_cover_range. Qed.
Print Assumptions C18_range_is_union_of_classes.

(** ... and each rune selects at most one class (one transition). *)
Theorem C18_rune_selects_one_class : forall ops x c1 c2,
  In c1 (classes ops) -> In c2 (classes ops) ->
  fst c1 <= x <= snd c1 -> fst c2 <= x <= snd c2 -> c1 = c2.
Proof. intros ops x c1 c2. exact (Inv_unique (classes ops) x c1 c2 (classes_Inv ops)). Qed.
Print Assumptions C18_rune_selects_one_class.

(** Non-vacuity: nested, adjacent, overlapping, duplicate and empty intervals. *)
Example C18_example :
  classes [(5, 10); (1, 7); (11, 11); (5, 10); (0, 20); (9, 3); (12, 12)]
  = [(0, 0); (1, 4); (5, 7); (8, 10); (11, 11); (12, 12); (13, 20)].
Proof. vm_compute. reflexivity. Qed.
