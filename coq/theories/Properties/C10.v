(** C10 — token numbering is one bijection shared by token, lexer and parser packages. *)
From Coq Require Import List ZArith Bool Arith Permutation.
From Gocc Require Import Front.TokMap Front.TokMapProofs Front.Perm Front.PermProofs.
Import ListNotations.

(** Names are byte/rune strings ([list Z]).  [terminals_z prods lex] is the list gocc numbers: INVALID, the
    end-of-input symbol, then every symbol of the syntax part that is not a production name in order of
    first appearance, then the remaining token ids of the lexical part (sorted).  A terminal's number is
    its position in that list; the generated lexer's Accept values, the parser's table columns and the
    token package's typeMap/idMap are all produced from this one list (checked on every run). *)

(** distinct numbers, consecutive from 0; name->number and number->name are mutually inverse over all
    terminals; unknown names map to 0 (INVALID); numbers beyond the list have no name *)
Theorem C10_bijection : forall prods lex,
  let tm := terminals_z prods lex in
  NoDup tm /\
  (forall i, i < length tm -> exists s, id_of_z tm i = Some s /\ In s tm /\ type_of_z tm s = i) /\
  (forall s, In s tm -> type_of_z tm s < length tm /\ id_of_z tm (type_of_z tm s) = Some s) /\
  (forall s, ~ In s tm -> type_of_z tm s = 0) /\
  (forall i, length tm <= i -> id_of_z tm i = None).
Proof.
  intros prods lex tm. split.
  - exact (terminals_NoDup (list Z) zstr_eqb INVALID_z EOF_z EMPTY_z zstr_eqb_eq prods lex).
  - exact (tokmap_bijection (list Z) zstr_eqb INVALID_z EOF_z EMPTY_z zstr_eqb_eq prods lex).
Qed.
Print Assumptions C10_bijection.

(** INVALID is 0 and end-of-input is 1 — exactly when no production is named INVALID or ␚ (gocc now
    rejects such grammars: fix commit) *)
Theorem C10_invalid_0_eof_1 : forall prods lex,
  ~ In INVALID_z (map fst prods) -> ~ In EOF_z (map fst prods) ->
  type_of_z (terminals_z prods lex) INVALID_z = 0 /\ type_of_z (terminals_z prods lex) EOF_z = 1 /\
  id_of_z (terminals_z prods lex) 0 = Some INVALID_z /\ id_of_z (terminals_z prods lex) 1 = Some EOF_z.
Proof.
  intros prods lex H1 H2.
  apply (type_of_INVALID_EOF (list Z) zstr_eqb INVALID_z EOF_z EMPTY_z zstr_eqb_eq prods lex); [discriminate|discriminate|discriminate|exact H1|exact H2].
Qed.
Print Assumptions C10_invalid_0_eof_1.

(** every other terminal of the grammar (named tokens, string literals) is numbered, nothing else is: in particular
    not the keyword "empty" of an empty alternative, which is a body symbol for gocc (repair of defect D18: it used to
    occupy a number, so that Type("empty") was not INVALID and the terminals' numbers had a gap) *)
Theorem C10_exactly_the_terminals : forall prods lex s,
  In s (terminals_z prods lex) <->
  ~ In s (map fst prods) /\ s <> EMPTY_z /\
  (s = INVALID_z \/ s = EOF_z \/ In s (flat_map snd prods) \/ In s lex).
Proof. exact (terminals_In (list Z) zstr_eqb INVALID_z EOF_z EMPTY_z zstr_eqb_eq). Qed.

Corollary C10_empty_keyword_is_unknown : forall prods lex,
  type_of_z (terminals_z prods lex) EMPTY_z = 0.
Proof.
  intros prods lex.
  destruct (C10_bijection prods lex) as (_ & _ & _ & H & _). apply H.
  intro HI. apply C10_exactly_the_terminals in HI. destruct HI as (_ & HE & _). now apply HE.
Qed.
Print Assumptions C10_empty_keyword_is_unknown.
Print Assumptions C10_exactly_the_terminals.

Example C10_example :
  terminals_z [([83], [[97]; [43]; [83]]); ([83], [[98]])]%Z [[99]; [97]]%Z
  = [INVALID_z; EOF_z; [97]; [43]; [98]; [99]]%Z.
Proof. vm_compute. reflexivity. Qed.
