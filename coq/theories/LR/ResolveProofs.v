(** Proofs about [Resolve.row_action] (property C05: automatic conflict resolution prefers
    shift, then the earliest production).

    Candidates are [option act]; [None] is action.ERROR and is ignored by the fold.
    Write D for the set of distinct non-ERROR candidates of a row.

    Results (all for EVERY candidate list, hence every order of the items):
      - [row_action_panic]  : the Go code panics  <->  (Accept in D and D has another element)
                              or D contains two Shifts with different targets.  This does
                              not depend on the order of the candidates.
      - [row_action_winner] : otherwise the winner is  Shift s if Shift s in D (s is then
                              unique); else Reduce p with p the minimum production among the
                              Reduce candidates; else Accept if Accept in D; else ERROR.
      - [row_action_single] / [row_action_none] : with at most one distinct non-ERROR
                              candidate the winner is that candidate and there is no conflict.
      - [row_action_conflicts] : the recorded conflict set is EXACTLY D when |D| >= 2 and
                              empty otherwise -- even though a candidate equal to the current
                              winner is not recorded at that step: the winner is recorded as
                              soon as a different candidate shows up, and it is always an
                              element of D.  In the list model it is even D in first-occurrence
                              order ([dedup]).
      - [row_action_conflicts_nonempty] : conflict set non-empty <-> two distinct candidates.
      - [row_action_perm]   : order independence (same panic status, same winner, conflict
                              sets equal up to permutation). *)
From Coq Require Import List Bool Arith Lia Permutation.
From Gocc Require Import LR.Parse LR.Resolve.
Import ListNotations.

(* ------------------------------------------------------------------------- *)
(** * Equality on actions, the non-ERROR candidates *)

Lemma act_eqb_spec : forall a b, reflect (a = b) (act_eqb a b).
Proof.
  intros [s|p|] [t|q|]; simpl; try (constructor; congruence).
  - destruct (Nat.eqb_spec s t); constructor; congruence.
  - destruct (Nat.eqb_spec p q); constructor; congruence.
Qed.

Lemma act_eq_dec : forall a b : act, {a = b} + {a <> b}.
Proof. decide equality; apply Nat.eq_dec. Qed.

Fixpoint somes (cs : list (option act)) : list act :=
  match cs with
  | [] => []
  | Some a :: r => a :: somes r
  | None :: r => somes r
  end.

Lemma in_somes : forall cs a, In a (somes cs) <-> In (Some a) cs.
Proof.
  induction cs as [|[b|] cs IH]; intros a; simpl.
  - tauto.
  - rewrite IH. split; intros [H|H]; auto; left; congruence.
  - rewrite IH. split; [auto|]. intros [H|H]; [discriminate|exact H].
Qed.

Lemma somes_app : forall a b, somes (a ++ b) = somes a ++ somes b.
Proof.
  induction a as [|[x|] a IH]; intros b; simpl; [reflexivity| |]; rewrite IH; reflexivity.
Qed.

Lemma somes_perm : forall cs cs', Permutation cs cs' -> Permutation (somes cs) (somes cs').
Proof.
  induction 1 as [|x l l' H IH|x y l|l l' l'' H1 IH1 H2 IH2].
  - constructor.
  - destruct x; simpl; [constructor|]; exact IH.
  - destruct x, y; simpl; try apply Permutation_refl. apply perm_swap.
  - eapply perm_trans; eassumption.
Qed.

(* ------------------------------------------------------------------------- *)
(** * The conflict set as a list without duplicates *)

Lemma existsb_act : forall a l, existsb (act_eqb a) l = true <-> In a l.
Proof.
  intros a l. rewrite existsb_exists. split.
  - intros [y [Hy E]]. destruct (act_eqb_spec a y); [subst; exact Hy|discriminate].
  - intros H. exists a. split; [exact H|]. destruct (act_eqb_spec a a); congruence.
Qed.

Lemma add_set_in : forall a l, In a l -> add_set a l = l.
Proof. intros a l H. unfold add_set. apply existsb_act in H. rewrite H. reflexivity. Qed.

Lemma add_set_notin : forall a l, ~ In a l -> add_set a l = l ++ [a].
Proof.
  intros a l H. unfold add_set. destruct (existsb (act_eqb a) l) eqn:E; [|reflexivity].
  apply existsb_act in E. contradiction.
Qed.

Lemma in_snoc : forall (A : Type) (l : list A) a x, In x (l ++ [a]) <-> In x l \/ x = a.
Proof.
  intros. rewrite in_app_iff. simpl. split; intros [H|H]; auto.
  - destruct H as [H|[]]. auto.
Qed.

Lemma in_add_set : forall a l x, In x (add_set a l) <-> In x l \/ x = a.
Proof.
  intros a l x. destruct (in_dec act_eq_dec a l) as [H|H].
  - rewrite add_set_in by exact H. split; [auto|]. intros [H1|H1]; [exact H1|subst; exact H].
  - rewrite add_set_notin by exact H. apply in_snoc.
Qed.

Lemma NoDup_add_set : forall a l, NoDup l -> NoDup (add_set a l).
Proof.
  intros a l H. destruct (in_dec act_eq_dec a l) as [Hi|Hi].
  - rewrite add_set_in by exact Hi. exact H.
  - rewrite add_set_notin by exact Hi.
    apply (Permutation_NoDup (Permutation_cons_append l a)). constructor; assumption.
Qed.

Lemma length_add_set : forall a l, length l <= length (add_set a l).
Proof.
  intros a l. destruct (in_dec act_eq_dec a l) as [Hi|Hi].
  - rewrite add_set_in by exact Hi. lia.
  - rewrite add_set_notin by exact Hi. rewrite app_length. lia.
Qed.

(** distinct elements of [l], in order of first occurrence *)
Definition dedup (l : list act) : list act := fold_left (fun acc a => add_set a acc) l [].

Lemma dedup_snoc : forall l a, dedup (l ++ [a]) = add_set a (dedup l).
Proof. intros. unfold dedup. rewrite fold_left_app. reflexivity. Qed.

Lemma in_dedup : forall l x, In x (dedup l) <-> In x l.
Proof.
  induction l as [|a l IH] using rev_ind; intros x.
  - simpl. tauto.
  - rewrite dedup_snoc, in_add_set, in_snoc, IH. tauto.
Qed.

Lemma NoDup_dedup : forall l, NoDup (dedup l).
Proof.
  induction l as [|a l IH] using rev_ind.
  - constructor.
  - rewrite dedup_snoc. apply NoDup_add_set. exact IH.
Qed.

(** what ItemSet.Action returns as conflicts: nothing, or all distinct candidates *)
Definition conf_spec (l : list act) : list act :=
  if length (dedup l) <=? 1 then [] else dedup l.

Lemma conf_same : forall l a, In a l -> conf_spec (l ++ [a]) = conf_spec l.
Proof.
  intros l a H. unfold conf_spec. rewrite dedup_snoc.
  rewrite add_set_in by (apply in_dedup; exact H). reflexivity.
Qed.

Lemma conf_diff : forall l a b,
  In b l -> a <> b -> add_set a (add_set b (conf_spec l)) = conf_spec (l ++ [a]).
Proof.
  intros l a b Hb Hab. unfold conf_spec. rewrite dedup_snoc.
  apply in_dedup in Hb. remember (dedup l) as d eqn:Ed. clear Ed l.
  destruct (length d <=? 1) eqn:E.
  - apply Nat.leb_le in E.
    assert (d = [b]) as ->.
    { destruct d as [|x [|y d]]; simpl in E, Hb.
      - contradiction.
      - destruct Hb as [->|[]]. reflexivity.
      - lia. }
    assert (H1 : add_set b [] = [b]) by reflexivity.
    assert (H2 : add_set a [b] = [b; a]).
    { apply add_set_notin. intros [H|[]]. congruence. }
    rewrite H1, H2. reflexivity.
  - apply Nat.leb_gt in E.
    rewrite (add_set_in b d) by exact Hb.
    pose proof (length_add_set a d) as Hl.
    destruct (length (add_set a d) <=? 1) eqn:E'; [|reflexivity].
    apply Nat.leb_le in E'. lia.
Qed.

(* ------------------------------------------------------------------------- *)
(** * Declarative description of panic and of the winner, on the non-ERROR candidates *)

(** the Go code panics *)
Definition P (l : list act) : Prop :=
  (In Accept l /\ exists a, a <> Accept /\ In a l)
  \/ (exists s t, s <> t /\ In (Shift s) l /\ In (Shift t) l).

(** [w] is the resolved action *)
Definition W (l : list act) (w : option act) : Prop :=
  match w with
  | None => forall a, ~ In a l
  | Some (Shift s) => In (Shift s) l
  | Some (Reduce p) =>
      In (Reduce p) l /\ (forall s, ~ In (Shift s) l) /\ (forall q, In (Reduce q) l -> p <= q)
  | Some Accept => In Accept l
  end.

Lemma P_ext : forall l l', (forall x, In x l <-> In x l') -> P l -> P l'.
Proof.
  intros l l' H [[H1 [a [H2 H3]]]|[s [t [H1 [H2 H3]]]]].
  - left. split; [apply H; exact H1|]. exists a. split; [exact H2|apply H; exact H3].
  - right. exists s, t. split; [exact H1|]. split; apply H; assumption.
Qed.

Lemma W_ext : forall l l' w, (forall x, In x l <-> In x l') -> W l w -> W l' w.
Proof.
  intros l l' [[s|p|]|] H HW; simpl in *.
  - apply H. exact HW.
  - destruct HW as [H1 [H2 H3]]. split; [apply H; exact H1|]. split.
    + intros s Hs. apply (H2 s). apply H. exact Hs.
    + intros q Hq. apply H3. apply H. exact Hq.
  - apply H. exact HW.
  - intros a Ha. apply (HW a). apply H. exact Ha.
Qed.

Lemma W_in : forall l a, W l (Some a) -> In a l.
Proof. intros l [s|p|] H; simpl in H; [exact H|destruct H as [H _]; exact H|exact H]. Qed.

Lemma accept_other_P : forall l x, In Accept l -> In x l -> x <> Accept -> P l.
Proof. intros l x H1 H2 H3. left. split; [exact H1|]. exists x. split; assumption. Qed.

(** without panic the winner is uniquely determined by the candidate SET *)
Lemma W_unique : forall l w w', ~ P l -> W l w -> W l w' -> w = w'.
Proof.
  intros l w w' HP H H'.
  destruct w as [a|], w' as [a'|]; [| | |reflexivity].
  - apply W_in in H as Hi. apply W_in in H' as Hi'.
    destruct a as [s|p|], a' as [s'|p'|]; simpl in H, H'; try reflexivity.
    + destruct (Nat.eq_dec s s') as [->|Hne]; [reflexivity|].
      exfalso. apply HP. right. exists s, s'. auto.
    + destruct H' as [_ [H' _]]. exfalso. apply (H' s). exact H.
    + exfalso. apply HP. apply (accept_other_P l (Shift s)); [assumption|assumption|discriminate].
    + destruct H as [_ [H _]]. exfalso. apply (H s'). exact H'.
    + destruct H as [H1 [_ H3]], H' as [H1' [_ H3']].
      pose proof (H3 _ H1'). pose proof (H3' _ H1).
      assert (p = p') by lia. congruence.
    + exfalso. apply HP. apply (accept_other_P l (Reduce p)); [assumption|assumption|discriminate].
    + exfalso. apply HP. apply (accept_other_P l (Shift s')); [assumption|assumption|discriminate].
    + exfalso. apply HP. apply (accept_other_P l (Reduce p')); [assumption|assumption|discriminate].
  - exfalso. apply W_in in H. simpl in H'. apply (H' a). exact H.
  - exfalso. apply W_in in H'. simpl in H. apply (H a'). exact H'.
Qed.

Lemma P_snoc : forall l a, P l -> P (l ++ [a]).
Proof.
  intros l a [[H1 [x [H2 H3]]]|[s [t [H1 [H2 H3]]]]].
  - left. split; [apply in_snoc; auto|]. exists x. split; [exact H2|apply in_snoc; auto].
  - right. exists s, t. split; [exact H1|]. split; apply in_snoc; auto.
Qed.

Lemma P_snoc_inv : forall l a,
  P (l ++ [a]) ->
  P l
  \/ (a = Accept /\ exists x, x <> Accept /\ In x l)
  \/ (a <> Accept /\ In Accept l)
  \/ (exists s t, s <> t /\ a = Shift s /\ In (Shift t) l).
Proof.
  intros l a [[H1 [x [H2 H3]]]|[s [t [H1 [H2 H3]]]]].
  - apply in_snoc in H1. apply in_snoc in H3.
    destruct H1 as [H1|H1], H3 as [H3|H3].
    + left. apply (accept_other_P l x); assumption.
    + right. right. left. subst x. auto.
    + right. left. split; [auto|]. exists x. auto.
    + congruence.
  - apply in_snoc in H2. apply in_snoc in H3.
    destruct H2 as [H2|H2], H3 as [H3|H3].
    + left. right. exists s, t. auto.
    + right. right. right. exists t, s. auto.
    + right. right. right. exists s, t. auto.
    + congruence.
Qed.

(* ------------------------------------------------------------------------- *)
(** * The fold satisfies the description *)

Definition Inv (l : list act) (res : option (option act * list act)) : Prop :=
  match res with
  | None => P l
  | Some (w, cf) => ~ P l /\ W l w /\ cf = conf_spec l
  end.

Lemma row_from_snoc : forall cs st c,
  row_from st (cs ++ [c])
  = match row_from st cs with None => None | Some st' => row_step st' c end.
Proof.
  induction cs as [|x cs IH]; intros st c; simpl.
  - destruct (row_step st c); reflexivity.
  - destruct (row_step st x); [apply IH|reflexivity].
Qed.

Lemma inv_step : forall l w cf a,
  Inv l (Some (w, cf)) -> Inv (l ++ [a]) (row_step (w, cf) (Some a)).
Proof.
  intros l w cf a [HP [HW Hcf]]. unfold row_step. simpl fst. simpl snd.
  destruct w as [b|].
  2:{ (* first non-ERROR candidate *)
    simpl in HW.
    assert (l = []) as ->.
    { destruct l as [|x l]; [reflexivity|]. exfalso. apply (HW x). left. reflexivity. }
    subst cf. simpl app. split; [|split].
    - intros [[H1 [x [H2 H3]]]|[s [t [H1 [H2 H3]]]]].
      + destruct H1 as [H1|[]]. destruct H3 as [H3|[]]. congruence.
      + destruct H2 as [H2|[]]. destruct H3 as [H3|[]]. congruence.
    - destruct a as [s|p|]; simpl.
      + left. reflexivity.
      + split; [left; reflexivity|]. split.
        * intros s [H|[]]. discriminate.
        * intros q [H|[]]. injection H as <-. lia.
      + left. reflexivity.
    - reflexivity. }
  pose proof (W_in _ _ HW) as Hb.
  destruct (act_eqb_spec b a) as [->|Hne].
  { (* same as the current winner: nothing happens *)
    assert (E : forall x, In x l <-> In x (l ++ [a])).
    { intros x. rewrite in_snoc. split; [auto|]. intros [H|H]; [exact H|subst; exact Hb]. }
    split; [|split].
    - intros H. apply HP. revert H. apply P_ext. intros x. symmetry. apply E.
    - revert HW. apply W_ext. exact E.
    - rewrite conf_same by exact Hb. exact Hcf. }
  (* a genuine conflict *)
  assert (Hcf' : add_set a (add_set b cf) = conf_spec (l ++ [a])).
  { subst cf. apply conf_diff; [exact Hb|congruence]. }
  assert (Hbl : In b (l ++ [a])) by (apply in_snoc; auto).
  assert (Hal : In a (l ++ [a])) by (apply in_snoc; auto).
  assert (NP : forall x, In Accept l -> In x l -> x <> Accept -> False).
  { intros x H1 H2 H3. apply HP. apply (accept_other_P l x); assumption. }
  destruct b as [s|p|]; simpl in HW.
  - (* winner Shift s *)
    destruct a as [t|q|]; simpl resolve; cbv iota.
    + right. exists s, t. split; [congruence|]. split; assumption.
    + split; [|split; [exact Hbl|exact Hcf']].
      intros H. apply P_snoc_inv in H.
      destruct H as [H|[[H _]|[[_ H]|[s' [t' [_ [H _]]]]]]].
      * exact (HP H).
      * discriminate.
      * apply (NP (Shift s)); [exact H|exact Hb|discriminate].
      * discriminate.
    + apply (accept_other_P _ (Shift s)); [exact Hal|exact Hbl|discriminate].
  - (* winner Reduce p *)
    destruct HW as [_ [HS HM]].
    destruct a as [t|q|]; simpl resolve; cbv iota.
    + split; [|split; [exact Hal|exact Hcf']].
      intros H. apply P_snoc_inv in H.
      destruct H as [H|[[H _]|[[_ H]|[s' [t' [_ [_ H]]]]]]].
      * exact (HP H).
      * discriminate.
      * apply (NP (Reduce p)); [exact H|exact Hb|discriminate].
      * exact (HS _ H).
    + split; [|split; [|exact Hcf']].
      * intros H. apply P_snoc_inv in H.
        destruct H as [H|[[H _]|[[_ H]|[s' [t' [_ [H _]]]]]]].
        -- exact (HP H).
        -- discriminate.
        -- apply (NP (Reduce p)); [exact H|exact Hb|discriminate].
        -- discriminate.
      * simpl. split; [|split].
        -- destruct (p <? q); assumption.
        -- intros s H. apply in_snoc in H. destruct H as [H|H]; [exact (HS _ H)|discriminate].
        -- intros r H. apply in_snoc in H. destruct H as [H|H].
           ++ apply HM in H. destruct (Nat.ltb_spec p q); lia.
           ++ injection H as ->. destruct (Nat.ltb_spec p q); lia.
    + apply (accept_other_P _ (Reduce p)); [exact Hal|exact Hbl|discriminate].
  - (* winner Accept: any different candidate panics *)
    simpl resolve. cbv iota.
    apply (accept_other_P _ a); [exact Hbl|exact Hal|congruence].
Qed.

Lemma row_action_inv : forall cs, Inv (somes cs) (row_action cs).
Proof.
  unfold row_action.
  induction cs as [|c cs IH] using rev_ind.
  - simpl. split; [|split].
    + intros [[[] _]|[s [t [_ [[] _]]]]].
    + intros a [].
    + reflexivity.
  - rewrite row_from_snoc, somes_app.
    destruct (row_from (None, []) cs) as [[w cf]|].
    + destruct c as [a|].
      * simpl somes. apply inv_step. exact IH.
      * simpl somes. rewrite app_nil_r. exact IH.
    + simpl in IH |- *. destruct c as [a|]; simpl somes.
      * apply P_snoc. exact IH.
      * rewrite app_nil_r. exact IH.
Qed.

(* ------------------------------------------------------------------------- *)
(** * User-facing theorems, stated on the candidate list itself *)

(** (4) the exact panic condition; independent of the order of the candidates *)
Definition panics (cs : list (option act)) : Prop :=
  (In (Some Accept) cs /\ exists a, a <> Accept /\ In (Some a) cs)
  \/ (exists s t, s <> t /\ In (Some (Shift s)) cs /\ In (Some (Shift t)) cs).

Lemma panics_P : forall cs, panics cs <-> P (somes cs).
Proof.
  intros cs. unfold panics, P. split.
  - intros [[H1 [a [H2 H3]]]|[s [t [H1 [H2 H3]]]]].
    + left. split; [apply in_somes; exact H1|]. exists a. split; [exact H2|apply in_somes; exact H3].
    + right. exists s, t. split; [exact H1|]. split; apply in_somes; assumption.
  - intros [[H1 [a [H2 H3]]]|[s [t [H1 [H2 H3]]]]].
    + left. split; [apply in_somes; exact H1|]. exists a. split; [exact H2|apply in_somes; exact H3].
    + right. exists s, t. split; [exact H1|]. split; apply in_somes; assumption.
Qed.

Theorem row_action_panic : forall cs, row_action cs = None <-> panics cs.
Proof.
  intros cs. rewrite panics_P. pose proof (row_action_inv cs) as H.
  destruct (row_action cs) as [[w cf]|]; simpl in H.
  - split; [discriminate|]. intros HP. destruct H as [H _]. contradiction.
  - tauto.
Qed.

(** (1) the winner: Shift if any, else the Reduce with the least production, else Accept,
    else ERROR *)
Theorem row_action_winner : forall cs w cf,
  row_action cs = Some (w, cf) ->
  (forall s, w = Some (Shift s) <-> In (Some (Shift s)) cs)
  /\ (forall p, w = Some (Reduce p) <->
        (forall s, ~ In (Some (Shift s)) cs)
        /\ In (Some (Reduce p)) cs
        /\ (forall q, In (Some (Reduce q)) cs -> p <= q))
  /\ (w = Some Accept <-> In (Some Accept) cs)
  /\ (w = None <-> forall a, ~ In (Some a) cs).
Proof.
  intros cs w cf E. pose proof (row_action_inv cs) as H. rewrite E in H.
  destruct H as [HP [HW _]].
  assert (U : forall w', w = w' <-> W (somes cs) w').
  { intros w'. split; [intros <-; exact HW|]. intros H'. exact (W_unique _ _ _ HP HW H'). }
  split; [|split; [|split]].
  - intros s. rewrite U. simpl. apply in_somes.
  - intros p. rewrite U. simpl. split.
    + intros [H1 [H2 H3]]. split; [|split].
      * intros s Hs. apply (H2 s). apply in_somes. exact Hs.
      * apply in_somes. exact H1.
      * intros q Hq. apply H3. apply in_somes. exact Hq.
    + intros [H2 [H1 H3]]. split; [|split].
      * apply in_somes. exact H1.
      * intros s Hs. apply (H2 s). apply in_somes. exact Hs.
      * intros q Hq. apply H3. apply in_somes. exact Hq.
  - rewrite U. simpl. apply in_somes.
  - rewrite U. simpl. split.
    + intros H a Ha. apply (H a). apply in_somes. exact Ha.
    + intros H a Ha. apply (H a). apply in_somes. exact Ha.
Qed.

(** (2) the conflict set: all distinct non-ERROR candidates (first-occurrence order in the
    model) when there are at least two of them, nothing otherwise *)
Theorem row_action_conflicts : forall cs w cf,
  row_action cs = Some (w, cf) ->
  cf = (if length (dedup (somes cs)) <=? 1 then [] else dedup (somes cs)).
Proof.
  intros cs w cf E. pose proof (row_action_inv cs) as H. rewrite E in H.
  destruct H as [_ [_ H]]. exact H.
Qed.

(** [dedup (somes cs)] is duplicate-free and has exactly the non-ERROR candidates *)
Theorem dedup_somes_spec : forall cs,
  NoDup (dedup (somes cs)) /\ forall a, In a (dedup (somes cs)) <-> In (Some a) cs.
Proof.
  intros cs. split; [apply NoDup_dedup|]. intros a. rewrite in_dedup. apply in_somes.
Qed.

Lemma short_nodup_all_equal : forall (d : list act),
  length d <= 1 -> forall a b, In a d -> In b d -> a = b.
Proof.
  intros [|x [|y d]] H a b Ha Hb; simpl in *.
  - contradiction.
  - destruct Ha as [<-|[]]. destruct Hb as [<-|[]]. reflexivity.
  - lia.
Qed.

Lemma long_nodup_two : forall (d : list act),
  NoDup d -> 1 < length d -> exists a b, a <> b /\ In a d /\ In b d.
Proof.
  intros [|x [|y d]] H Hl; simpl in Hl; try lia.
  exists x, y. inversion H as [|? ? Hx _]; subst.
  split; [|split; [left; reflexivity|right; left; reflexivity]].
  intros ->. apply Hx. left. reflexivity.
Qed.

Theorem row_action_conflicts_nonempty : forall cs w cf,
  row_action cs = Some (w, cf) ->
  (cf <> [] <-> exists a b, a <> b /\ In (Some a) cs /\ In (Some b) cs).
Proof.
  intros cs w cf E. rewrite (row_action_conflicts _ _ _ E).
  destruct (dedup_somes_spec cs) as [ND HI].
  destruct (length (dedup (somes cs)) <=? 1) eqn:L.
  - apply Nat.leb_le in L. split; [congruence|].
    intros [a [b [Hab [Ha Hb]]]]. exfalso. apply Hab.
    apply (short_nodup_all_equal _ L); apply HI; assumption.
  - apply Nat.leb_gt in L. split.
    + intros _. destruct (long_nodup_two _ ND L) as [a [b [Hab [Ha Hb]]]].
      exists a, b. split; [exact Hab|]. split; apply HI; assumption.
    + intros _ Hnil. rewrite Hnil in L. simpl in L. lia.
Qed.

(** when there are two distinct candidates the conflict set is the set of ALL distinct
    non-ERROR candidates *)
Corollary row_action_conflicts_all : forall cs w cf,
  row_action cs = Some (w, cf) ->
  (exists a b, a <> b /\ In (Some a) cs /\ In (Some b) cs) ->
  NoDup cf /\ forall a, In a cf <-> In (Some a) cs.
Proof.
  intros cs w cf E H2.
  pose proof (proj2 (row_action_conflicts_nonempty _ _ _ E) H2) as Hne.
  rewrite (row_action_conflicts _ _ _ E) in Hne |- *.
  destruct (length (dedup (somes cs)) <=? 1); [congruence|]. apply dedup_somes_spec.
Qed.

(** (1, second half) at most one distinct non-ERROR candidate: it is the winner, unchanged,
    and no conflict is reported *)
Theorem row_action_single : forall cs a,
  In (Some a) cs -> (forall b, In (Some b) cs -> b = a) ->
  row_action cs = Some (Some a, []).
Proof.
  intros cs a Ha Hall.
  assert (NP : ~ panics cs).
  { intros [[H1 [x [H2 H3]]]|[s [t [H1 [H2 H3]]]]].
    - apply Hall in H1. apply Hall in H3. congruence.
    - apply Hall in H2. apply Hall in H3. congruence. }
  destruct (row_action cs) as [[w cf]|] eqn:E.
  2:{ exfalso. apply NP. apply row_action_panic. exact E. }
  pose proof (row_action_winner _ _ _ E) as [WS [WR [WA _]]].
  assert (w = Some a) as ->.
  { destruct a as [s|p|].
    - apply WS. exact Ha.
    - apply WR. split; [|split].
      + intros s Hs. apply Hall in Hs. discriminate.
      + exact Ha.
      + intros q Hq. apply Hall in Hq. injection Hq as ->. lia.
    - apply WA. exact Ha. }
  f_equal. f_equal.
  destruct cf as [|x cf]; [reflexivity|]. exfalso.
  assert (Hne : x :: cf <> []) by discriminate.
  apply (row_action_conflicts_nonempty _ _ _ E) in Hne.
  destruct Hne as [u [v [Huv [Hu Hv]]]]. apply Hall in Hu. apply Hall in Hv. congruence.
Qed.

Theorem row_action_none : forall cs,
  (forall a, ~ In (Some a) cs) -> row_action cs = Some (None, []).
Proof.
  intros cs Hall.
  assert (NP : ~ panics cs).
  { intros [[H1 _]|[s [t [_ [H2 _]]]]]; [exact (Hall _ H1)|exact (Hall _ H2)]. }
  destruct (row_action cs) as [[w cf]|] eqn:E.
  2:{ exfalso. apply NP. apply row_action_panic. exact E. }
  pose proof (row_action_winner _ _ _ E) as [_ [_ [_ WN]]].
  assert (w = None) as -> by (apply WN; exact Hall).
  f_equal. f_equal.
  destruct cf as [|x cf]; [reflexivity|]. exfalso.
  assert (Hne : x :: cf <> []) by discriminate.
  apply (row_action_conflicts_nonempty _ _ _ E) in Hne.
  destruct Hne as [u [v [_ [Hu _]]]]. exact (Hall _ Hu).
Qed.

(** (3) order independence *)
Theorem row_action_perm : forall cs cs',
  Permutation cs cs' ->
  match row_action cs, row_action cs' with
  | None, None => True
  | Some (w, cf), Some (w', cf') => w = w' /\ Permutation cf cf'
  | _, _ => False
  end.
Proof.
  intros cs cs' HPm.
  pose proof (somes_perm _ _ HPm) as HS.
  assert (E : forall x, In x (somes cs) <-> In x (somes cs')).
  { intros x. split; apply Permutation_in; [exact HS|apply Permutation_sym; exact HS]. }
  assert (E' : forall x, In x (somes cs') <-> In x (somes cs)) by (intros x; symmetry; apply E).
  pose proof (row_action_inv cs) as H. pose proof (row_action_inv cs') as H'.
  destruct (row_action cs) as [[w cf]|], (row_action cs') as [[w' cf']|]; simpl in H, H'.
  - destruct H as [HP [HW Hcf]], H' as [HP' [HW' Hcf']]. split.
    + apply (W_unique (somes cs')); [exact HP'| |exact HW']. revert HW. apply W_ext. exact E.
    + subst cf cf'. unfold conf_spec.
      assert (PD : Permutation (dedup (somes cs)) (dedup (somes cs'))).
      { apply NoDup_Permutation; try apply NoDup_dedup.
        intros x. rewrite !in_dedup. apply E. }
      rewrite (Permutation_length PD).
      destruct (length (dedup (somes cs')) <=? 1); [constructor|exact PD].
  - destruct H as [HP _]. apply HP. revert H'. apply P_ext. exact E'.
  - destruct H' as [HP' _]. apply HP'. revert H. apply P_ext. exact E.
  - exact I.
Qed.

(** consequence used by the conflict COUNT (main.go counts rows/symbols whose conflict list
    is non-empty): emptiness of the conflict set is order independent *)
Corollary row_action_perm_count : forall cs cs' w cf w' cf',
  Permutation cs cs' ->
  row_action cs = Some (w, cf) -> row_action cs' = Some (w', cf') ->
  w = w' /\ length cf = length cf'.
Proof.
  intros cs cs' w cf w' cf' HPm E E'. pose proof (row_action_perm _ _ HPm) as H.
  rewrite E, E' in H. destruct H as [H1 H2]. split; [exact H1|apply Permutation_length; exact H2].
Qed.

(* ------------------------------------------------------------------------- *)
(** * Examples *)

(** shift/reduce: shift wins whatever the order; both are reported *)
Example ex_sr1 : row_action [Some (Reduce 4); None; Some (Shift 7); Some (Reduce 2)]
                 = Some (Some (Shift 7), [Reduce 4; Shift 7; Reduce 2]).
Proof. vm_compute. reflexivity. Qed.
Example ex_sr2 : row_action [Some (Shift 7); Some (Reduce 2); None; Some (Reduce 4)]
                 = Some (Some (Shift 7), [Shift 7; Reduce 2; Reduce 4]).
Proof. vm_compute. reflexivity. Qed.

(** reduce/reduce: the earliest production wins whatever the order *)
Example ex_rr1 : row_action [Some (Reduce 5); Some (Reduce 3); Some (Reduce 9)]
                 = Some (Some (Reduce 3), [Reduce 5; Reduce 3; Reduce 9]).
Proof. vm_compute. reflexivity. Qed.
Example ex_rr2 : row_action [Some (Reduce 9); Some (Reduce 3); Some (Reduce 5)]
                 = Some (Some (Reduce 3), [Reduce 9; Reduce 3; Reduce 5]).
Proof. vm_compute. reflexivity. Qed.

(** the coordinator's question: [Reduce 3; Reduce 5; Reduce 5].  The second Reduce 5 is
    compared with the winner Reduce 3, differs, and is (re-)inserted: the set is {3, 5}.
    A candidate equal to the current winner is skipped, but the winner itself was or will be
    recorded: [Reduce 3; Reduce 3; Reduce 5] also gives {3, 5}. *)
Example ex_dup1 : row_action [Some (Reduce 3); Some (Reduce 5); Some (Reduce 5)]
                  = Some (Some (Reduce 3), [Reduce 3; Reduce 5]).
Proof. vm_compute. reflexivity. Qed.
Example ex_dup2 : row_action [Some (Reduce 3); Some (Reduce 3); Some (Reduce 5)]
                  = Some (Some (Reduce 3), [Reduce 3; Reduce 5]).
Proof. vm_compute. reflexivity. Qed.

(** duplicates of a single candidate: no conflict *)
Example ex_single : row_action [None; Some (Shift 2); Some (Shift 2); None; Some (Shift 2)]
                    = Some (Some (Shift 2), []).
Proof. vm_compute. reflexivity. Qed.
Example ex_empty : row_action [None; None] = Some (None, []).
Proof. vm_compute. reflexivity. Qed.

(** panics, in every order *)
Example ex_panic_acc1 : row_action [Some Accept; Some (Reduce 1)] = None.
Proof. vm_compute. reflexivity. Qed.
Example ex_panic_acc2 : row_action [Some (Reduce 1); Some Accept] = None.
Proof. vm_compute. reflexivity. Qed.
Example ex_panic_acc3 : row_action [Some (Reduce 1); Some (Shift 3); Some Accept] = None.
Proof. vm_compute. reflexivity. Qed.
Example ex_panic_ss1 : row_action [Some (Shift 1); Some (Reduce 0); Some (Shift 2)] = None.
Proof. vm_compute. reflexivity. Qed.
Example ex_panic_ss2 : row_action [Some (Reduce 0); Some (Shift 2); Some (Shift 1)] = None.
Proof. vm_compute. reflexivity. Qed.
Example ex_accept_only : row_action [Some Accept; None; Some Accept] = Some (Some Accept, []).
Proof. vm_compute. reflexivity. Qed.

Print Assumptions row_action_panic.
Print Assumptions row_action_winner.
Print Assumptions row_action_conflicts.
Print Assumptions row_action_conflicts_nonempty.
Print Assumptions row_action_conflicts_all.
Print Assumptions row_action_single.
Print Assumptions row_action_none.
Print Assumptions row_action_perm.
Print Assumptions row_action_perm_count.
