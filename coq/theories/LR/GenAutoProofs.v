(** Proofs about GenAuto.v: for EVERY grammar the model generator processes in mode -a,
    (1) the automaton is the canonical LR(1) collection (it passes Canonical.auto_valid);
    (2) every cell of the generated action table is the winner of [row_action] over the candidate actions of the
        state's items, hence (Resolve) shift if a shift competes, else the least production, else accept/nothing;
    (3) the announced number is [gocc_reports], positive iff the canonical collection has a conflict; generation is
        refused iff an Accept competes;
    (4) on grammars the plain generator accepts, -a changes nothing. *)
From Coq Require Import List ZArith Bool Arith Lia.
From Gocc Require Import LR.Parse LR.Validate LR.Derive LR.Exact LR.Resolve LR.ResolveProofs LR.ValidateProofs
  LR.Canonical LR.CanonicalProofs LR.Gen LR.GenProofs LR.GenAuto.
Import ListNotations.

Lemma filter_none {A} (f : A -> bool) l : (forall x, In x l -> f x = false) -> filter f l = [].
Proof.
  induction l as [|x l IH]; intros H; simpl; [reflexivity|].
  rewrite (H x (or_introl eq_refl)). apply IH. intros y Hy. apply H. now right.
Qed.

Section Top.
Variable g : grammar.
Variables nn ntm : nat.
Variable symbols : list sym.
Variable la_order : list nat.
Variable p_acts : list bool.
Variable terr : nat.
Variable fuel : nat.

Notation run_auto := (gen_run_auto g nn ntm symbols la_order p_acts terr fuel).

(** what a run that reached the tables went through *)
Lemma gen_auto_inv an tr :
  (exists tb n, run_auto = AutoOk tb an tr n) \/ run_auto = AutoRefused an tr ->
  exists N F,
    gen_wf g nn ntm symbols la_order terr = true /\ gen_first g nn = Some (N, F) /\
    gen_states_an g symbols la_order {| a_items := []; a_nullable := N; a_first := F |} fuel = Some (a_items an, tr) /\
    an = {| a_items := a_items an; a_nullable := N; a_first := F |}.
Proof.
  intros H. unfold gen_run_auto in H.
  destruct (gen_wf g nn ntm symbols la_order terr) eqn:EW; simpl in H.
  2:{ destruct H as [(tb & n & H)|H]; discriminate. }
  destruct (gen_first g nn) as [[N F]|] eqn:EF.
  2:{ destruct H as [(tb & n & H)|H]; discriminate. }
  destruct (gen_states_an g symbols la_order {| a_items := []; a_nullable := N; a_first := F |} fuel)
    as [[sts trs]|] eqn:ES.
  2:{ destruct H as [(tb & n & H)|H]; discriminate. }
  exists N, F.
  destruct (all_some (map (gen_row_auto g nn ntm terr {| a_items := sts; a_nullable := N; a_first := F |} trs)
                          (seq 0 (length sts)))) as [rows|] eqn:ER.
  - destruct H as [(tb & n & H)|H]; [|discriminate]. inversion H; subst. simpl. auto.
  - destruct H as [(tb & n & H)|H]; [discriminate|]. inversion H; subst. simpl. auto.
Qed.

(** (1) the automaton built in mode -a is the canonical collection, conflicts or not *)
Theorem gen_auto_automaton_valid an tr :
  (exists tb n, run_auto = AutoOk tb an tr n) \/ run_auto = AutoRefused an tr ->
  auto_valid g ntm an tr = true.
Proof.
  intros H. destruct (gen_auto_inv an tr H) as (N & F & H1 & H2 & H3 & H4). rewrite H4.
  exact (gen_auto_valid_an g nn ntm symbols la_order terr N F (a_items an) tr fuel H1 H2 H3).
Qed.

Lemma gen_auto_ok_inv tb an tr n : run_auto = AutoOk tb an tr n ->
  exists rows, all_some (map (gen_row_auto g nn ntm terr an tr) (seq 0 (length (a_items an)))) = Some rows /\
    tb = {| t_states := rows; t_prods := gen_prods g p_acts; t_err := terr; t_gate := false |} /\
    n = a_conflicts g ntm an tr.
Proof.
  intros H. unfold gen_run_auto in H.
  destruct (gen_wf g nn ntm symbols la_order terr); simpl in H; [|discriminate].
  destruct (gen_first g nn) as [[N F]|]; [|discriminate].
  destruct (gen_states_an g symbols la_order {| a_items := []; a_nullable := N; a_first := F |} fuel)
    as [[sts trs]|]; [|discriminate].
  destruct (all_some (map (gen_row_auto g nn ntm terr {| a_items := sts; a_nullable := N; a_first := F |} trs)
                          (seq 0 (length sts)))) as [rows|] eqn:ER; [|discriminate].
  inversion H; subst. exists rows. simpl. auto.
Qed.

(** (2) every cell of the table = the winner of the fold over the candidates *)
Theorem gen_auto_cells tb an tr n : run_auto = AutoOk tb an tr n ->
  forall s a, s < length (a_items an) -> a < ntm ->
  exists w cf, cell g an tr s a = Some (w, cf) /\ action_at tb s a = Some w.
Proof.
  intros H s a Hs Ha. destruct (gen_auto_ok_inv _ _ _ _ H) as (rows & HR & -> & _).
  destruct (all_some_map_seq _ _ _ HR) as [_ H2]. destruct (H2 s Hs) as (r & Hr & Hn).
  unfold gen_row_auto in Hr. destruct (action_row_auto g ntm an tr s) as [acts|] eqn:EA; [|discriminate].
  inversion Hr; subst r. clear Hr. unfold action_row_auto in EA.
  destruct (all_some_map_seq _ _ _ EA) as [_ H3]. destruct (H3 a Ha) as (w & Hc & Hw).
  unfold action_cell_auto in Hc. destruct (cell g an tr s a) as [[w' cf]|] eqn:EC; [|discriminate].
  inversion Hc; subst w'. exists w, cf. split; [reflexivity|].
  unfold action_at. simpl. rewrite Hn. simpl. exact Hw.
Qed.

(** ... hence, by the fold lemma of Resolve: shift iff a shift competes, else the least production *)
Theorem gen_auto_cell_rule tb an tr n : run_auto = AutoOk tb an tr n ->
  forall s a, s < length (a_items an) -> a < ntm ->
  exists w, action_at tb s a = Some w /\
    (forall t, w = Some (Shift t) <-> In (Some (Shift t)) (cands g an tr s a)) /\
    (forall p, w = Some (Reduce p) <->
       (forall t, ~ In (Some (Shift t)) (cands g an tr s a)) /\ In (Some (Reduce p)) (cands g an tr s a) /\
       forall q, In (Some (Reduce q)) (cands g an tr s a) -> p <= q) /\
    (w = Some Accept <-> In (Some Accept) (cands g an tr s a)) /\
    (w = None <-> forall x, ~ In (Some x) (cands g an tr s a)).
Proof.
  intros H s a Hs Ha. destruct (gen_auto_cells _ _ _ _ H s a Hs Ha) as (w & cf & Hc & Hw).
  exists w. split; [exact Hw|]. exact (row_action_winner _ _ _ Hc).
Qed.

(** no cell is refused when the tables were produced *)
Lemma gen_auto_no_panic tb an tr n : run_auto = AutoOk tb an tr n ->
  existsb (fun s => existsb (cell_panics g an tr s) (seq 0 ntm)) (seq 0 (length (a_items an))) = false.
Proof.
  intros H. apply not_true_is_false. intros E. apply existsb_exists in E. destruct E as (s & Hs & E).
  apply existsb_exists in E. destruct E as (a & Ha & E). apply in_seq in Hs. apply in_seq in Ha.
  destruct (gen_auto_cells _ _ _ _ H s a) as (w & cf & Hc & _); [lia|lia|].
  unfold cell_panics in E. rewrite Hc in E. discriminate.
Qed.

(** (3) the announced number is the one of Canonical.gocc_reports ... *)
Theorem gen_auto_reports tb an tr n : run_auto = AutoOk tb an tr n -> gocc_reports g ntm an tr = Some n.
Proof.
  intros H. unfold gocc_reports, nst. rewrite (gen_auto_no_panic _ _ _ _ H).
  destruct (gen_auto_ok_inv _ _ _ _ H) as (_ & _ & _ & ->). reflexivity.
Qed.

(** ... positive exactly when the grammar is not LR(1) *)
Theorem gen_auto_reports_iff_not_LR1 tb an tr n : run_auto = AutoOk tb an tr n ->
  (0 < n <-> canonical_conflict g).
Proof.
  intros H. apply (C04_reports g ntm an tr).
  - apply gen_auto_automaton_valid. left. exists tb, n. exact H.
  - exact (gen_auto_reports _ _ _ _ H).
Qed.

(** refusal: some cell panics, i.e. gocc_reports = None, i.e. an Accept competes in the canonical collection *)
Theorem gen_auto_refused an tr : run_auto = AutoRefused an tr ->
  gocc_reports g ntm an tr = None /\ canonical_accept_conflict g.
Proof.
  intros H. pose proof (gen_auto_automaton_valid an tr (or_intror H)) as AV.
  assert (HR : gocc_reports g ntm an tr = None).
  { unfold gen_run_auto in H.
    destruct (gen_wf g nn ntm symbols la_order terr); simpl in H; [|discriminate].
    destruct (gen_first g nn) as [[N F]|]; [|discriminate].
    destruct (gen_states_an g symbols la_order {| a_items := []; a_nullable := N; a_first := F |} fuel)
      as [[sts trs]|]; [|discriminate].
    destruct (all_some (map (gen_row_auto g nn ntm terr {| a_items := sts; a_nullable := N; a_first := F |} trs)
                            (seq 0 (length sts)))) as [rows|] eqn:ER; [discriminate|].
    injection H as E1 E2. subst an tr.
    apply all_some_None_ex in ER. apply in_map_iff in ER. destruct ER as (s & Hr & Hs).
    unfold gen_row_auto in Hr.
    destruct (action_row_auto g ntm {| a_items := sts; a_nullable := N; a_first := F |} trs s) as [acts|] eqn:EA;
      [discriminate|].
    unfold action_row_auto in EA. apply all_some_None_ex in EA. apply in_map_iff in EA.
    destruct EA as (a & Hc & Ha). unfold action_cell_auto in Hc.
    destruct (cell g {| a_items := sts; a_nullable := N; a_first := F |} trs s a) as [[w cf]|] eqn:EC; [discriminate|].
    unfold gocc_reports, nst. simpl.
    replace (existsb _ (seq 0 (length sts))) with true; [reflexivity|]. symmetry.
    apply existsb_exists. exists s. split; [exact Hs|]. apply existsb_exists. exists a. split; [exact Ha|].
    unfold cell_panics. now rewrite EC. }
  split; [exact HR|]. exact (proj1 (C04_panics g ntm an tr AV) HR).
Qed.

(** (4) -a does not change what the plain generator produces *)
Theorem gen_auto_conservative tb an tr :
  gen_run g nn ntm symbols la_order p_acts terr fuel = GenOk tb an tr ->
  run_auto = AutoOk tb an tr 0.
Proof.
  intros H. unfold gen_run in H. unfold gen_run_auto.
  destruct (gen_wf g nn ntm symbols la_order terr); simpl in *; [|discriminate].
  destruct (gen_first g nn) as [[N F]|]; [|discriminate].
  destruct (gen_states_an g symbols la_order {| a_items := []; a_nullable := N; a_first := F |} fuel)
    as [[sts trs]|]; [|discriminate].
  set (an0 := {| a_items := sts; a_nullable := N; a_first := F |}) in *.
  destruct (all_some (map (gen_row g nn ntm terr an0 trs) (seq 0 (length sts)))) as [rows|] eqn:ER; [|discriminate].
  inversion H; subst tb an tr. clear H.
  (* every plain row is an auto row, and no state has a conflict *)
  destruct (all_some_map_seq _ _ _ ER) as [HL HR].
  assert (HC : forall s a, s < length sts -> a < ntm -> exists w, cell g an0 trs s a = Some (w, [])).
  { intros s a Hs Ha. destruct (HR s Hs) as (r & Hr & _). unfold gen_row in Hr.
    destruct (action_row g ntm an0 trs s) as [acts|] eqn:EA; [|discriminate].
    unfold action_row in EA. destruct (all_some_map_seq _ _ _ EA) as [_ H3]. destruct (H3 a Ha) as (w & Hc & _).
    unfold action_cell in Hc. destruct (cell g an0 trs s a) as [[w' [|c cf]]|]; try discriminate. eauto. }
  assert (HE : map (gen_row_auto g nn ntm terr an0 trs) (seq 0 (length sts)) =
               map (gen_row g nn ntm terr an0 trs) (seq 0 (length sts))).
  { apply map_ext_in. intros s Hs. apply in_seq in Hs. unfold gen_row_auto, gen_row.
    replace (action_row_auto g ntm an0 trs s) with (action_row g ntm an0 trs s); [reflexivity|].
    unfold action_row, action_row_auto. f_equal. apply map_ext_in. intros a Ha. apply in_seq in Ha.
    destruct (HC s a) as [w Hw]; [lia|lia|]. unfold action_cell, action_cell_auto. now rewrite Hw. }
  rewrite HE, ER. f_equal. unfold a_conflicts. simpl.
  replace (filter (state_conflict g ntm an0 trs) (seq 0 (length sts))) with (@nil nat); [reflexivity|].
  symmetry. apply filter_none. intros s Hs. apply in_seq in Hs.
  unfold state_conflict. apply not_true_is_false. intros E.
  apply existsb_exists in E. destruct E as (a & Ha & E). apply in_seq in Ha.
  destruct (HC s a) as [w Hw]; [lia|lia|]. unfold cell_conflict in E. rewrite Hw in E. discriminate.
Qed.

End Top.

(** ** Totality and the exit status *)
Section Exit.
Variable g : grammar.
Variables nn ntm : nat.
Variable symbols : list sym.
Variable la_order : list nat.
Variable p_acts : list bool.
Variable terr : nat.
Variable fuel : nat.
Hypothesis WF : gen_wf g nn ntm symbols la_order terr = true.
Hypothesis FUEL : 2 ^ length (item_universe g la_order) < fuel.

Notation run_auto := (gen_run_auto g nn ntm symbols la_order p_acts terr fuel).

Theorem gen_run_auto_total :
  (exists tb an tr n, run_auto = AutoOk tb an tr n) \/ (exists an tr, run_auto = AutoRefused an tr).
Proof.
  assert (GNE : g <> []) by (eapply g_ne; eauto).
  unfold gen_run_auto. rewrite WF. simpl.
  destruct (gen_first g nn) as [[N F]|] eqn:EF; [|exfalso; revert EF; now apply gen_first_ok].
  destruct (gen_states_an g symbols la_order {| a_items := []; a_nullable := N; a_first := F |} fuel)
    as [[sts trs]|] eqn:ES; [|exfalso; revert ES; now apply gen_states_fuel_ok].
  destruct (all_some _); [left|right]; eauto.
Qed.

(** with -a: status zero iff accepting competes with nothing in the canonical collection;
    without -a: status zero iff the canonical collection has no conflict at all *)
Theorem gocc_exit_zero_iff auto :
  gocc_exit g nn ntm symbols la_order p_acts terr auto fuel = Some 0 <->
  (if auto then ~ canonical_accept_conflict g else ~ canonical_conflict g).
Proof.
  unfold gocc_exit. destruct gen_run_auto_total as [(tb & an & tr & n & E)|(an & tr & E)]; rewrite E.
  - pose proof (gen_auto_reports _ _ _ _ _ _ _ _ _ _ _ _ E) as HR.
    assert (AV : auto_valid g ntm an tr = true) by (apply (gen_auto_automaton_valid g nn ntm symbols la_order p_acts terr fuel); left; eauto).
    assert (NA : ~ canonical_accept_conflict g).
    { intro HA. apply (C04_panics g ntm an tr AV) in HA. congruence. }
    pose proof (gen_auto_reports_iff_not_LR1 _ _ _ _ _ _ _ _ _ _ _ _ E) as HC.
    destruct auto.
    + split; [intros _; exact NA|reflexivity].
    + destruct (Nat.eqb_spec n 0) as [->|Hn].
      * split; [intros _ H; apply HC in H; lia|reflexivity].
      * split; [discriminate|]. intros H. exfalso. apply H. apply HC. lia.
  - destruct (gen_auto_refused _ _ _ _ _ _ _ _ _ _ E) as [HR HA].
    assert (AV : auto_valid g ntm an tr = true) by (apply (gen_auto_automaton_valid g nn ntm symbols la_order p_acts terr fuel); right; exact E).
    split; [discriminate|]. intros H. exfalso. destruct auto; [exact (H HA)|].
    apply H. apply (C04_conflict_iff g ntm an tr AV). left. exact HR.
Qed.

End Exit.
