(** Model of the generated parser (internal/parser/gen/golang/parser.go template):
    Parse, Error, popNonRecoveryStates, firstRecoveryState, newError — with the repaired
    recovery (fix commits for D8).  Tables are data (what the compiled actionTab, gotoTab,
    productionsTable contain); partial Go operations (index out of range, type assertion,
    slicing below zero) are explicit [PPanic] outcomes.

    Definitions only. *)
From Coq Require Import List ZArith Bool Arith.
Import ListNotations.

(** ** Grammars *)
Inductive sym := T (n : nat) | NT (n : nat).
Record prod := { lhs : nat; rhs : list sym }.          (* an 'empty' alternative has rhs = [] *)
Definition grammar := list prod.                         (* production 0 is S' -> S *)

Definition sym_eqb (a b : sym) : bool :=
  match a, b with T x, T y => Nat.eqb x y | NT x, NT y => Nat.eqb x y | _, _ => false end.

(** ** Tokens: type plus the identity of the token object (its index in the scanned stream) *)
Record token := { ttype : nat; tid : nat }.
Definition EOFT : nat := 1.

(** the Scanner interface: the given tokens, then end-of-input for ever *)
Definition tok_at (input : list token) (i : nat) : token :=
  nth i input {| ttype := EOFT; tid := i |}.

(** ** Tables *)
Inductive act := Shift (s : nat) | Reduce (p : nat) | Accept.

Record prow := { p_nt : nat; p_len : nat; p_act : bool }.     (* NTType, NumSymbols, has an explicit action *)
Record srow := { s_actions : list (option act); s_recover : bool; s_gotos : list Z }.
Record tables := { t_states : list srow; t_prods : list prow; t_err : nat; t_gate : bool }.
(* t_err = token.TokMap.Type("error") : the number of the error terminal, 0 (INVALID) if there is none.
   t_gate = false for generated parsers; true for gocc's own front-end parser, whose Error() (after the fix
   for D9) additionally requires the canRecover flag of the state before shifting "error". *)

(** ** Attributes *)
Inductive attr :=
| ATok (t : token)                                   (* a terminal's attribute: the token object *)
| ANode (p : nat) (kids : list attr)                 (* value built by an explicit action *)
| ANil
| AErr (tok : token) (discarded : list attr) (expected : list nat).   (* *errors.Error pushed by recovery *)

Definition stack := list (nat * attr).                 (* head = top of stack *)

Record perror := { e_action : option nat;              (* Some i: the i-th explicit action call failed *)
                   e_tok : token; e_expected : list nat; e_top : nat }.
Inductive outcome := POk (res : attr) | PErr (e : perror) | PPanic (code : nat) | PFuel.

Record result := { r_out : outcome; r_log : list (nat * list attr); r_scans : nat }.

Section Parse.
Variable tb : tables.
(** user actions: [sem i p kids] = result of the [i]-th explicit action call, for production [p];
    [None] = the action returned a non-nil error *)
Variable sem : nat -> nat -> list attr -> option attr.
Variable input : list token.

Definition top (st : stack) : option nat := match st with [] => None | (s, _) :: _ => Some s end.

Definition action_at (s t : nat) : option (option act) :=
  match nth_error (t_states tb) s with
  | None => None
  | Some r => nth_error (s_actions r) t
  end.

Definition has_action (s t : nat) : bool :=
  match action_at s t with Some (Some _) => true | _ => false end.

Definition recover_at (s : nat) : bool :=
  match nth_error (t_states tb) s with Some r => s_recover r | None => false end.

Fixpoint expected_from (i : nat) (row : list (option act)) : list nat :=
  match row with
  | [] => []
  | Some _ :: t => i :: expected_from (S i) t
  | None :: t => expected_from (S i) t
  end.
Definition expected (s : nat) : list nat :=
  match nth_error (t_states tb) s with Some r => expected_from 0 (s_actions r) | None => [] end.

Definition goto_at (s nt : nat) : option Z :=
  match nth_error (t_states tb) s with
  | None => None
  | Some r => nth_error (s_gotos r) nt
  end.

(** firstRecoveryState: number of cells above the topmost state that can recover *)
Fixpoint find_recover (st : stack) (k : nat) : option nat :=
  match st with
  | [] => None
  | (s, _) :: rest => if recover_at s then Some k else find_recover rest (S k)
  end.

(** the input-skipping loop of Error: [next] is the current look-ahead, [pos] scans done so far *)
Fixpoint skip_input (fuel : nat) (s : nat) (next : token) (pos : nat) : option (bool * token * nat) :=
  if has_action s (ttype next) then Some (true, next, pos)
  else if Nat.eqb (ttype next) EOFT then Some (false, next, pos)
  else match fuel with
       | O => None
       | S f => skip_input f s (tok_at input pos) (S pos)
       end.

Inductive recovery :=
| Recovered (st : stack) (next : token) (pos : nat)
| NotRecovered (st : stack) (pos : nat)
| RecPanic (code : nat)
| RecFuel.

Definition error_step (fuel : nat) (st : stack) (next : token) (pos : nat) : recovery :=
  let '(removed, st1) :=
    match find_recover st 0 with
    | Some k => (rev (map snd (firstn k st)), skipn k st)
    | None => ([], st)
    end in
  match top st1 with
  | None => RecPanic 10
  | Some s1 =>
    let ea := AErr next removed (expected s1) in
    match action_at s1 (t_err tb) with
    | None => RecPanic 11
    | Some (Some (Shift s2)) =>
      if t_gate tb && negb (recover_at s1) then NotRecovered st1 pos else
      match skip_input fuel s2 next pos with
      | None => RecFuel
      | Some (true, next', pos') => Recovered ((s2, ea) :: st1) next' pos'
      | Some (false, _, pos') => NotRecovered ((s2, ea) :: st1) pos'
      end
    | Some _ => NotRecovered st1 pos
    end
  end.

Definition mk_error (a : option nat) (tok : token) (st : stack) : outcome :=
  match top st with
  | None => PPanic 12
  | Some s => PErr {| e_action := a; e_tok := tok; e_expected := expected s; e_top := s |}
  end.

Fixpoint run (fuel : nat) (st : stack) (next : token) (pos calls : nat) (log : list (nat * list attr))
  : result :=
  let fin o := {| r_out := o; r_log := rev log; r_scans := pos |} in
  match fuel with
  | O => fin PFuel
  | S f =>
    match top st with
    | None => fin (PPanic 1)
    | Some s =>
      match action_at s (ttype next) with
      | None => fin (PPanic 2)
      | Some None =>
        match error_step (S (length input)) st next pos with
        | Recovered st' next' pos' => run f st' next' pos' calls log
        | NotRecovered st' pos' =>
          {| r_out := mk_error None next st'; r_log := rev log; r_scans := pos' |}
        | RecPanic c => fin (PPanic c)
        | RecFuel => fin PFuel
        end
      | Some (Some Accept) =>
        match st with
        | (_, a) :: _ => fin (POk a)
        | [] => fin (PPanic 3)
        end
      | Some (Some (Shift s')) => run f ((s', ATok next) :: st) (tok_at input pos) (S pos) calls log
      | Some (Some (Reduce p)) =>
        match nth_error (t_prods tb) p with
        | None => fin (PPanic 4)
        | Some pr =>
          let n := p_len pr in
          if length st <? n then fin (PPanic 5) else
          let kids := rev (map snd (firstn n st)) in
          let st' := skipn n st in
          let '(res, calls', log') :=
            if p_act pr then (sem calls p kids, S calls, (p, kids) :: log)
            else (Some (match kids with [] => ANil | k :: _ => k end), calls, log) in
          match res with
          | None => {| r_out := mk_error (Some calls) next st'; r_log := rev log'; r_scans := pos |}
          | Some a =>
            match top st' with
            | None => fin (PPanic 6)
            | Some s0 =>
              match goto_at s0 (p_nt pr) with
              | None => fin (PPanic 7)
              | Some g =>
                if (g <? 0)%Z then {| r_out := PPanic 8; r_log := rev log'; r_scans := pos |}
                else run f ((Z.to_nat g, a) :: st') next pos calls' log'
              end
            end
          end
        end
      end
    end
  end.

(** Parse: Reset (the stack is re-initialised whatever it held), first Scan, loop. *)
Definition parse (fuel : nat) : result :=
  run fuel [(0, ANil)] (tok_at input 0) 1 0 [].

End Parse.

(** The explicit actions used by the correspondence harness: build a node; the [fail]-th
    explicit call (if any) returns an error. *)
Definition sem_node (fail : option nat) (i p : nat) (kids : list attr) : option attr :=
  match fail with
  | Some k => if Nat.eqb i k then None else Some (ANode p kids)
  | None => Some (ANode p kids)
  end.
