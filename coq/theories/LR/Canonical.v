(** Property C04: gocc's LR(1) automaton vs the canonical LR(1) collection.  Definitions only.

    1. THE SPECIFICATION (no tables, no automaton): the canonical collection of sets of LR(1)
       items, Dragon-book style, indexed by the symbol string [gamma] read so far ([CI]); the
       candidate parser actions of a set of items on a terminal ([spec_cand], mirroring
       [Item.action] of internal/parser/lr1/items/item.go); [canonical_conflict].
    2. THE DUMPED AUTOMATON: per state the item list (gocc's generation order, look-aheads
       included; [a_items] of an [annot], with the nullable flags and FIRST sets) and the
       transition map (an association list symbol -> target state).
    3. What gocc computes from it: the candidates of every (state, terminal) cell, folded by
       [Resolve.row_action] ([ItemSet.Action]); [gocc_reports] = the number of states with a
       non-empty conflict list, [None] if some cell makes gocc panic.
    4. The boolean check [auto_valid] relating 2 to 1 (proved in CanonicalProofs.v). *)
From Coq Require Import List Arith Bool.
From Gocc Require Import LR.Parse LR.Validate LR.Derive LR.Exact LR.Resolve.
Import ListNotations.

Definition INVALIDT : nat := 0.     (* token type 0 is "INVALID"; type 1 is end of input *)

(** * 1. Specification *)
Section Spec.
Variable g : grammar.

(** FIRST in the sentential-form sense (no productivity assumption): [first_ss beta b] iff
    [beta =>* T b :: delta] for some [delta] (proved in CanonicalProofs: [first_ss_sder]);
    nullability is [der g X []] / [ders g beta []] of Derive.v. *)
Inductive first_s : sym -> nat -> Prop :=
| fs_T a : first_s (T a) a
| fs_NT p pr b : nth_error g p = Some pr -> first_ss (rhs pr) b -> first_s (NT (lhs pr)) b
with first_ss : list sym -> nat -> Prop :=
| fss_here X beta b : first_s X b -> first_ss (X :: beta) b
| fss_skip X beta b : der g X [] -> first_ss beta b -> first_ss (X :: beta) b.

(** [b] is in FIRST(beta la) *)
Definition FIRST_sem (beta : list sym) (la b : nat) : Prop :=
  first_ss beta b \/ (ders g beta [] /\ b = la).

(** sentential derivations, for the adequacy statement of [first_ss] *)
Inductive sstep : list sym -> list sym -> Prop :=
| sstep_intro alpha p pr rest : nth_error g p = Some pr ->
    sstep (alpha ++ NT (lhs pr) :: rest) (alpha ++ rhs pr ++ rest).
Inductive sder : list sym -> list sym -> Prop :=
| sder_refl a : sder a a
| sder_step a b c : sstep a b -> sder b c -> sder a c.

(** the canonical collection: [CI gamma] is the set of items valid after reading [gamma] *)
Inductive CI : list sym -> item -> Prop :=
| CI_start : CI [] (0, 0, EOFT)
| CI_closure gamma p k la pr B q prq b :
    CI gamma (p, k, la) -> nth_error g p = Some pr -> nth_error (rhs pr) k = Some (NT B) ->
    nth_error g q = Some prq -> lhs prq = B ->
    FIRST_sem (skipn (S k) (rhs pr)) la b ->
    CI gamma (q, 0, b)
| CI_goto gamma p k la pr X :
    CI gamma (p, k, la) -> nth_error g p = Some pr -> nth_error (rhs pr) k = Some X ->
    CI (gamma ++ [X]) (p, S k, la).

(** kinds of actions (a shift is one action whatever its target) *)
Inductive sact := SAccept | SReduce (p : nat) | SShift.

(** [Item.action(sym)], over a set of items [S] and a terminal [a]:
    nothing on INVALID; accept on the complete start item with look-ahead and terminal EOF;
    otherwise reduce on a complete item whose look-ahead is [a]; shift when [T a] follows the dot *)
Definition spec_cand (S : item -> Prop) (a : nat) (x : sact) : Prop :=
  a <> INVALIDT /\
  match x with
  | SAccept => a = EOFT /\ exists pr0, nth_error g 0 = Some pr0 /\ S (0, length (rhs pr0), EOFT)
  | SReduce p => ~ (p = 0 /\ a = EOFT) /\ exists pr, nth_error g p = Some pr /\ S (p, length (rhs pr), a)
  | SShift => exists p k la pr, S (p, k, la) /\ nth_error g p = Some pr /\ nth_error (rhs pr) k = Some (T a)
  end.

(** a canonical state is a non-empty [CI gamma] *)
Definition canonical_state (gamma : list sym) : Prop := exists i, CI gamma i.

Definition canonical_conflict : Prop :=
  exists gamma a x y, canonical_state gamma /\ x <> y /\
                      spec_cand (CI gamma) a x /\ spec_cand (CI gamma) a y.

(** the conflicts on which gocc panics (in both modes): accept against anything else *)
Definition canonical_accept_conflict : Prop :=
  exists gamma a x, canonical_state gamma /\ x <> SAccept /\
                    spec_cand (CI gamma) a SAccept /\ spec_cand (CI gamma) a x.

End Spec.

(** * 2. The dumped automaton *)
Definition transitions := list (list (sym * nat)).     (* per state: symbol -> target *)

Fixpoint assoc (X : sym) (l : list (sym * nat)) : option nat :=
  match l with
  | [] => None
  | (Y, t) :: r => if sym_eqb X Y then Some t else assoc X r
  end.

Definition tr_at (tr : transitions) (s : nat) (X : sym) : option nat := assoc X (nth s tr []).

Fixpoint path_from (tr : transitions) (s : nat) (gamma : list sym) : option nat :=
  match gamma with
  | [] => Some s
  | X :: r => match tr_at tr s X with Some s' => path_from tr s' r | None => None end
  end.

(** the state reached from state 0 along [gamma] *)
Definition path (tr : transitions) (gamma : list sym) : option nat := path_from tr 0 gamma.

(** * 3. What gocc computes *)
Section Gocc.
Variable g : grammar.
Variable nterms : nat.              (* number of terminals, INVALID and EOF included *)
Variable an : annot.
Variable tr : transitions.

Definition nst : nat := length (a_items an).

(** [Item.action(sym, nextState)] *)
Definition cand (it : item) (a : nat) (ns : nat) : option act :=
  if Nat.eqb a INVALIDT then None else
  let '(p, k, la) := it in
  match nth_error g p with
  | None => None
  | Some pr =>
    if Nat.eqb p 0 && (length (rhs pr) <=? k) && Nat.eqb la EOFT && Nat.eqb a EOFT then Some Accept
    else if (length (rhs pr) <=? k) && Nat.eqb la a then Some (Reduce p)
    else match nth_error (rhs pr) k with
         | Some (T b) => if Nat.eqb b a then Some (Shift ns) else None
         | _ => None
         end
  end.

(** [this.Transitions[symbol]] : 0 when absent (Go map) *)
Definition target (s a : nat) : nat := match tr_at tr s (T a) with Some t => t | None => 0 end.

Definition cands (s a : nat) : list (option act) :=
  map (fun it => cand it a (target s a)) (items_of an s).

(** [ItemSet.Action(sym)] *)
Definition cell (s a : nat) : option (option act * list act) := row_action (cands s a).

Definition cell_panics (s a : nat) : bool := match cell s a with None => true | Some _ => false end.
Definition cell_conflict (s a : nat) : bool :=
  match cell s a with Some (_, _ :: _) => true | _ => false end.

Definition state_conflict (s : nat) : bool := existsb (cell_conflict s) (seq 0 nterms).

(** the number announced by gocc ("n LR-1 conflicts": the number of states with a conflict);
    [None]: gocc panics while resolving some cell *)
Definition gocc_reports : option nat :=
  if existsb (fun s => existsb (cell_panics s) (seq 0 nterms)) (seq 0 nst) then None
  else Some (length (filter state_conflict (seq 0 nst))).

(** * 4. The validator of the dump *)
Definition forall_st (f : nat -> bool) : bool := forallb f (seq 0 nst).
Definition forall_items (f : nat -> item -> bool) : bool :=
  forall_st (fun s => forallb (f s) (items_of an s)).

(** sizes and ranges: the two tables have the same number of rows, terminal numbers (of the
    grammar and of the look-aheads) are below [nterms] *)
Definition c_shape : bool :=
  (0 <? nst) && Nat.eqb (length tr) nst && (EOFT <? nterms) &&
  forallb (fun pr => forallb (fun X => match X with T a => a <? nterms | NT _ => true end) (rhs pr)) g &&
  forall_items (fun _ it => match it with (_, _, la) => la <? nterms end).

(** state 0: the start item, and dot-0 items only *)
Definition c_state0 : bool :=
  mem_item (0, 0, EOFT) (items_of an 0) &&
  forallb (fun it => match it with (_, k, _) => Nat.eqb k 0 end) (items_of an 0).

(** closed under closure w.r.t. the annotated FIRST *)
Definition c_closed : bool :=
  forall_items (fun s it => match it with (p, k, la) =>
    match nth_error g p with
    | Some pr =>
      match nth_error (rhs pr) k with
      | Some (NT B) =>
        forallb (fun q => forallb (fun b => mem_item (q, 0, b) (items_of an s))
                                  (first_seq an (skipn (S k) (rhs pr)) la)) (prods_of g B)
      | _ => true
      end
    | None => true
    end end).

(** every dot-0 item, except the start item in state 0, is justified by an earlier item *)
Fixpoint cjust_list (is0 : bool) (earlier rest : list item) : bool :=
  match rest with
  | [] => true
  | it :: rest' =>
    (let '(q, k, b) := it in
     match k with
     | O => (is0 && Nat.eqb q 0 && Nat.eqb b EOFT) || existsb (just_by g an q b) earlier
     | S _ => true
     end) && cjust_list is0 (it :: earlier) rest'
  end.
Definition c_just : bool := forall_st (fun s => cjust_list (Nat.eqb s 0) [] (items_of an s)).

(** an item with [X] after the dot: the transition on [X] exists and its target holds the
    advanced item *)
Definition c_goto_fwd : bool :=
  forall_items (fun s it => match it with (p, k, la) =>
    match nth_error g p with
    | Some pr =>
      match nth_error (rhs pr) k with
      | Some X => match tr_at tr s X with
                  | Some s' => (s' <? nst) && mem_item (p, S k, la) (items_of an s')
                  | None => false
                  end
      | None => true
      end
    | None => true
    end end).

(** every transition [s -X-> s']: some item of [s] expects [X]; every kernel item of [s'] is
    the advance over [X] of an item of [s] *)
Definition c_goto_bwd : bool :=
  forall_st (fun s => forallb (fun Xt =>
    let '(X, s') := Xt in
    (s' <? nst) &&
    existsb (fun it => match it with (p, k, _) =>
               match nth_error g p with
               | Some pr => match nth_error (rhs pr) k with Some Y => sym_eqb X Y | None => false end
               | None => false end end) (items_of an s) &&
    forallb (fun it => match it with
               | (p, S k, la) =>
                 match nth_error g p with
                 | Some pr => match nth_error (rhs pr) k with
                              | Some Y => sym_eqb X Y && mem_item (p, k, la) (items_of an s)
                              | None => false end
                 | None => false end
               | (_, O, _) => true
               end) (items_of an s')) (nth s tr [])).

(** reachability certificate: every state but 0 is the target of a transition of an
    earlier state (gocc numbers the states in discovery order) *)
Definition c_reach : bool :=
  forallb (fun s => existsb (fun s' => existsb (fun Xt =>
             Nat.eqb (snd Xt) s && match tr_at tr s' (fst Xt) with Some t => Nat.eqb t s | None => false end)
             (nth s' tr [])) (seq 0 s)) (seq 1 (nst - 1)).

(** FIRST computed by iteration (sentential-form sense: no productivity filter) *)
Definition cfirst_step (nn : nat) (F : list (list nat)) : list (list nat) :=
  map (fun n => dedup (flat_map (fun pr => if Nat.eqb (lhs pr) n then first_rhs an F (rhs pr) else []) g))
      (seq 0 nn).
Fixpoint cfirst_iter (nn k : nat) : list (list nat) :=
  match k with O => [] | S k' => cfirst_step nn (cfirst_iter nn k') end.

(** the annotated FIRST sets are contained in the computed ones (with [f_first]: exact) *)
Definition c_first : bool :=
  let nn := length (a_first an) in
  let F := cfirst_iter nn (length g) in
  forallb (fun n => forallb (fun a => mem_nat a (nth n F [])) (first_nt an n)) (seq 0 nn).

Definition auto_valid : bool :=
  c_shape && c_state0 && f_first g an && x_null g an && c_first &&
  c_closed && c_just && c_goto_fwd && c_goto_bwd && c_reach.

End Gocc.
