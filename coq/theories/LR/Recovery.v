(** Property C07 (error recovery), parts 1, 2 and the unconditional half of 5:

    - [C07_no_panic]   : for ANY tables passing [valid_backward] (recovery enabled, no extra
                         check), [parse] never panics, on any input whose token types are columns
                         of the action table, for any user actions and any fuel;
    - the step specification of recovery: [error_step] (= Go's [Error()], [popNonRecoveryStates],
      [firstRecoveryState]) is characterised by the relations [skip_rel] / [recovers] /
      [gives_up]; what [run] does with it ([run_recovers], [run_gives_up]);
    - [skip_input_total] / [error_step_not_fuel] : the input-skipping loop always ends.

    Token conservation is in RecoveryToks.v, inertness in RecoveryInert.v, full termination
    (canonical tables) in RecoveryTerm.v. *)
From Coq Require Import List Arith ZArith Lia Bool.
From Gocc Require Import LR.Parse LR.Validate LR.ValidateProofs.
Import ListNotations.

(** * Generic list facts *)
Lemma skipn_app_le_r {A} (l1 l2 : list A) n : n <= length l1 -> skipn n (l1 ++ l2) = skipn n l1 ++ l2.
Proof. intros H. rewrite skipn_app. replace (n - length l1) with 0 by lia. reflexivity. Qed.

Lemma firstn_app_le_r {A} (l1 l2 : list A) n : n <= length l1 -> firstn n (l1 ++ l2) = firstn n l1.
Proof. intros H. rewrite firstn_app. replace (n - length l1) with 0 by lia. simpl. apply app_nil_r. Qed.

Lemma firstn_snoc_r {A} (l : list A) k x : nth_error l k = Some x -> firstn (S k) l = firstn k l ++ [x].
Proof.
  revert k. induction l as [|y l IH]; intros [|k] H; simpl in *; try discriminate.
  - inversion H; reflexivity.
  - f_equal. apply IH. exact H.
Qed.

Lemma skipn_skipn_r {A} (l : list A) : forall a b, skipn a (skipn b l) = skipn (b + a) l.
Proof.
  induction l as [|x l IH]; intros a b.
  - now rewrite !skipn_nil.
  - destruct b as [|b]; [reflexivity|]. simpl. apply IH.
Qed.

(** * The recovery depth: number of cells above the topmost cell whose state can recover
      (0 if there is none: nothing is popped) *)
Section Depth.
Variable tb : tables.

Definition rec_k (st : stack) : nat :=
  match find_recover tb st 0 with Some k => k | None => 0 end.

Lemma find_recover_shift st : forall j, find_recover tb st (S j) = option_map S (find_recover tb st j).
Proof.
  induction st as [|[s a] st IH]; intros j; simpl; [reflexivity|].
  destruct (recover_at tb s); [reflexivity|]. apply IH.
Qed.

(** [find_recover st 0 = Some k]: cell number [k] (from the top) is the first whose state has
    the recovery flag *)
Lemma find_recover_spec st k :
  find_recover tb st 0 = Some k <->
  (exists c, nth_error st k = Some c /\ recover_at tb (fst c) = true) /\
  (forall j c, j < k -> nth_error st j = Some c -> recover_at tb (fst c) = false).
Proof.
  revert k. induction st as [|[s a] st IH]; intros k; simpl.
  - split; [discriminate|]. intros [(c & H & _) _]. destruct k; discriminate.
  - destruct (recover_at tb s) eqn:E.
    + split.
      * intros H; inversion H; subst k. split; [exists (s, a); auto|]. intros j c Hj; lia.
      * intros [_ H]. destruct k as [|k]; [reflexivity|].
        specialize (H 0 (s, a) (Nat.lt_0_succ _) eq_refl). simpl in H. congruence.
    + rewrite find_recover_shift. split.
      * intros H. destruct (find_recover tb st 0) as [k0|] eqn:E0; [|discriminate].
        simpl in H. inversion H; subst k. destruct (proj1 (IH k0) eq_refl) as [H1 H2].
        split; [exact H1|]. intros [|j] c Hj Hn; simpl in Hn.
        -- inversion Hn; subst c. exact E.
        -- eapply H2; [|exact Hn]. lia.
      * intros [(c & H1 & H1') H2]. destruct k as [|k].
        -- simpl in H1. inversion H1; subst c. simpl in H1'. congruence.
        -- simpl in H1. rewrite (proj2 (IH k)); [reflexivity|]. split; [eauto|].
           intros j c' Hj Hn. apply (H2 (S j) c'); [lia|exact Hn].
Qed.

Lemma find_recover_none_spec st :
  find_recover tb st 0 = None <-> forall c, In c st -> recover_at tb (fst c) = false.
Proof.
  induction st as [|[s a] st IH]; simpl.
  - split; [intros _ c []|reflexivity].
  - destruct (recover_at tb s) eqn:E.
    + split; [discriminate|]. intros H. specialize (H (s, a) (or_introl eq_refl)). simpl in H. congruence.
    + rewrite find_recover_shift. destruct (find_recover tb st 0) as [k|] eqn:E0; simpl.
      * split; [discriminate|]. intros H. assert (H' : Some k = None); [|discriminate].
        apply IH. intros c Hc. apply H. now right.
      * split; [|reflexivity]. intros _ c [<-|Hc]; [exact E|]. now apply (proj1 IH).
Qed.

Lemma rec_k_lt st : st <> [] -> rec_k st < length st.
Proof.
  intros Hne. unfold rec_k. destruct (find_recover tb st 0) as [k|] eqn:E.
  - apply find_recover_spec in E. destruct E as [(c & Hc & _) _].
    apply nth_error_Some. congruence.
  - destruct st; [congruence|simpl; lia].
Qed.

End Depth.

(** * The input-skipping loop *)
Section Skip.
Variable tb : tables.
Variable input : list token.

Lemma skip_input_eq fuel s next pos :
  skip_input tb input fuel s next pos =
  if has_action tb s (ttype next) then Some (true, next, pos)
  else if Nat.eqb (ttype next) EOFT then Some (false, next, pos)
  else match fuel with
       | O => None
       | S f => skip_input tb input f s (tok_at input pos) (S pos)
       end.
Proof. destruct fuel; reflexivity. Qed.

(** the relational reading of the loop, [found = true]: a token with an action was found;
    [found = false]: the end of the input came first *)
Inductive skip_rel (s : nat) : token -> nat -> bool -> token -> nat -> Prop :=
| sk_found next pos :
    has_action tb s (ttype next) = true -> skip_rel s next pos true next pos
| sk_eof next pos :
    has_action tb s (ttype next) = false -> ttype next = EOFT -> skip_rel s next pos false next pos
| sk_drop next pos b next' pos' :
    has_action tb s (ttype next) = false -> ttype next <> EOFT ->
    skip_rel s (tok_at input pos) (S pos) b next' pos' ->
    skip_rel s next pos b next' pos'.

Lemma skip_input_rel s : forall fuel next pos b next' pos',
  skip_input tb input fuel s next pos = Some (b, next', pos') -> skip_rel s next pos b next' pos'.
Proof.
  induction fuel as [|f IH]; intros next pos b next' pos' H; rewrite skip_input_eq in H;
    destruct (has_action tb s (ttype next)) eqn:Ea.
  - inversion H; subst. now constructor.
  - destruct (Nat.eqb (ttype next) EOFT) eqn:Ee; [|discriminate].
    inversion H; subst. apply Nat.eqb_eq in Ee. now constructor.
  - inversion H; subst. now constructor.
  - destruct (Nat.eqb (ttype next) EOFT) eqn:Ee.
    + inversion H; subst. apply Nat.eqb_eq in Ee. now constructor.
    + apply Nat.eqb_neq in Ee. apply sk_drop; auto.
Qed.

Lemma skip_rel_input s next pos b next' pos' :
  skip_rel s next pos b next' pos' ->
  pos <= pos' /\ forall fuel, pos' - pos <= fuel -> skip_input tb input fuel s next pos = Some (b, next', pos').
Proof.
  induction 1 as [next pos Ha|next pos Ha He|next pos b next' pos' Ha He Hr [IH1 IH2]].
  - split; [lia|]. intros fuel _. now rewrite skip_input_eq, Ha.
  - split; [lia|]. intros fuel _. rewrite skip_input_eq, Ha. apply Nat.eqb_eq in He. now rewrite He.
  - split; [lia|]. intros fuel Hf. rewrite skip_input_eq, Ha. apply Nat.eqb_neq in He. rewrite He.
    destruct fuel as [|f]; [lia|]. apply IH2. lia.
Qed.

(** the tokens inspected by the loop: first the offending token, then the tokens scanned next *)
Definition look (next : token) (pos j : nat) : token :=
  match j with O => next | S j' => tok_at input (pos + j') end.

(** [skip_rel] in closed form: exactly [n = pos' - pos] tokens are dropped (none of them has an
    action in [s], none is the end of input), the [n]-th inspected token is the new look-ahead *)
Lemma skip_rel_look s next pos b next' pos' :
  skip_rel s next pos b next' pos' <->
  exists n, pos' = pos + n /\ next' = look next pos n /\
    (forall j, j < n -> has_action tb s (ttype (look next pos j)) = false /\
                        ttype (look next pos j) <> EOFT) /\
    (if b then has_action tb s (ttype next') = true
     else has_action tb s (ttype next') = false /\ ttype next' = EOFT).
Proof.
  split.
  - induction 1 as [next pos Ha|next pos Ha He|next pos b next' pos' Ha He Hr IH].
    + exists 0. rewrite Nat.add_0_r. split; [reflexivity|]. split; [reflexivity|].
      split; [intros j Hj; lia|exact Ha].
    + exists 0. rewrite Nat.add_0_r. split; [reflexivity|]. split; [reflexivity|].
      split; [intros j Hj; lia|split; assumption].
    + destruct IH as (n & -> & -> & Hd & Hb). exists (S n). split; [lia|]. split; [|split].
      * destruct n as [|n]; simpl; [now rewrite Nat.add_0_r|]. f_equal. lia.
      * intros [|j] Hj; [simpl; auto|]. specialize (Hd j ltac:(lia)).
        destruct j as [|j']; simpl in *; [now rewrite Nat.add_0_r|].
        replace (pos + S j') with (S (pos + j')) by lia. exact Hd.
      * exact Hb.
  - intros (n & -> & -> & Hd & Hb). revert next pos Hd Hb.
    induction n as [|n IH]; intros next pos Hd Hb.
    + rewrite Nat.add_0_r. simpl in *. destruct b; [now constructor|destruct Hb; now constructor].
    + destruct (Hd 0 (Nat.lt_0_succ _)) as [Ha He]. simpl in Ha, He.
      replace (pos + S n) with (S pos + n) by lia.
      assert (Hl : forall j, look next pos (S j) = look (tok_at input pos) (S pos) j).
      { intros [|j]; simpl; [now rewrite Nat.add_0_r|]. f_equal. lia. }
      rewrite Hl in *. apply sk_drop; auto. apply IH; auto.
      intros j Hj. rewrite <- Hl. apply Hd. lia.
Qed.

Lemma tok_at_overflow i : length input <= i -> ttype (tok_at input i) = EOFT.
Proof. intros H. unfold tok_at. now rewrite nth_overflow. Qed.

(** the look-ahead stays "the last token scanned"; positions only grow, and never beyond the
    end-of-input token *)
Lemma skip_rel_pos s next pos b next' pos' :
  skip_rel s next pos b next' pos' ->
  1 <= pos -> next = tok_at input (pos - 1) ->
  pos <= pos' /\ next' = tok_at input (pos' - 1) /\
  (pos <= S (length input) -> pos' <= S (length input)).
Proof.
  induction 1 as [next pos Ha|next pos Ha He|next pos b next' pos' Ha He Hr IH]; intros Hp Hn.
  - auto.
  - auto.
  - destruct IH as (H1 & H2 & H3); [lia|f_equal; lia|]. split; [lia|]. split; [exact H2|].
    intros Hle. apply H3.
    destruct (Nat.lt_ge_cases (pos - 1) (length input)) as [Hlt|Hge]; [lia|].
    exfalso. apply He. rewrite Hn. apply tok_at_overflow. exact Hge.
Qed.

(** ** the loop always ends: [S (length input)] units of fuel are enough from any position *)
Lemma skip_input_some s : forall fuel pos,
  length input <= pos + fuel -> exists r, skip_input tb input fuel s (tok_at input pos) (S pos) = Some r.
Proof.
  induction fuel as [|f IH]; intros pos H; rewrite skip_input_eq.
  - rewrite (tok_at_overflow pos) by lia. simpl.
    destruct (has_action tb s EOFT); eauto.
  - destruct (has_action tb s (ttype (tok_at input pos))); [eauto|].
    destruct (Nat.eqb (ttype (tok_at input pos)) EOFT) eqn:E; [eauto|].
    apply IH. lia.
Qed.

Theorem skip_input_total s next pos :
  exists b next' pos', skip_input tb input (S (length input)) s next pos = Some (b, next', pos').
Proof.
  assert (H : exists r, skip_input tb input (S (length input)) s next pos = Some r).
  { rewrite skip_input_eq.
    destruct (has_action tb s (ttype next)); [eauto|].
    destruct (Nat.eqb (ttype next) EOFT); [eauto|].
    apply skip_input_some. lia. }
  destruct H as [[[b n'] p'] H]. eauto.
Qed.

Lemma skip_input_range n s : forall fuel next pos b next' pos',
  (forall i, ttype (tok_at input i) < n) -> ttype next < n ->
  skip_input tb input fuel s next pos = Some (b, next', pos') -> ttype next' < n.
Proof.
  induction fuel as [|f IH]; intros next pos b next' pos' Hin Hn H; rewrite skip_input_eq in H;
    destruct (has_action tb s (ttype next)); try (inversion H; subst; exact Hn);
    destruct (Nat.eqb (ttype next) EOFT); try (inversion H; subst; exact Hn); try discriminate.
  eapply IH; [exact Hin| |exact H]. apply Hin.
Qed.

End Skip.

(** * [error_step] in normal form, and its relational specification *)
Section ErrorStep.
Variable tb : tables.
Variable input : list token.

Lemma error_step_eq fuel st next pos :
  error_step tb input fuel st next pos =
  let k := rec_k tb st in
  let st1 := skipn k st in
  match top st1 with
  | None => RecPanic 10
  | Some s1 =>
    let ea := AErr next (rev (map snd (firstn k st))) (expected tb s1) in
    match action_at tb s1 (t_err tb) with
    | None => RecPanic 11
    | Some (Some (Shift s2)) =>
      if t_gate tb && negb (recover_at tb s1) then NotRecovered st1 pos else
      match skip_input tb input fuel s2 next pos with
      | None => RecFuel
      | Some (true, next', pos') => Recovered ((s2, ea) :: st1) next' pos'
      | Some (false, _, pos') => NotRecovered ((s2, ea) :: st1) pos'
      end
    | Some _ => NotRecovered st1 pos
    end
  end.
Proof.
  unfold error_step, rec_k. destruct (find_recover tb st 0) as [k|]; reflexivity.
Qed.

(** [recovers st next pos st' next' pos']: what a successful recovery does.
    [k] cells are popped, where [k] = number of cells above the topmost cell whose state has the
    recovery flag (0 if no cell has it); the state [s1] then on top must shift the error terminal,
    to [s2]; the pushed attribute records the offending token [next], the attributes of the popped
    cells bottom-to-top, and the expected terminals of [s1]; then input is skipped ([skip_rel]),
    starting with the offending token itself. *)
Inductive recovers (st : stack) (next : token) (pos : nat) : stack -> token -> nat -> Prop :=
| recovers_intro s1 s2 next' pos' :
    top (skipn (rec_k tb st) st) = Some s1 ->
    action_at tb s1 (t_err tb) = Some (Some (Shift s2)) ->
    t_gate tb && negb (recover_at tb s1) = false ->
    skip_rel tb input s2 next pos true next' pos' ->
    recovers st next pos
      ((s2, AErr next (rev (map snd (firstn (rec_k tb st) st))) (expected tb s1))
         :: skipn (rec_k tb st) st) next' pos'.

(** [gives_up st next pos st' pos']: recovery fails, with the stack left as [st'] *)
Inductive gives_up (st : stack) (next : token) (pos : nat) : stack -> nat -> Prop :=
| gives_up_noshift s1 a :                (* the state does not shift the error terminal *)
    top (skipn (rec_k tb st) st) = Some s1 ->
    action_at tb s1 (t_err tb) = Some a -> (forall s2, a <> Some (Shift s2)) ->
    gives_up st next pos (skipn (rec_k tb st) st) pos
| gives_up_gate s1 s2 :                  (* front-end parser only: the flag is required *)
    top (skipn (rec_k tb st) st) = Some s1 ->
    action_at tb s1 (t_err tb) = Some (Some (Shift s2)) ->
    t_gate tb && negb (recover_at tb s1) = true ->
    gives_up st next pos (skipn (rec_k tb st) st) pos
| gives_up_eof s1 s2 next' pos' :        (* the input ends before an acceptable token is found *)
    top (skipn (rec_k tb st) st) = Some s1 ->
    action_at tb s1 (t_err tb) = Some (Some (Shift s2)) ->
    t_gate tb && negb (recover_at tb s1) = false ->
    skip_rel tb input s2 next pos false next' pos' ->
    gives_up st next pos
      ((s2, AErr next (rev (map snd (firstn (rec_k tb st) st))) (expected tb s1))
         :: skipn (rec_k tb st) st) pos'.

Theorem error_step_recovered st next pos st' next' pos' :
  error_step tb input (S (length input)) st next pos = Recovered st' next' pos' <->
  recovers st next pos st' next' pos'.
Proof.
  rewrite error_step_eq. cbv zeta. split.
  - destruct (top (skipn (rec_k tb st) st)) as [s1|] eqn:Et; [|discriminate].
    destruct (action_at tb s1 (t_err tb)) as [[[s2|p|]|]|] eqn:Ea; try discriminate.
    destruct (t_gate tb && negb (recover_at tb s1)) eqn:Eg; [discriminate|].
    destruct (skip_input tb input (S (length input)) s2 next pos) as [[[b n'] p']|] eqn:Es; [|discriminate].
    destruct b; [|discriminate]. intros H; inversion H; subst.
    apply skip_input_rel in Es. econstructor; eauto.
  - intros H. destruct H as [s1 s2 next' pos' Et Ea Eg Hs].
    rewrite Et, Ea, Eg.
    destruct (skip_input_total tb input s2 next pos) as (b & n' & p' & Es). rewrite Es.
    pose proof (skip_input_rel _ _ _ _ _ _ _ _ _ Es) as Hs'.
    destruct (skip_rel_input _ _ _ _ _ _ _ _ Hs) as [_ Hf].
    destruct (skip_rel_input _ _ _ _ _ _ _ _ Hs') as [_ Hf'].
    specialize (Hf (pos' - pos + (p' - pos)) ltac:(lia)).
    specialize (Hf' (pos' - pos + (p' - pos)) ltac:(lia)).
    rewrite Hf in Hf'. inversion Hf'; subst. reflexivity.
Qed.

Theorem error_step_not_recovered st next pos st' pos' :
  error_step tb input (S (length input)) st next pos = NotRecovered st' pos' <->
  gives_up st next pos st' pos'.
Proof.
  rewrite error_step_eq. cbv zeta. split.
  - destruct (top (skipn (rec_k tb st) st)) as [s1|] eqn:Et; [|discriminate].
    destruct (action_at tb s1 (t_err tb)) as [[[s2|p|]|]|] eqn:Ea; try discriminate.
    + destruct (t_gate tb && negb (recover_at tb s1)) eqn:Eg.
      * intros H; inversion H; subst. eapply gives_up_gate; eauto.
      * destruct (skip_input tb input (S (length input)) s2 next pos) as [[[b n'] p']|] eqn:Es; [|discriminate].
        destruct b; [discriminate|]. intros H; inversion H; subst.
        apply skip_input_rel in Es. eapply gives_up_eof; eauto.
    + intros H; inversion H; subst. eapply gives_up_noshift; eauto. intros s2; discriminate.
    + intros H; inversion H; subst. eapply gives_up_noshift; eauto. intros s2; discriminate.
    + intros H; inversion H; subst. eapply gives_up_noshift; eauto. intros s2; discriminate.
  - intros H. destruct H as [s1 a Et Ea Hns|s1 s2 Et Ea Eg|s1 s2 next' pos' Et Ea Eg Hs]; rewrite Et, Ea.
    + destruct a as [[s2|p|]|]; try reflexivity. exfalso. now apply (Hns s2).
    + now rewrite Eg.
    + rewrite Eg.
      destruct (skip_input_total tb input s2 next pos) as (b & n' & p' & Es). rewrite Es.
      pose proof (skip_input_rel _ _ _ _ _ _ _ _ _ Es) as Hs'.
      destruct (skip_rel_input _ _ _ _ _ _ _ _ Hs) as [_ Hf].
      destruct (skip_rel_input _ _ _ _ _ _ _ _ Hs') as [_ Hf'].
      specialize (Hf (pos' - pos + (p' - pos)) ltac:(lia)).
      specialize (Hf' (pos' - pos + (p' - pos)) ltac:(lia)).
      rewrite Hf in Hf'. inversion Hf'; subst. reflexivity.
Qed.

(** the input-skipping loop never runs out of fuel *)
Theorem error_step_not_fuel st next pos :
  error_step tb input (S (length input)) st next pos <> RecFuel.
Proof.
  rewrite error_step_eq. cbv zeta.
  destruct (top (skipn (rec_k tb st) st)) as [s1|]; [|discriminate].
  destruct (action_at tb s1 (t_err tb)) as [[[s2|p|]|]|]; try discriminate.
  destruct (t_gate tb && negb (recover_at tb s1)); [discriminate|].
  destruct (skip_input_total tb input s2 next pos) as (b & n' & p' & Es). rewrite Es.
  destruct b; discriminate.
Qed.

(** ** what [run] does at a nil action *)
Variable sem : nat -> nat -> list attr -> option attr.

Lemma run_nil_action f st s next pos calls log :
  top st = Some s -> action_at tb s (ttype next) = Some None ->
  run tb sem input (S f) st next pos calls log =
  match error_step tb input (S (length input)) st next pos with
  | Recovered st' next' pos' => run tb sem input f st' next' pos' calls log
  | NotRecovered st' pos' =>
    {| r_out := mk_error tb None next st'; r_log := rev log; r_scans := pos' |}
  | RecPanic c => {| r_out := PPanic c; r_log := rev log; r_scans := pos |}
  | RecFuel => {| r_out := PFuel; r_log := rev log; r_scans := pos |}
  end.
Proof. intros Ht Ha. cbn [run]. rewrite Ht, Ha. reflexivity. Qed.

(** successful recovery: the parse continues with the new stack and look-ahead; no action is
    called, the log is unchanged; [pos' - pos] tokens were scanned and dropped *)
Theorem run_recovers f st s next pos calls log st' next' pos' :
  top st = Some s -> action_at tb s (ttype next) = Some None ->
  recovers st next pos st' next' pos' ->
  run tb sem input (S f) st next pos calls log = run tb sem input f st' next' pos' calls log.
Proof.
  intros Ht Ha Hr. rewrite (run_nil_action _ _ _ _ _ _ _ Ht Ha).
  apply error_step_recovered in Hr. now rewrite Hr.
Qed.

(** failed recovery: the parse ends at once with an error carrying the offending token, the
    expected terminals and number of the state left on top; no further action call *)
Theorem run_gives_up f st s next pos calls log st' pos' :
  top st = Some s -> action_at tb s (ttype next) = Some None ->
  gives_up st next pos st' pos' ->
  exists s', top st' = Some s' /\
    run tb sem input (S f) st next pos calls log =
    {| r_out := PErr {| e_action := None; e_tok := next; e_expected := expected tb s'; e_top := s' |};
       r_log := rev log; r_scans := pos' |}.
Proof.
  intros Ht Ha Hg. rewrite (run_nil_action _ _ _ _ _ _ _ Ht Ha).
  assert (Hs : exists s', top st' = Some s').
  { destruct Hg as [s1 a Et _ _|s1 s2 Et _ _|s1 s2 next' pos' _ _ _ _]; cbn [top]; eauto. }
  destruct Hs as [s' Hs]. exists s'. split; [exact Hs|].
  apply error_step_not_recovered in Hg. rewrite Hg. unfold mk_error. now rewrite Hs.
Qed.

(** ** the same under the recovery-flag checks: the crisp statement of the property *)
(** [x_recover_conv]: every state that shifts the error terminal is flagged.  Together with
    [x_recover] of Exact.v (flagged only if it shifts the error terminal) the flag is EXACTLY
    "the state shifts the error terminal". *)
Definition x_recover_conv : bool :=
  forallb (fun r => implb (match nth_error (s_actions r) (t_err tb) with
                           | Some (Some (Shift _)) => true | _ => false end)
                          (s_recover r)) (t_states tb).

Definition x_recover' : bool :=     (* = Exact.x_recover, repeated to keep this file independent *)
  forallb (fun r => implb (s_recover r)
                          (match nth_error (s_actions r) (t_err tb) with
                           | Some (Some (Shift _)) => true | _ => false end)) (t_states tb).

Lemma x_recover_conv_P : x_recover_conv = true ->
  forall s s2, action_at tb s (t_err tb) = Some (Some (Shift s2)) -> recover_at tb s = true.
Proof.
  unfold x_recover_conv, action_at, recover_at. rewrite forallb_forall. intros H s s2 Ha.
  destruct (nth_error (t_states tb) s) as [r|] eqn:E; [|discriminate].
  specialize (H _ (nth_error_In _ _ E)). rewrite Ha in H. exact H.
Qed.

Lemma x_recover'_P : x_recover' = true ->
  forall s, recover_at tb s = true -> exists s2, action_at tb s (t_err tb) = Some (Some (Shift s2)).
Proof.
  unfold x_recover', action_at, recover_at. rewrite forallb_forall. intros H s Hr.
  destruct (nth_error (t_states tb) s) as [r|] eqn:E; [|discriminate].
  specialize (H _ (nth_error_In _ _ E)). rewrite Hr in H. simpl in H.
  destruct (nth_error (s_actions r) (t_err tb)) as [[[s2|p|]|]|]; try discriminate. eauto.
Qed.

End ErrorStep.

(** * No panic, with recovery enabled *)
Section NoPanic.
Variable g : grammar.
Variable tb : tables.
Variable an : annot.
Variable sem : nat -> nat -> list attr -> option attr.
Variable input : list token.

Hypothesis SH : shape_P g tb an.
Hypothesis BW : backward_P g tb an.
Hypothesis INR : Forall (fun t => ttype t < nterms tb) input.   (* token types are columns of the table *)

Notation items_of := (items_of an).

Definition tops (cells : stack) : nat := match cells with [] => 0 | (s, _) :: _ => s end.

(** the structural stack invariant: the cells above the bottom cell (top first) are a path of
    transitions of the automaton from state 0; ghost: the symbols labelling the path (top first).
    Nothing is said about attributes or consumed input: it survives popping and the shift of the
    error terminal. *)
Inductive wfp : stack -> list sym -> Prop :=
| wfp_nil : wfp [] []
| wfp_cons s a cells sg X :
    wfp cells sg -> trans tb (tops cells) X = Some s -> wfp ((s, a) :: cells) (X :: sg).

Lemma wfp_length cells sg : wfp cells sg -> length sg = length cells.
Proof. induction 1; simpl; congruence. Qed.

Lemma wfp_skipn cells sg : wfp cells sg -> forall k, wfp (skipn k cells) (skipn k sg).
Proof.
  induction 1 as [|s a cells sg X Hwf IH Htr]; intros k.
  - rewrite !skipn_nil. constructor.
  - destruct k as [|k]; [simpl; econstructor; eauto|]. simpl. apply IH.
Qed.

Lemma wfp_states cells sg : wfp cells sg -> Forall (fun c => fst c < nstates tb) cells.
Proof.
  induction 1 as [|s a cells sg X Hwf IH Htr]; constructor; [|exact IH].
  simpl. destruct (trans_range _ _ _ SH _ _ _ Htr) as (_ & H & _). exact H.
Qed.

Lemma tops_lt cells sg : wfp cells sg -> tops cells < nstates tb.
Proof.
  intros H. destruct cells as [|[s a] cells]; simpl; [exact (sh_pos _ _ _ SH)|].
  apply wfp_states in H. inversion H; subst. assumption.
Qed.

Lemma tops_0 cells sg : wfp cells sg -> tops cells = 0 -> cells = [].
Proof.
  intros H. destruct H as [|s a cells sg X Hwf Htr]; [reflexivity|].
  simpl. intros ->. destruct (B_kernel _ _ _ BW _ _ _ Htr) as [Hne _]. congruence.
Qed.

Lemma top_app_bottom cells : top (cells ++ [(0, ANil)]) = Some (tops cells).
Proof. destruct cells as [|[s a] cells]; reflexivity. Qed.

(** key lemma ([item_prefix] of Sound.v without yields): an item with the dot at [k] in the top
    state: at least [k] cells, labelled by the first [k] body symbols, and the state below them
    holds the dot-0 item *)
Lemma item_prefix_p : forall cells sg, wfp cells sg ->
  forall p k la pr, In (p, k, la) (items_of (tops cells)) -> nth_error g p = Some pr ->
  k <= length cells /\ rev (firstn k sg) = firstn k (rhs pr) /\
  In (p, 0, la) (items_of (tops (skipn k cells))).
Proof.
  intros cells sg Hwf. induction Hwf as [|s a cells sg X Hwf IH Htr]; intros p k la pr Hin Hp.
  - simpl in Hin. apply (B_init _ _ _ BW) in Hin as Hk. subst k. simpl. auto.
  - destruct k as [|k]; [simpl; split; [lia|]; split; [reflexivity|exact Hin]|].
    change (tops ((s, a) :: cells)) with s in Hin.
    destruct (B_kernel _ _ _ BW _ _ _ Htr) as [_ Hk].
    destruct (Hk _ _ _ Hin) as (pr' & Hp' & Hnth & Hin').
    rewrite Hp in Hp'. inversion Hp'; subst pr'. clear Hp'.
    destruct (IH _ _ _ _ Hin' Hp) as (Hlen & Hsy & Hin0).
    split; [simpl; lia|]. split; [|exact Hin0].
    cbn [firstn rev]. rewrite Hsy. symmetry. apply firstn_snoc_r. exact Hnth.
Qed.

Lemma action_at_some s a : s < nstates tb -> a < nterms tb -> exists x, action_at tb s a = Some x.
Proof.
  intros Hs Ha. unfold action_at, nstates in *.
  destruct (nth_error (t_states tb) s) as [r|] eqn:E; [|apply nth_error_None in E; lia].
  destruct (sh_rows _ _ _ SH s r E) as (Hl & _).
  destruct (nth_error (s_actions r) a) as [x|] eqn:E2; [eauto|]. apply nth_error_None in E2. lia.
Qed.

Lemma tok_type_lt pos : ttype (tok_at input pos) < nterms tb.
Proof.
  unfold tok_at. destruct (Nat.lt_ge_cases pos (length input)) as [Hlt|Hge].
  - rewrite Forall_forall in INR. apply INR. apply nth_In. exact Hlt.
  - rewrite nth_overflow by exact Hge. simpl. unfold EOFT. exact (sh_terms _ _ _ SH).
Qed.

(** popping to the recovery state keeps a stack of the same kind *)
Lemma rec_k_cells cells : rec_k tb (cells ++ [(0, ANil)]) <= length cells.
Proof.
  assert (H : rec_k tb (cells ++ [(0, ANil)]) < length (cells ++ [(0, ANil)])).
  { apply rec_k_lt. destruct cells; discriminate. }
  rewrite app_length in H. simpl in H. lia.
Qed.

(** [error_step] preserves the invariant, and never panics *)
Lemma error_step_wfp fuel cells sg next pos :
  wfp cells sg -> ttype next < nterms tb ->
  match error_step tb input fuel (cells ++ [(0, ANil)]) next pos with
  | Recovered st' next' pos' =>
    exists cells' sg', st' = cells' ++ [(0, ANil)] /\ wfp cells' sg' /\ ttype next' < nterms tb
  | NotRecovered st' pos' => exists s, top st' = Some s
  | RecPanic _ => False
  | RecFuel => True
  end.
Proof.
  intros Hwf Hn. rewrite error_step_eq. cbv zeta.
  pose proof (rec_k_cells cells) as Hk. set (k := rec_k tb (cells ++ [(0, ANil)])) in *.
  rewrite (skipn_app_le_r _ _ _ Hk), top_app_bottom.
  pose proof (wfp_skipn _ _ Hwf k) as Hwf1.
  pose proof (tops_lt _ _ Hwf1) as Hs1. set (s1 := tops (skipn k cells)) in *.
  destruct (action_at_some s1 (t_err tb) Hs1 (sh_err _ _ _ SH)) as [x Hx]. rewrite Hx.
  destruct x as [[s2|p|]|]; try (exists s1; apply top_app_bottom).
  destruct (t_gate tb && negb (recover_at tb s1)); [exists s1; apply top_app_bottom|].
  destruct (skip_input tb input fuel s2 next pos) as [[[b next'] pos']|] eqn:Es; [|exact I].
  destruct b; [|exists s2; reflexivity].
  eexists ((s2, _) :: skipn k cells), (T (t_err tb) :: skipn k sg).
  split; [reflexivity|]. split.
  - constructor; [exact Hwf1|]. fold s1. cbn [trans]. now rewrite Hx.
  - eapply skip_input_range; [|exact Hn|exact Es]. apply tok_type_lt.
Qed.

Definition no_panic (r : result) : Prop := forall c, r_out r <> PPanic c.

Theorem run_no_panic : forall fuel cells sg next pos calls log,
  wfp cells sg -> ttype next < nterms tb ->
  no_panic (run tb sem input fuel (cells ++ [(0, ANil)]) next pos calls log).
Proof.
  induction fuel as [|fuel IH]; intros cells sg next pos calls log Hwf Hn; [intros c; discriminate|].
  cbn [run]. rewrite top_app_bottom.
  destruct (action_at_some (tops cells) (ttype next) (tops_lt _ _ Hwf) Hn) as [x Hact]. rewrite Hact.
  destruct x as [[s'|p|]|].
  - (* shift *)
    change ((s', ATok next) :: cells ++ [(0, ANil)]) with (((s', ATok next) :: cells) ++ [(0, ANil)]).
    apply (IH _ (T (ttype next) :: sg)); [|apply tok_type_lt].
    constructor; [exact Hwf|]. cbn [trans]. now rewrite Hact.
  - (* reduce *)
    destruct (B_reduce _ _ _ BW _ _ _ Hact) as (Hp0 & prg & Hpg & Hin).
    destruct (proj1 (sh_prods _ _ _ SH p) (ex_intro _ prg Hpg)) as [pw Hpw].
    rewrite Hpw. destruct (sh_prod _ _ _ SH p prg pw Hpg Hpw) as (Hnt & Hlen & _ & _).
    destruct (item_prefix_p _ _ Hwf _ _ _ _ Hin Hpg) as (Hk & _ & Hin0).
    rewrite <- Hlen in *. set (n := p_len pw) in *.
    assert (Hlt : (length (cells ++ [(0, ANil)]) <? n) = false).
    { apply Nat.ltb_ge. rewrite app_length. simpl. lia. }
    rewrite Hlt. rewrite (firstn_app_le_r _ _ _ Hk), (skipn_app_le_r _ _ _ Hk), top_app_bottom.
    destruct (B_demand _ _ _ BW _ _ _ _ Hin0 Hp0 Hpg) as [sg' Hsg].
    assert (Hgoto : exists gz, goto_at tb (tops (skipn n cells)) (p_nt pw) = Some gz /\
                               (gz <? 0)%Z = false /\ Z.to_nat gz = sg').
    { unfold goto_nat in Hsg. rewrite Hnt.
      destruct (goto_at tb (tops (skipn n cells)) (lhs prg)) as [gz|]; [|discriminate].
      destruct (gz <? 0)%Z eqn:Ez; [discriminate|]. inversion Hsg. eauto. }
    destruct Hgoto as (gz & Hgz & Hgz0 & Hgzn).
    assert (Hstep : forall a calls' log',
              no_panic (run tb sem input fuel (((sg', a) :: skipn n cells) ++ [(0, ANil)]) next pos calls' log')).
    { intros a calls' log'. apply (IH _ (NT (lhs prg) :: skipn n sg)); [|exact Hn].
      constructor; [apply wfp_skipn; exact Hwf|]. exact Hsg. }
    destruct (p_act pw).
    + destruct (sem calls p (rev (map snd (firstn n cells)))) as [a|].
      * rewrite Hgz, Hgz0, Hgzn. apply Hstep.
      * intros c. cbn [r_out]. unfold mk_error. rewrite top_app_bottom. discriminate.
    + rewrite Hgz, Hgz0, Hgzn. apply Hstep.
  - (* accept *)
    destruct (cells ++ [(0, ANil)]) as [|[s0 a0] rest] eqn:E; [destruct cells; discriminate|].
    intros c; discriminate.
  - (* syntax error: recovery *)
    pose proof (error_step_wfp (S (length input)) cells sg next pos Hwf Hn) as He.
    destruct (error_step tb input (S (length input)) (cells ++ [(0, ANil)]) next pos)
      as [st' next' pos'|st' pos'|code|].
    + destruct He as (cells' & sg' & -> & Hwf' & Hn'). eapply IH; eauto.
    + destruct He as [s Hs]. intros c. cbn [r_out]. unfold mk_error. rewrite Hs. discriminate.
    + destruct He.
    + intros c; discriminate.
Qed.

Theorem parse_no_panic fuel : no_panic (parse tb sem input fuel).
Proof.
  unfold parse. apply (run_no_panic fuel [] [] (tok_at input 0) 1 0 []); [constructor|apply tok_type_lt].
Qed.

(** ** the crisp statement of the recovery step, under the recovery-flag checks *)
Section Flags.
Hypothesis XR : x_recover' tb = true.
Hypothesis XC : x_recover_conv tb = true.
Hypothesis GATE : t_gate tb = false.
Variables (cells : stack) (sg : list sym) (next : token) (pos : nat).
Hypothesis WF : wfp cells sg.
Let st := cells ++ [(0, ANil)].

(** (a) no state on the stack (bottom cell included) can shift the error terminal: the parse
    ends; nothing is popped, nothing is scanned *)
Theorem no_recovery_state :
  find_recover tb st 0 = None ->
  (forall c s2, In c st -> action_at tb (fst c) (t_err tb) <> Some (Some (Shift s2))) /\
  gives_up tb input st next pos st pos.
Proof.
  intros Hn. assert (Hk : rec_k tb st = 0) by (unfold rec_k; now rewrite Hn).
  pose proof (proj1 (find_recover_none_spec tb st) Hn) as Hall.
  assert (Hno : forall c s2, In c st -> action_at tb (fst c) (t_err tb) <> Some (Some (Shift s2))).
  { intros c s2 Hc Ha. apply (x_recover_conv_P tb XC) in Ha. rewrite (Hall _ Hc) in Ha. discriminate. }
  split; [exact Hno|].
  destruct (action_at_some (tops cells) (t_err tb) (tops_lt _ _ WF) (sh_err _ _ _ SH)) as [a Ea].
  replace st with (skipn (rec_k tb st) st) at 2 by (now rewrite Hk).
  eapply gives_up_noshift; [rewrite Hk; apply top_app_bottom|exact Ea|].
  intros s2 ->. destruct cells as [|[s0 a0] cells0] eqn:Ec.
  - apply (Hno (0, ANil) s2); [now left|exact Ea].
  - apply (Hno (s0, a0) s2); [now left|exact Ea].
Qed.

(** (b) otherwise: [k] = number of cells above the topmost cell whose state shifts the error
    terminal; those [k] cells are popped, the error attribute is pushed with the Shift target,
    and input is skipped: either an acceptable token is found ([recovers]) or the input ends
    ([gives_up]) *)
Theorem recovery_state k :
  find_recover tb st 0 = Some k ->
  exists c s2, nth_error st k = Some c /\
    action_at tb (fst c) (t_err tb) = Some (Some (Shift s2)) /\
    (forall j c', j < k -> nth_error st j = Some c' ->
       forall s3, action_at tb (fst c') (t_err tb) <> Some (Some (Shift s3))) /\
    let st' := (s2, AErr next (rev (map snd (firstn k st))) (expected tb (fst c))) :: skipn k st in
    exists b next' pos', skip_rel tb input s2 next pos b next' pos' /\
      if b then recovers tb input st next pos st' next' pos'
      else gives_up tb input st next pos st' pos'.
Proof.
  intros Hf. assert (Hk : rec_k tb st = k) by (unfold rec_k; now rewrite Hf).
  apply find_recover_spec in Hf. destruct Hf as [(c & Hc & Hrc) Habove].
  destruct (x_recover'_P tb XR _ Hrc) as [s2 Ha].
  exists c, s2. split; [exact Hc|]. split; [exact Ha|]. split.
  { intros j c' Hj Hn s3 Ha3. apply (x_recover_conv_P tb XC) in Ha3.
    rewrite (Habove _ _ Hj Hn) in Ha3. discriminate. }
  cbv zeta.
  assert (Ht : top (skipn (rec_k tb st) st) = Some (fst c)).
  { rewrite Hk. clear - Hc. revert k Hc. induction st as [|x l IH]; intros [|k] H; simpl in *; try discriminate.
    - inversion H; subst. destruct c; reflexivity.
    - apply IH. exact H. }
  assert (Hg : t_gate tb && negb (recover_at tb (fst c)) = false) by (now rewrite GATE).
  destruct (skip_input_total tb input s2 next pos) as (b & next' & pos' & Es).
  apply skip_input_rel in Es. exists b, next', pos'. split; [exact Es|].
  rewrite <- Hk. destruct b.
  - econstructor; eauto.
  - eapply gives_up_eof; eauto.
Qed.

End Flags.
End NoPanic.

(** ** closed statements *)
Theorem C07_no_panic :
  forall g tb an sem input fuel c,
    valid_backward g tb an = true ->
    Forall (fun t => ttype t < nterms tb) input ->
    r_out (parse tb sem input fuel) <> PPanic c.
Proof.
  intros g tb an sem input fuel c VB INR.
  assert (SH : shape_P g tb an).
  { apply shape_ok_P. unfold valid_backward in VB. rewrite !andb_true_iff in VB. tauto. }
  exact (parse_no_panic g tb an sem input SH (valid_backward_P g tb an SH VB) INR fuel c).
Qed.

(** the recovery loop never exhausts its own fuel: [PFuel] can only come from the main loop *)
Theorem C07_skip_terminates :
  forall tb input st next pos, error_step tb input (S (length input)) st next pos <> RecFuel.
Proof. intros. apply error_step_not_fuel. Qed.

(** the part of termination that holds for ARBITRARY tables: the skipping loop ends, and a
    successful recovery hands back a configuration whose look-ahead has an action in the new top
    state (so the very next move is not an error).  Whether the parse as a whole returns depends
    on the tables: see RecoveryTerm.v (canonical tables: yes) and RecoveryExamples.v (a
    non-canonical table on which it loops for ever). *)
Theorem C07_termination_partial :
  forall tb input st next pos,
    error_step tb input (S (length input)) st next pos <> RecFuel /\
    forall st' next' pos',
      error_step tb input (S (length input)) st next pos = Recovered st' next' pos' ->
      exists s2, top st' = Some s2 /\ has_action tb s2 (ttype next') = true /\ pos <= pos' /\
                 (exists n, pos' = pos + n /\ next' = look input next pos n).
Proof.
  intros tb input st next pos. split; [apply error_step_not_fuel|].
  intros st' next' pos' H. apply error_step_recovered in H.
  destruct H as [s1 s2 next' pos' Et Ea Eg Hs]. exists s2. split; [reflexivity|].
  apply skip_rel_look in Hs. destruct Hs as (n & -> & -> & _ & Hb).
  split; [exact Hb|]. split; [lia|]. exists n. split; reflexivity.
Qed.

(** a grammar-level check that explains [x_recover_conv] for generated tables: the error terminal
    occurs in bodies only as first symbol (gocc flags a state iff it holds an item
    [A -> . error ...]; a state reached before an [error] in the middle of a body shifts the error
    terminal without being flagged) *)
Definition x_err_first (g : grammar) (terr : nat) : bool :=
  forallb (fun pr => forallb (fun X => negb (sym_eqb X (T terr))) (tl (rhs pr))) g.

Print Assumptions C07_no_panic.
Print Assumptions C07_skip_terminates.
Print Assumptions C07_termination_partial.
Print Assumptions error_step_recovered.
Print Assumptions error_step_not_recovered.
Print Assumptions skip_rel_look.
Print Assumptions run_recovers.
Print Assumptions run_gives_up.
Print Assumptions no_recovery_state.
Print Assumptions recovery_state.
