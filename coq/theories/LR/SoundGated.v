(** Soundness of the parser model for tables whose recovery is GATED OFF (gocc's own front-end parser after the fix for D9):
    [t_gate tb = true] and no state has [s_recover].  Such tables may well shift the terminal [t_err tb] -- in the front end
    "error" is an ordinary keyword of the gocc grammar -- so [no_error_shift], the hypothesis of LR/Sound.v and SoundTop.v,
    is FALSE for them (kernel-evaluated on the shipped front-end tables: false).  Here the hypothesis is replaced by the two
    facts lib/c15.py has the kernel evaluate on every run ("gate").

    Method: re-target the error column to the end-of-input column ([retarget]); valid tables never shift there, so Sound.v
    applies to the re-targeted tables; and every run that ends in [POk] is the same run on both tables, because with
    recovery gated off [error_step] never returns [Recovered]. *)
From Coq Require Import List Arith ZArith Lia Bool.
From Gocc Require Import LR.Parse LR.Validate LR.Trees LR.Eval LR.ValidateProofs LR.Sound.
Import ListNotations.

Definition retarget (tb : tables) : tables :=
  {| t_states := t_states tb; t_prods := t_prods tb; t_err := EOFT; t_gate := t_gate tb |}.

Section G.
Variable g : grammar.
Variable tb : tables.
Variable an : annot.
Variable sem : nat -> nat -> list attr -> option attr.
Variable input : list token.

Lemma shape_retarget : shape_P g tb an -> shape_P g (retarget tb) an.
Proof.
  intros [H1 H2 H3 H4 H5 H6 H7]. constructor; assumption.
Qed.

Lemma backward_retarget : backward_P g tb an -> backward_P g (retarget tb) an.
Proof.
  intros [H1 H2 H3 H4 H5 H6 H7 H8]. constructor; assumption.
Qed.

Lemma nes_retarget : backward_P g tb an ->
  forall s s', action_at (retarget tb) s (t_err (retarget tb)) <> Some (Some (Shift s')).
Proof.
  intros BW s s' H. apply (B_shift _ _ _ BW s EOFT s'); [exact H|reflexivity].
Qed.

Hypothesis GATE : t_gate tb = true.
Hypothesis NOREC : forallb (fun r => negb (s_recover r)) (t_states tb) = true.

Lemma gated_never_recovers fuel st next pos st' next' pos' :
  error_step tb input fuel st next pos <> Recovered st' next' pos'.
Proof.
  unfold error_step.
  match goal with |- context [let '(_, _) := ?m in _] => destruct m as [removed st1] end.
  destruct (top st1) as [s1|]; [|discriminate].
  destruct (action_at tb s1 (t_err tb)) as [[[s2|p|]|]|]; try discriminate.
  rewrite GATE. assert (Hr : recover_at tb s1 = false).
  { unfold recover_at. destruct (nth_error (t_states tb) s1) as [r|] eqn:E; [|reflexivity].
    rewrite forallb_forall in NOREC. specialize (NOREC r (nth_error_In _ _ E)).
    destruct (s_recover r); [discriminate|reflexivity]. }
  rewrite Hr. simpl. discriminate.
Qed.

Lemma mk_error_not_ok a tok st v : mk_error tb a tok st <> POk v.
Proof. unfold mk_error. destruct (top st); discriminate. Qed.

(** a run that ends in POk never went through Error(): it is the same run on the re-targeted tables *)
Lemma run_retarget : forall fuel st next pos calls log v,
  r_out (run tb sem input fuel st next pos calls log) = POk v ->
  run (retarget tb) sem input fuel st next pos calls log = run tb sem input fuel st next pos calls log.
Proof.
  induction fuel as [|f IH]; intros st next pos calls log v H; [reflexivity|].
  cbn [run] in H |- *.
  destruct (top st) as [s|]; [|reflexivity].
  change (action_at (retarget tb) s (ttype next)) with (action_at tb s (ttype next)).
  destruct (action_at tb s (ttype next)) as [[[s'|p|]|]|] eqn:EA; try reflexivity.
  - (* shift *) eapply IH. exact H.
  - (* reduce *)
    change (t_prods (retarget tb)) with (t_prods tb).
    destruct (nth_error (t_prods tb) p) as [pr|]; [|reflexivity].
    destruct (length st <? p_len pr); [reflexivity|].
    destruct (if p_act pr then _ else _) as [[res calls'] log'].
    destruct res as [a|]; [|reflexivity].
    destruct (top (skipn (p_len pr) st)) as [s0|]; [|reflexivity].
    change (goto_at (retarget tb) s0 (p_nt pr)) with (goto_at tb s0 (p_nt pr)).
    destruct (goto_at tb s0 (p_nt pr)) as [z|]; [|reflexivity].
    destruct (z <? 0)%Z; [reflexivity|]. eapply IH. exact H.
  - (* error: the run on tb cannot end in POk *)
    exfalso.
    destruct (error_step tb input (S (length input)) st next pos) as [st' next' pos'|st' pos'|c|] eqn:E.
    + exact (gated_never_recovers _ _ _ _ _ _ _ E).
    + cbn [r_out] in H. exact (mk_error_not_ok _ _ _ _ H).
    + discriminate.
    + discriminate.
Qed.

Lemma eval_retarget t : forall c log, eval (retarget tb) sem t c log = eval tb sem t c log.
Proof. reflexivity. Qed.

Theorem parse_sound_gated fuel v :
  valid_backward g tb an = true ->
  Forall (fun t => ttype t <> EOFT) input -> Forall (fun t => ttype t < nterms tb) input ->
  r_out (parse tb sem input fuel) = POk v ->
  exists t pr0 X0 c, nth_error g 0 = Some pr0 /\ rhs pr0 = [X0] /\ wt g X0 t input /\
                     eval tb sem t 0 [] = EOk v c (r_log (parse tb sem input fuel)).
Proof.
  intros HV HI HR Hok.
  assert (HS : shape_ok g tb an = true) by (unfold valid_backward in HV; rewrite !andb_true_iff in HV; tauto).
  pose proof (shape_ok_P g tb an HS) as SH. pose proof (valid_backward_P g tb an SH HV) as BW.
  pose proof (parse_sound g (retarget tb) an sem input (shape_retarget SH) (backward_retarget BW) (nes_retarget BW) HI HR fuel) as G.
  assert (E : parse (retarget tb) sem input fuel = parse tb sem input fuel).
  { unfold parse. eapply run_retarget. exact Hok. }
  rewrite E in G. unfold good_result in G. rewrite Hok in G.
  destruct G as (t & pr0 & X0 & c & H0 & H1 & H2 & H3). exists t, pr0, X0, c. rewrite eval_retarget in H3. auto.
Qed.

End G.
Print Assumptions parse_sound_gated.
