(** Model of the compressed ("-zip") action table (property C12, action-table part).

    Go source: internal/parser/gen/golang/actiontable.go
      - [GenCompActionTable]: for every state i and every terminal index j (in tokMap.TypeMap
        order) the resolved action of the cell is appended to tab[i].Actions as a triple
        {Index: j, Action: 0 (accept) | 1 (reduce) | 2 (shift), Amount: 0 | production | state};
        ERROR cells are skipped.  tab[i].CanRecover is copied.
      - the generated [init()] (template actionCompTableSrc): [actionTab] is a zero-initialised
        array (every cell nil, canRecover false); for every row and every triple [a] of the row
<<
            switch a.Action { case 0: actions[a.Index] = accept(true)
                              case 1: actions[a.Index] = reduce(a.Amount)
                              case 2: actions[a.Index] = shift(a.Amount) }
>>
        an unknown Action code leaves the cell untouched.
    Between the two, the slice of rows is serialised with encoding/gob, compressed with gzip
    and embedded as a byte-slice literal; gob+gzip are treated here as a LOSSLESS TRANSPORT of
    the list of (CanRecover, triples) rows (not modelled).  canRecover is a plain copy.  The
    goto table has no compressed form: it is generated identically with and without -zip.

    A row is a [list (option act)] ([None] = nil = ERROR), as in [Parse.s_actions].
    In Go, [actions[a.Index]] with a.Index >= numSymbols would panic; here [set_nth] beyond
    the end is a no-op -- irrelevant for encoded rows, whose indices are < the row width
    ([ZipTabProofs.encode_row_indices]).

    Definitions only; proofs are in ZipTabProofs.v. *)
From Coq Require Import List Arith.
From Gocc Require Import LR.Parse.
Import ListNotations.

Definition act_code (a : act) : nat :=
  match a with Accept => 0 | Reduce _ => 1 | Shift _ => 2 end.
Definition act_amount (a : act) : nat :=
  match a with Accept => 0 | Reduce p => p | Shift s => s end.

(** triples (Index, Action, Amount) of the cells of [r], the first cell having index [j] *)
Fixpoint encode_from (j : nat) (r : list (option act)) : list (nat * nat * nat) :=
  match r with
  | [] => []
  | None :: r' => encode_from (S j) r'
  | Some a :: r' => (j, act_code a, act_amount a) :: encode_from (S j) r'
  end.

Definition encode_row (r : list (option act)) : list (nat * nat * nat) := encode_from 0 r.

(** the [switch a.Action] of init(); [None] = no assignment *)
Definition decode_cell (code amount : nat) : option act :=
  match code with
  | 0 => Some Accept
  | 1 => Some (Reduce amount)
  | 2 => Some (Shift amount)
  | _ => None
  end.

Fixpoint set_nth {A : Type} (i : nat) (v : A) (l : list A) {struct l} : list A :=
  match l with
  | [] => []
  | x :: t => match i with 0 => v :: t | S i' => x :: set_nth i' v t end
  end.

Definition decode_step (row : list (option act)) (t : nat * nat * nat) : list (option act) :=
  match decode_cell (snd (fst t)) (snd t) with
  | Some a => set_nth (fst (fst t)) (Some a) row
  | None => row
  end.

(** a zero-initialised row of width [n], then the assignments in order *)
Definition decode_row (n : nat) (ts : list (nat * nat * nat)) : list (option act) :=
  fold_left decode_step ts (repeat None n).

(** whole tables: (canRecover, row) per state *)
Definition encode_table (tab : list (bool * list (option act)))
  : list (bool * list (nat * nat * nat)) :=
  map (fun r => (fst r, encode_row (snd r))) tab.
Definition decode_table (n : nat) (enc : list (bool * list (nat * nat * nat)))
  : list (bool * list (option act)) :=
  map (fun r => (fst r, decode_row n (snd r))) enc.
