(** Canonical LR(1) tables: every item of the state on top of the stack is VALID for the
    viable prefix spelled by the stack.  Consequences: the consumed input is a viable prefix,
    and a non-nil action on terminal [a] implies that [a] is a legal continuation. *)
From Coq Require Import List Arith ZArith Lia Bool.
From Gocc Require Import LR.Parse LR.Validate LR.ValidateProofs LR.Complete LR.Derive LR.Steps LR.Exact.
Import ListNotations.

Lemma firstn_snoc_nth {A} : forall k (l : list A) x, nth_error l k = Some x -> firstn (S k) l = firstn k l ++ [x].
Proof.
  induction k as [|k IH]; intros [|y l] x H; simpl in *; try discriminate.
  - now inversion H.
  - f_equal. now apply IH.
Qed.

Lemma split_at_nth {A} : forall k (l : list A) x, nth_error l k = Some x -> l = firstn k l ++ x :: skipn (S k) l.
Proof.
  induction k as [|k IH]; intros [|y l] x H; simpl in *; try discriminate.
  - now inversion H.
  - f_equal. now apply IH.
Qed.

Lemma skipn_at_nth {A} k (l : list A) x : nth_error l k = Some x -> skipn k l = x :: skipn (S k) l.
Proof.
  intros H. rewrite (split_at_nth _ _ _ H) at 1.
  assert (Hl : length (firstn k l) = k).
  { apply firstn_length_le. apply Nat.lt_le_incl. apply nth_error_Some. congruence. }
  rewrite <- Hl at 1. apply skipn_length_app.
Qed.

Lemma skipn_app_le' {A} (l1 l2 : list A) n : n <= length l1 -> skipn n (l1 ++ l2) = skipn n l1 ++ l2.
Proof. intros H. rewrite skipn_app. replace (n - length l1) with 0 by lia. reflexivity. Qed.

Lemma firstn_app_le' {A} (l1 l2 : list A) n : n <= length l1 -> firstn n (l1 ++ l2) = firstn n l1.
Proof. intros H. rewrite firstn_app. replace (n - length l1) with 0 by lia. simpl. apply app_nil_r. Qed.

Lemma In_skipn {A} (x : A) n l : In x (skipn n l) -> In x l.
Proof. intros H. rewrite <- (firstn_skipn n l). apply in_or_app. now right. Qed.

Section Viable.
Variable g : grammar.
Variable tb : tables.
Variable an : annot.
Hypothesis VF : valid_forward g tb an = true.
Hypothesis VB : valid_backward g tb an = true.
Hypothesis XC : x_checks g tb an = true.
Hypothesis NESb : no_error_shift tb = true.
Variables (pr0 : prod) (X0 : sym).
Hypothesis Hpr0 : nth_error g 0 = Some pr0.
Hypothesis Hrhs0 : rhs pr0 = [X0].

Notation der := (der g).
Notation ders := (ders g).
Notation items_of := (items_of an).

Lemma SH : shape_P g tb an.
Proof. apply shape_ok_P. unfold valid_forward in VF. rewrite !andb_true_iff in VF. tauto. Qed.

Lemma BW : backward_P g tb an.
Proof. apply valid_backward_P; [exact SH|exact VB]. Qed.

Lemma NES' : forall s s', action_at tb s (t_err tb) <> Some (Some (Shift s')).
Proof. apply (no_error_shift_P g tb an SH NESb). Qed.

Lemma XC_parts : x_null g an = true /\ x_first g tb an = true /\ x_prod g tb an = true /\
                 x_noeof g = true /\ x_recover tb = true /\ x_closure g tb an = true.
Proof. pose proof XC as H. unfold x_checks in H. rewrite !andb_true_iff in H. tauto. Qed.

Lemma NUL : forall n, nullable_nt an n = true -> der (NT n) [].
Proof. apply x_null_P. apply XC_parts. Qed.

(** productivity and exact FIRST, for the productions occurring in items *)
Lemma PROD s p k la pr : In (p, k, la) (items_of s) -> nth_error g p = Some pr ->
  forall X, In X (rhs pr) -> exists u, der X u.
Proof.
  intros Hin. apply (x_prod_P g tb an) with (s := s) (k := k) (la := la); [apply XC_parts| |exact Hin].
  eapply items_of_range; [exact SH|exact Hin].
Qed.

Lemma FIRSTX s p k la pr : In (p, k, la) (items_of s) -> nth_error g p = Some pr ->
  forall n a, In (NT n) (rhs pr) -> In a (first_nt an n) -> exists u, der (NT n) (a :: u).
Proof.
  intros Hin. apply (x_first_P g tb an NUL) with (s := s) (k := k) (la := la); [apply XC_parts| |exact Hin].
  eapply items_of_range; [exact SH|exact Hin].
Qed.

Lemma NOEOF u : der X0 u -> ~ In EOFT u.
Proof.
  intros H. destruct (x_noeof_P g) as [H1 _]; [apply XC_parts|]. apply (H1 _ _ H).
  intros ->. destruct XC_parts as (_ & _ & _ & Hn & _). unfold x_noeof in Hn.
  rewrite forallb_forall in Hn. specialize (Hn _ (nth_error_In _ _ Hpr0)).
  rewrite Hrhs0 in Hn. simpl in Hn. discriminate.
Qed.

Lemma NOREC : forall s, recover_at tb s = false.
Proof. apply x_recover_P; [apply XC_parts|exact NES']. Qed.

Lemma suffix_productive s p k la pr j :
  In (p, k, la) (items_of s) -> nth_error g p = Some pr -> exists y, ders (skipn j (rhs pr)) y.
Proof.
  intros Hin Hp. apply ders_all. intros X HX. apply (PROD _ _ _ _ _ Hin Hp).
  eapply In_skipn; eauto.
Qed.

(** * Contexts of productions and valid items *)
(** [pctx p delta z]: production [p] can be applied with the sentential prefix [delta] to its
    left and the terminal string [z] to its right, in a derivation from the start symbol *)
Inductive pctx : nat -> list sym -> list nat -> Prop :=
| pctx_start : pctx 0 [] []
| pctx_step p pr k q prq delta z y :
    pctx p delta z -> nth_error g p = Some pr -> nth_error (rhs pr) k = Some (NT (lhs prq)) ->
    nth_error g q = Some prq -> q <> 0 -> ders (skipn (S k) (rhs pr)) y ->
    pctx q (delta ++ firstn k (rhs pr)) (y ++ z).

Lemma pctx_sentence p delta z : pctx p delta z ->
  forall pr x y, nth_error g p = Some pr -> ders delta x -> ders (rhs pr) y -> der X0 (x ++ y ++ z).
Proof.
  induction 1 as [|p pr k q prq delta z y' Hc IH Hp Hk Hq Hq0 Hy']; intros pr1 x y Hp1 Hx Hy.
  - rewrite Hpr0 in Hp1. inversion Hp1; subst pr1. rewrite Hrhs0 in Hy.
    apply ders_nil_inv in Hx. subst x. rewrite app_nil_r. simpl. now apply ders_single_inv.
  - rewrite Hq in Hp1. inversion Hp1; subst pr1.
    apply ders_app_inv in Hx. destruct Hx as (x1 & x2 & -> & Hx1 & Hx2).
    assert (Hr : ders (rhs pr) (x2 ++ y ++ y')).
    { rewrite (split_at_nth _ _ _ Hk). apply ders_app; [assumption|].
      constructor; [econstructor; eauto|assumption]. }
    specialize (IH pr x1 _ Hp Hx1 Hr).
    rewrite <- !app_assoc in *. exact IH.
Qed.

Definition valid_item (sr : list sym) (it : item) : Prop :=
  let '(p, k, la) := it in
  exists pr delta z, nth_error g p = Some pr /\ pctx p delta z /\
                     sr = delta ++ firstn k (rhs pr) /\ la = hd EOFT z.

(** * Well-formed stacks: states (top first), their entry symbols (top first), consumed types *)
Inductive wfs : list nat -> list sym -> list nat -> Prop :=
| wfs_nil : wfs [] [] []
| wfs_cons s ss sg w X wx :
    wfs ss sg w -> trans tb (hd 0 ss) X = Some s -> der X wx -> wfs (s :: ss) (X :: sg) (w ++ wx).

Lemma wfs_length ss sg w : wfs ss sg w -> length sg = length ss.
Proof. induction 1; simpl; congruence. Qed.

Lemma wfs_ders ss sg w : wfs ss sg w -> ders (rev sg) w.
Proof.
  induction 1 as [|s ss sg w X wx Hwf IH Htr Hd]; simpl; [constructor|].
  apply ders_app; [assumption|now apply ders_single].
Qed.

Lemma wfs_split ss sg w : wfs ss sg w -> forall k, k <= length ss ->
  exists w0 ws, wfs (skipn k ss) (skipn k sg) w0 /\ ders (rev (firstn k sg)) ws /\ w = w0 ++ ws.
Proof.
  induction 1 as [|s ss sg w X wx Hwf IH Htr Hd]; intros k Hk.
  - exists [], []. destruct k; simpl; repeat split; constructor.
  - destruct k as [|k].
    + exists (w ++ wx), []. simpl. repeat split; [econstructor; eauto|constructor|now rewrite app_nil_r].
    + simpl in Hk. destruct (IH k) as (w0 & ws & H1 & H2 & ->); [lia|].
      exists w0, (ws ++ wx). simpl. repeat split; [assumption| |now rewrite app_assoc].
      apply ders_app; [assumption|now apply ders_single].
Qed.

Lemma wfs_state_lt ss sg w : wfs ss sg w -> hd 0 ss < nstates tb.
Proof.
  destruct 1 as [|s ss sg w X wx Hwf Htr Hd]; simpl; [exact (sh_pos _ _ _ SH)|].
  destruct (trans_range _ _ _ SH _ _ _ Htr) as (_ & H & _). exact H.
Qed.

(** a state entered by a transition has a kernel item *)
Lemma kernel_nonempty s X s' : trans tb s X = Some s' -> exists p k la, In (p, S k, la) (items_of s').
Proof.
  intros Htr. pose proof VB as H. unfold valid_backward in H. rewrite !andb_true_iff in H.
  destruct H as [[[[[_ _] _] Ht] _] _].
  unfold b_trans, forall_states in Ht. rewrite forallb_seq in Ht.
  destruct (trans_range _ _ _ SH _ _ _ Htr) as (Hs1 & Hs2 & HX).
  specialize (Ht s Hs1). rewrite andb_true_iff in Ht. destruct Ht as [Ht1 Ht2].
  assert (Hk : kernel_ok g an s X s' = true).
  { destruct X as [a|n].
    - unfold forall_terms in Ht1. rewrite forallb_seq in Ht1. specialize (Ht1 a HX). now rewrite Htr in Ht1.
    - unfold forall_nts in Ht2. rewrite forallb_seq in Ht2. specialize (Ht2 n HX). now rewrite Htr in Ht2. }
  unfold kernel_ok in Hk. rewrite !andb_true_iff in Hk. destruct Hk as [[_ Hk2] _].
  apply existsb_exists in Hk2. destruct Hk2 as ([[p k] la] & Hin & Hne).
  destruct k as [|k]; [discriminate|]. eauto.
Qed.

Lemma state_has_item ss sg w : wfs ss sg w -> exists it, In it (items_of (hd 0 ss)).
Proof.
  destruct 1 as [|s ss sg w X wx Hwf Htr Hd]; simpl.
  - exists (0, 0, EOFT). apply (start_spec g tb an VF).
  - destruct (kernel_nonempty _ _ _ Htr) as (p & k & la & Hin). eauto.
Qed.

(** the look-ahead of a start item is end of input *)
Lemma start_item_la s la : In (0, 0, la) (items_of s) -> la = EOFT.
Proof.
  intros Hin.
  assert (Hk : nth_error (rhs pr0) 0 = Some X0) by (now rewrite Hrhs0).
  destruct (goto_spec g tb an VF _ _ _ _ _ _ Hin Hpr0 Hk) as (s' & _ & Hin').
  assert (Hn : nth_error (rhs pr0) 1 = None) by (now rewrite Hrhs0).
  destruct (complete_spec g tb an VF _ _ _ _ _ Hin' Hpr0 Hn) as [[Hne _]|(_ & Hla & _)]; congruence.
Qed.

(** closing a set of valid items under justified dot-0 items *)
Lemma valid_closure sr s :
  s < nstates tb ->
  (forall p k la, In (p, S k, la) (items_of s) -> valid_item sr (p, S k, la)) ->
  (forall la, In (0, 0, la) (items_of s) -> valid_item sr (0, 0, la)) ->
  forall it, In it (items_of s) -> valid_item sr it.
Proof.
  intros Hs Hker H0.
  apply (just_list_ind g an (valid_item sr) (items_of s)) with (acc := []); auto.
  - intros q b [[p k] la] Hq Hmem (pr & delta & z & Hp & Hc & Hsr & Hla) Hj.
    destruct (just_by_P _ _ _ _ _ _ _ Hj) as (pr' & prq & Hp' & Hq' & Hk & Hb).
    rewrite Hp in Hp'. inversion Hp'; subst pr'.
    destruct (first_seq_exact g an NUL (skipn (S k) (rhs pr)) la b) as (y & Hy & Hh).
    { intros X HX. apply (PROD _ _ _ _ _ Hmem Hp). eapply In_skipn; eauto. }
    { intros n a Hn. apply (FIRSTX _ _ _ _ _ Hmem Hp). eapply In_skipn; eauto. }
    { exact Hb. }
    exists prq, (delta ++ firstn k (rhs pr)), (y ++ z). split; [assumption|]. split; [|split].
    + eapply pctx_step; eauto.
    + simpl. now rewrite app_nil_r.
    + subst la. destruct y; simpl in *; auto.
  - apply (x_closure_P g tb an); [apply XC_parts|exact Hs].
  - intros it [].
Qed.

Theorem items_valid ss sg w : wfs ss sg w ->
  forall it, In it (items_of (hd 0 ss)) -> valid_item (rev sg) it.
Proof.
  induction 1 as [|s ss sg w X wx Hwf IH Htr Hd].
  - simpl. apply valid_closure; [exact (sh_pos _ _ _ SH)| |].
    + intros p k la Hin. apply (B_init _ _ _ BW) in Hin. discriminate.
    + intros la Hin. rewrite (start_item_la _ _ Hin).
      exists pr0, [], []. repeat split; auto. constructor.
  - cbn [hd]. destruct (B_kernel _ _ _ BW _ _ _ Htr) as [Hne Hk].
    apply valid_closure.
    + destruct (trans_range _ _ _ SH _ _ _ Htr) as (_ & H & _). exact H.
    + intros p k la Hin. destruct (Hk _ _ _ Hin) as (pr & Hp & HX & Hin').
      destruct (IH _ Hin') as (pr' & delta & z & Hp' & Hc & Hsr & Hla).
      rewrite Hp in Hp'. inversion Hp'; subst pr'.
      exists pr, delta, z. repeat split; auto.
      cbn [rev]. rewrite Hsr, (firstn_snoc_nth _ _ _ HX), app_assoc. reflexivity.
    + intros la Hin. apply (B_start0 _ _ _ BW) in Hin. contradiction.
Qed.

(** * Consequences *)
(** completing an item of the top state to a sentence *)
Lemma item_sentence ss sg w p k la pr y :
  wfs ss sg w -> In (p, k, la) (items_of (hd 0 ss)) -> nth_error g p = Some pr ->
  ders (skipn k (rhs pr)) y ->
  exists z, der X0 (w ++ y ++ z) /\ la = hd EOFT z.
Proof.
  intros Hwf Hin Hp Hy.
  destruct (items_valid _ _ _ Hwf _ Hin) as (pr' & delta & z & Hp' & Hc & Hsr & Hla).
  rewrite Hp in Hp'. inversion Hp'; subst pr'.
  pose proof (wfs_ders _ _ _ Hwf) as Hd. rewrite Hsr in Hd.
  apply ders_app_inv in Hd. destruct Hd as (x & x2 & -> & Hx & Hx2).
  exists z. split; [|assumption].
  assert (Hr : ders (rhs pr) (x2 ++ y)).
  { rewrite <- (firstn_skipn k (rhs pr)). apply ders_app; assumption. }
  pose proof (pctx_sentence _ _ _ Hc _ _ _ Hp Hx Hr) as H.
  rewrite <- !app_assoc in *. exact H.
Qed.

(** type-level versions of "viable prefix" and "legal continuation" *)
Definition viable_d (u : list nat) : Prop := exists rest, der X0 (u ++ rest).
Definition next_d (u : list nat) (a : nat) : Prop :=
  if Nat.eqb a EOFT then der X0 u else viable_d (u ++ [a]).

Theorem stack_viable ss sg w : wfs ss sg w -> viable_d w.
Proof.
  intros Hwf. destruct (state_has_item _ _ _ Hwf) as [[[p k] la] Hin].
  destruct (B_items _ _ _ BW _ _ _ _ Hin) as (pr & Hp & _).
  destruct (suffix_productive _ _ _ _ _ k Hin Hp) as [y Hy].
  destruct (item_sentence _ _ _ _ _ _ _ _ Hwf Hin Hp Hy) as (z & Hz & _).
  exists (y ++ z). exact Hz.
Qed.

Lemma complete_item_next ss sg w p la pr :
  wfs ss sg w -> In (p, length (rhs pr), la) (items_of (hd 0 ss)) -> nth_error g p = Some pr ->
  next_d w la.
Proof.
  intros Hwf Hin Hp.
  destruct (item_sentence _ _ _ _ _ _ _ [] Hwf Hin Hp) as (z & Hz & Hla).
  { rewrite skipn_all. constructor. }
  simpl in Hz. unfold next_d. destruct (Nat.eqb la EOFT) eqn:E.
  - apply Nat.eqb_eq in E. destruct z as [|c z]; [now rewrite app_nil_r in Hz|].
    simpl in Hla. exfalso. apply (NOEOF _ Hz). apply in_or_app. right. left. congruence.
  - apply Nat.eqb_neq in E. destruct z as [|c z]; [simpl in Hla; congruence|].
    simpl in Hla. subst c. exists z. now rewrite <- app_assoc.
Qed.

Theorem action_next ss sg w a act :
  wfs ss sg w -> action_at tb (hd 0 ss) a = Some (Some act) -> next_d w a.
Proof.
  intros Hwf Ha. destruct act as [s'|p|].
  - (* shift *)
    pose proof (B_shift _ _ _ BW _ _ _ Ha) as Hne.
    assert (Htr : trans tb (hd 0 ss) (T a) = Some s') by (simpl; now rewrite Ha).
    destruct (kernel_nonempty _ _ _ Htr) as (p & k & la & Hin').
    destruct (B_kernel _ _ _ BW _ _ _ Htr) as [_ Hk].
    destruct (Hk _ _ _ Hin') as (pr & Hp & HX & Hin).
    destruct (suffix_productive _ _ _ _ _ (S k) Hin Hp) as [y Hy].
    destruct (item_sentence _ _ _ _ _ _ _ ([a] ++ y) Hwf Hin Hp) as (z & Hz & _).
    { rewrite (skipn_at_nth _ _ _ HX). constructor; [constructor|assumption]. }
    unfold next_d. apply Nat.eqb_neq in Hne. rewrite Hne.
    exists (y ++ z). rewrite <- !app_assoc in *. exact Hz.
  - (* reduce *)
    destruct (B_reduce _ _ _ BW _ _ _ Ha) as (_ & pr & Hp & Hin).
    eapply complete_item_next; eauto.
  - (* accept *)
    destruct (B_accept _ _ _ BW _ _ Ha) as (-> & pr & Hp & Hl & Hin).
    rewrite <- Hl in Hin. eapply complete_item_next; eauto.
Qed.

(** * The invariant of the run *)
Section Run.
Variable sem : nat -> nat -> list attr -> option attr.
Variable input : list token.
Hypothesis INP : Forall (fun t => ttype t <> EOFT) input.

Definition Inv (c : cfg) : Prop :=
  exists cells sg,
    c_st c = cells ++ [(0, ANil)] /\
    wfs (map fst cells) sg (map ttype (firstn (c_i c) input)) /\
    c_i c <= length input.

Lemma top_bottom (cells : stack) : top (cells ++ [(0, ANil)]) = Some (hd 0 (map fst cells)).
Proof. destruct cells as [|[s a] cells]; reflexivity. Qed.

Lemma tok_at_noneof i : ttype (tok_at input i) <> EOFT -> i < length input.
Proof.
  intros H. destruct (Nat.lt_ge_cases i (length input)) as [|Hge]; [assumption|].
  unfold tok_at in H. rewrite nth_overflow in H by assumption. simpl in H. congruence.
Qed.

Lemma tok_at_inrange i : i < length input -> ttype (tok_at input i) <> EOFT.
Proof.
  intros H. rewrite Forall_forall in INP. apply INP. unfold tok_at. now apply nth_In.
Qed.

Lemma firstn_S_nth_tok i : i < length input -> firstn (S i) input = firstn i input ++ [tok_at input i].
Proof. intros H. unfold tok_at. now apply firstn_S_nth. Qed.

Lemma Inv0 : Inv cfg0.
Proof. exists [], []. simpl. repeat split; [constructor|lia]. Qed.

Lemma step_inv c c' : Inv c -> step tb sem input c = Some c' -> Inv c'.
Proof.
  intros (cells & sg & Hst & Hwf & Hi) H. unfold step in H.
  rewrite Hst, top_bottom in H.
  set (s := hd 0 (map fst cells)) in *. set (next := tok_at input (c_i c)) in *.
  destruct (action_at tb s (ttype next)) as [[[s'|p|]|]|] eqn:Ha; try discriminate.
  - (* shift *)
    inversion H; subst c'. clear H. unfold Inv. cbn [c_st c_i].
    pose proof (B_shift _ _ _ BW _ _ _ Ha) as Hne.
    pose proof (tok_at_noneof _ Hne) as Hlt.
    exists ((s', ATok next) :: cells), (T (ttype next) :: sg). split; [reflexivity|]. split; [|lia].
    rewrite (firstn_S_nth_tok (c_i c)) by assumption. rewrite map_app. simpl.
    constructor; [assumption| |constructor].
    simpl. fold s. now rewrite Ha.
  - (* reduce *)
    destruct (B_reduce _ _ _ BW _ _ _ Ha) as (Hp0 & pr & Hp & Hin).
    destruct (nth_error (t_prods tb) p) as [pw|] eqn:Hpw; [|discriminate].
    destruct (sh_prod _ _ _ SH p pr pw Hp Hpw) as (Hnt & Hlen & _ & _).
    destruct (length (cells ++ [(0, ANil)]) <? p_len pw) eqn:Hlt; [discriminate|].
    destruct (items_valid _ _ _ Hwf _ Hin) as (pr' & delta & z & Hp' & Hc & Hsr & Hla).
    rewrite Hp in Hp'. inversion Hp'; subst pr'. rewrite firstn_all in Hsr.
    set (n := p_len pw) in *.
    assert (Hsg : sg = rev (rhs pr) ++ rev delta).
    { rewrite <- (rev_involutive sg), Hsr, rev_app_distr. reflexivity. }
    pose proof (wfs_length _ _ _ Hwf) as Hlsg. rewrite map_length in Hlsg.
    assert (Hn : n <= length cells).
    { rewrite <- Hlsg, Hsg, app_length, rev_length. lia. }
    destruct (wfs_split _ _ _ Hwf n) as (w0 & ws & Hwf0 & Hws & Hw); [now rewrite map_length|].
    assert (Hf : rev (firstn n sg) = rhs pr).
    { rewrite Hsg. replace n with (length (rev (rhs pr))) by (rewrite rev_length; lia).
      rewrite firstn_length_app. apply rev_involutive. }
    rewrite Hf in Hws.
    rewrite skipn_app_le' in H by exact Hn.
    rewrite top_bottom in H.
    set (res := if p_act pw then _ else _) in H.
    destruct res as [[res calls'] log'].
    destruct res as [a|]; [|discriminate].
    destruct (goto_at tb (hd 0 (map fst (skipn n cells))) (p_nt pw)) as [gz|] eqn:Hg; [|discriminate].
    destruct (gz <? 0)%Z eqn:Hz; [discriminate|].
    inversion H; subst c'. clear H. unfold Inv. cbn [c_st c_i].
    exists ((Z.to_nat gz, a) :: skipn n cells), (NT (lhs pr) :: skipn n sg).
    split; [reflexivity|]. split; [|exact Hi].
    rewrite Hw. cbn [map fst]. rewrite <- skipn_map in *.
    constructor; [assumption| |econstructor; eauto].
    simpl. unfold goto_nat. rewrite <- Hnt, Hg, Hz. reflexivity.
Qed.

Lemma steps_inv n : forall c c', Inv c -> steps tb sem input n c = Some c' -> Inv c'.
Proof.
  induction n as [|n IH]; intros c c' HI H; simpl in H.
  - inversion H; subst. exact HI.
  - destruct (step tb sem input c) as [c1|] eqn:E; [|discriminate].
    eapply IH; [eapply step_inv; eauto|exact H].
Qed.

(** a successful step was licensed by a shift or reduce entry *)
Lemma step_some_action c c' : step tb sem input c = Some c' ->
  exists s act, top (c_st c) = Some s /\
                action_at tb s (ttype (tok_at input (c_i c))) = Some (Some act).
Proof.
  unfold step. destruct (top (c_st c)) as [s|]; [|discriminate].
  destruct (action_at tb s (ttype (tok_at input (c_i c)))) as [[act|]|] eqn:Ha; try discriminate.
  intros _. exists s, act. split; [reflexivity|exact Ha].
Qed.

(** in an invariant configuration: the consumed input is viable, non-nil actions are legal *)
Lemma inv_viable c : Inv c -> viable_d (map ttype (firstn (c_i c) input)).
Proof. intros (cells & sg & _ & Hwf & _). eapply stack_viable; eauto. Qed.

Lemma inv_action_next c s a act :
  Inv c -> top (c_st c) = Some s -> action_at tb s a = Some (Some act) ->
  next_d (map ttype (firstn (c_i c) input)) a.
Proof.
  intros (cells & sg & Hst & Hwf & _) Ht Ha. rewrite Hst, top_bottom in Ht. inversion Ht; subst s.
  eapply action_next; eauto.
Qed.

End Run.
End Viable.
