(** Completeness of the table-driven LR(1) parser model w.r.t. the boolean validator
    [valid_forward]: every parse tree of the start symbol whose yield is the input is
    accepted (no error, no panic, no recovery), within [size t + 1] steps.

    Under the extra (tree-level) condition that production 0 is not used inside the tree
    (implied by the boolean check [start_fresh]: the left-hand side of production 0 occurs
    in no right-hand side), the result value, the action log and the number of scans are
    exactly the post-order evaluation of the tree. *)
From Coq Require Import List ZArith Bool Arith Lia.
From Gocc Require Import LR.Parse LR.Validate LR.Trees.
Import ListNotations.

(** non-dependent mutual induction principle for [wt]/[wts] *)
Scheme wt_min := Minimality for wt Sort Prop
  with wts_min := Minimality for wts Sort Prop.
Combined Scheme wt_wts_min from wt_min, wts_min.

(** * Generic list facts *)
Lemma skipn_length_app {A} (a b : list A) : skipn (length a) (a ++ b) = b.
Proof. induction a as [|x a IH]; simpl; auto. Qed.

Lemma firstn_length_app {A} (a b : list A) : firstn (length a) (a ++ b) = a.
Proof. induction a as [|x a IH]; simpl; [reflexivity|]. now rewrite IH. Qed.

Lemma skipn_app_shift {A} : forall i (l a b : list A), skipn i l = a ++ b -> skipn (i + length a) l = b.
Proof.
  induction i as [|i IH]; intros l a b H.
  - simpl in *. subst l. apply skipn_length_app.
  - destruct l as [|x l]; simpl in *.
    + symmetry in H. apply app_eq_nil in H. destruct H as [-> ->]. reflexivity.
    + apply IH. exact H.
Qed.

Lemma skipn_cons_inv {A} : forall j (l : list A) x l',
  skipn j l = x :: l' -> nth_error l j = Some x /\ skipn (S j) l = l'.
Proof.
  induction j as [|j IH]; intros [|y l] x l' H; simpl in *; try discriminate.
  - inversion H; subst. split; reflexivity.
  - apply IH in H. exact H.
Qed.

Lemma skipn_length_plus {A} : forall j (l : list A), j <= length l -> j + length (skipn j l) = length l.
Proof. intros j l H. rewrite skipn_length. lia. Qed.

Lemma nth_skipn_hd {A} : forall i (l : list A) x r d, skipn i l = x :: r -> nth i l d = x.
Proof.
  induction i as [|i IH]; intros [|y l] x r d H; simpl in *; try discriminate.
  - now inversion H.
  - eapply IH; eauto.
Qed.

Lemma nth_error_combine {A B} : forall n (l1 : list A) (l2 : list B) a b,
  nth_error l1 n = Some a -> nth_error l2 n = Some b -> nth_error (combine l1 l2) n = Some (a, b).
Proof.
  induction n as [|n IH]; intros [|x l1] [|y l2] a b H1 H2; simpl in *; try discriminate.
  - congruence.
  - auto.
Qed.

Lemma nth_error_seq0 n len : n < len -> nth_error (seq 0 len) n = Some n.
Proof.
  intros H. rewrite (nth_error_nth' _ 0) by (now rewrite seq_length).
  now rewrite seq_nth.
Qed.

(** * Boolean membership *)
Lemma item_eqb_eq_c a b : item_eqb a b = true -> a = b.
Proof.
  destruct a as [[p1 k1] l1], b as [[p2 k2] l2]. unfold item_eqb.
  rewrite !andb_true_iff, !Nat.eqb_eq. intros [[-> ->] ->]. reflexivity.
Qed.

Lemma mem_item_In_c i l : mem_item i l = true -> In i l.
Proof.
  unfold mem_item. rewrite existsb_exists. intros (x & Hx & He).
  apply item_eqb_eq_c in He. now subst.
Qed.

Lemma mem_nat_In_c n l : mem_nat n l = true -> In n l.
Proof.
  unfold mem_nat. rewrite existsb_exists. intros (x & Hx & He).
  apply Nat.eqb_eq in He. now subst.
Qed.

(** * Tree measures and the post-order evaluation *)
Definition alog := list (nat * list attr).

Fixpoint size (t : tree) : nat :=
  match t with
  | Leaf _ => 1
  | Node _ kids => S ((fix sizes (l : list tree) : nat :=
                         match l with [] => 0 | x :: l' => size x + sizes l' end) kids)
  end.
Definition sizes : list tree -> nat :=
  fix sizes (l : list tree) : nat := match l with [] => 0 | x :: l' => size x + sizes l' end.

(** does the tree contain a node built by production 0 ? *)
Fixpoint uses0 (t : tree) : bool :=
  match t with
  | Leaf _ => false
  | Node p kids => Nat.eqb p 0 ||
                   (fix uses0s (l : list tree) : bool :=
                      match l with [] => false | x :: l' => uses0 x || uses0s l' end) kids
  end.
Definition uses0s : list tree -> bool :=
  fix uses0s (l : list tree) : bool := match l with [] => false | x :: l' => uses0 x || uses0s l' end.

Section Complete.
Variable g : grammar.
Variable tb : tables.
Variable an : annot.
Variable sem : nat -> nat -> list attr -> option attr.
Variable input : list token.

(** what a reduction by [p] computes from the children's values [vs] (mirror of [run]) *)
Definition red_result (p : nat) (vs : list attr) (c : nat) (lg : alog) : attr * nat * alog :=
  match nth_error (t_prods tb) p with
  | Some pw =>
    if p_act pw
    then (match sem c p vs with Some a => a | None => ANil end, S c, (p, vs) :: lg)
    else (match vs with [] => ANil | k :: _ => k end, c, lg)
  | None => (ANil, c, lg)
  end.

(** post-order evaluation, threading the call counter and the (reversed) log *)
Fixpoint teval (t : tree) (c : nat) (lg : alog) {struct t} : attr * nat * alog :=
  match t with
  | Leaf tk => (ATok tk, c, lg)
  | Node p kids =>
    let '(vs, c1, lg1) :=
      (fix tevals (l : list tree) (c : nat) (lg : alog) {struct l} : list attr * nat * alog :=
         match l with
         | [] => ([], c, lg)
         | x :: l' => let '(v, c1, lg1) := teval x c lg in
                      let '(vs, c2, lg2) := tevals l' c1 lg1 in (v :: vs, c2, lg2)
         end) kids c lg in
    red_result p vs c1 lg1
  end.
Definition tevals : list tree -> nat -> alog -> list attr * nat * alog :=
  fix tevals (l : list tree) (c : nat) (lg : alog) {struct l} : list attr * nat * alog :=
    match l with
    | [] => ([], c, lg)
    | x :: l' => let '(v, c1, lg1) := teval x c lg in
                 let '(vs, c2, lg2) := tevals l' c1 lg1 in (v :: vs, c2, lg2)
    end.

Lemma teval_node p kids c lg :
  teval (Node p kids) c lg = let '(vs, c1, lg1) := tevals kids c lg in red_result p vs c1 lg1.
Proof. reflexivity. Qed.

Lemma tevals_cons x l c lg :
  tevals (x :: l) c lg = let '(v, c1, lg1) := teval x c lg in
                        let '(vs, c2, lg2) := tevals l c1 lg1 in (v :: vs, c2, lg2).
Proof. reflexivity. Qed.

(** * Token stream facts *)
Definition hd_ty (w : list token) (d : nat) : nat :=
  match w with [] => d | t :: _ => ttype t end.

Lemma tok_at_skipn i t r : skipn i input = t :: r -> tok_at input i = t.
Proof. unfold tok_at. apply nth_skipn_hd. Qed.

Lemma tok_at_hd i w r :
  skipn i input = w ++ r -> ttype (tok_at input i) = hd_ty w (ttype (tok_at input (i + length w))).
Proof.
  destruct w as [|t w]; simpl; intros H.
  - now rewrite Nat.add_0_r.
  - now rewrite (tok_at_skipn _ _ _ H).
Qed.

(** * What the validator gives *)
Hypothesis V : valid_forward g tb an = true.
Hypothesis sem_total : forall i p kids, sem i p kids <> None.

Lemma V_parts : shape_ok g tb an = true /\ items_wf g tb an = true /\ f_first g an = true /\
                f_start an = true /\ f_closure g tb an = true /\ f_goto g tb an = true.
Proof.
  pose proof V as H. unfold valid_forward in H.
  repeat rewrite andb_true_iff in H. tauto.
Qed.

Lemma forall_states_spec f s : forall_states tb f = true -> s < nstates tb -> f s = true.
Proof.
  unfold forall_states. rewrite forallb_forall. intros H Hs. apply H. apply in_seq. lia.
Qed.

Lemma items_lt s it : In it (items_of an s) -> s < nstates tb.
Proof.
  intros Hin. destruct V_parts as (Hsh & _). unfold shape_ok in Hsh.
  repeat rewrite andb_true_iff in Hsh.
  destruct Hsh as ((((((_ & Hlen) & _) & _) & _) & _) & _).
  apply Nat.eqb_eq in Hlen. rewrite <- Hlen.
  destruct (Nat.lt_ge_cases s (length (a_items an))) as [|Hge]; [assumption|].
  unfold items_of in Hin. rewrite nth_overflow in Hin by assumption. destruct Hin.
Qed.

Lemma prods_spec p pr : nth_error g p = Some pr ->
  exists pw, nth_error (t_prods tb) p = Some pw /\ p_nt pw = lhs pr /\ p_len pw = length (rhs pr).
Proof.
  intros Hp. destruct V_parts as (Hsh & _). unfold shape_ok in Hsh.
  repeat rewrite andb_true_iff in Hsh.
  destruct Hsh as ((((_ & Hlen) & Hall) & _) & _).
  apply Nat.eqb_eq in Hlen.
  assert (Hlt : p < length g) by (apply nth_error_Some; congruence).
  destruct (nth_error (t_prods tb) p) as [pw|] eqn:Hpw.
  2:{ apply nth_error_None in Hpw. lia. }
  exists pw. split; [reflexivity|].
  pose proof (nth_error_combine _ _ _ _ _ Hpw Hp) as Hc. apply nth_error_In in Hc.
  rewrite forallb_forall in Hall. apply Hall in Hc. simpl in Hc.
  repeat rewrite andb_true_iff in Hc. destruct Hc as (((H1 & H2) & _) & _).
  apply Nat.eqb_eq in H1, H2. split; assumption.
Qed.

Lemma prods_of_spec q prq : nth_error g q = Some prq -> In q (prods_of g (lhs prq)).
Proof.
  intros Hq. unfold prods_of.
  assert (Hlt : q < length g) by (apply nth_error_Some; congruence).
  pose proof (nth_error_combine _ _ _ _ _ (nth_error_seq0 _ _ Hlt) Hq) as Hc.
  apply nth_error_In in Hc.
  change q with (fst (q, prq)) at 1. apply in_map. apply filter_In. split; [assumption|].
  simpl. apply Nat.eqb_refl.
Qed.

Lemma start_spec : In (0, 0, EOFT) (items_of an 0).
Proof. destruct V_parts as (_ & _ & _ & H & _). apply mem_item_In_c. exact H. Qed.

Lemma closure_spec s p k la pr B q prq b :
  In (p, k, la) (items_of an s) -> nth_error g p = Some pr -> nth_error (rhs pr) k = Some (NT B) ->
  nth_error g q = Some prq -> lhs prq = B ->
  In b (first_seq an (skipn (S k) (rhs pr)) la) ->
  In (q, 0, b) (items_of an s).
Proof.
  intros Hin Hp Hk Hq HB Hb. destruct V_parts as (_ & _ & _ & _ & Hc & _).
  unfold f_closure in Hc. apply (forall_states_spec _ s) in Hc; [|eapply items_lt; eauto].
  rewrite forallb_forall in Hc. specialize (Hc _ Hin). cbv beta iota in Hc.
  rewrite Hp, Hk in Hc. rewrite forallb_forall in Hc.
  subst B. specialize (Hc _ (prods_of_spec _ _ Hq)).
  rewrite forallb_forall in Hc. apply mem_item_In_c. apply Hc. exact Hb.
Qed.

Lemma goto_spec s p k la pr X :
  In (p, k, la) (items_of an s) -> nth_error g p = Some pr -> nth_error (rhs pr) k = Some X ->
  exists s', trans tb s X = Some s' /\ In (p, S k, la) (items_of an s').
Proof.
  intros Hin Hp Hk. destruct V_parts as (_ & _ & _ & _ & _ & Hc).
  unfold f_goto in Hc. apply (forall_states_spec _ s) in Hc; [|eapply items_lt; eauto].
  rewrite forallb_forall in Hc. specialize (Hc _ Hin). cbv beta iota in Hc.
  rewrite Hp, Hk in Hc. destruct (trans tb s X) as [s'|]; [|discriminate].
  exists s'. split; [reflexivity|]. now apply mem_item_In_c.
Qed.

Lemma complete_spec s p k la pr :
  In (p, k, la) (items_of an s) -> nth_error g p = Some pr -> nth_error (rhs pr) k = None ->
  (p <> 0 /\ action_at tb s la = Some (Some (Reduce p))) \/
  (p = 0 /\ la = EOFT /\ action_at tb s la = Some (Some Accept)).
Proof.
  intros Hin Hp Hk. destruct V_parts as (_ & _ & _ & _ & _ & Hc).
  unfold f_goto in Hc. apply (forall_states_spec _ s) in Hc; [|eapply items_lt; eauto].
  rewrite forallb_forall in Hc. specialize (Hc _ Hin). cbv beta iota in Hc.
  rewrite Hp, Hk in Hc.
  destruct (action_at tb s la) as [[[s'|q|]|]|]; try discriminate.
  - apply andb_true_iff in Hc. destruct Hc as [H1 H2]. apply Nat.eqb_eq in H1. subst q.
    apply negb_true_iff, Nat.eqb_neq in H2. left. split; [assumption|reflexivity].
  - apply andb_true_iff in Hc. destruct Hc as [H1 H2]. apply Nat.eqb_eq in H1, H2.
    right. repeat split; assumption.
Qed.

(** * The annotated nullable/FIRST contain the true ones *)
Lemma first_rule pr : In pr g ->
  (forallb (nullable_sym an) (rhs pr) = true -> nullable_nt an (lhs pr) = true) /\
  first_closed_rhs an (lhs pr) (rhs pr) = true.
Proof.
  intros Hin. destruct V_parts as (_ & _ & Hf & _). unfold f_first in Hf.
  rewrite forallb_forall in Hf. specialize (Hf _ Hin). apply andb_true_iff in Hf.
  destruct Hf as [H1 H2]. split; [|assumption].
  intros Hn. now rewrite Hn in H1.
Qed.

Lemma first_sound :
  (forall X t w, wt g X t w ->
     (w = [] -> nullable_sym an X = true) /\
     (forall t0 w', w = t0 :: w' -> In (ttype t0) (first_sym an X))) /\
  (forall gamma ts w, wts g gamma ts w ->
     (w = [] -> forallb (nullable_sym an) gamma = true) /\
     (forall n, first_closed_rhs an n gamma = true ->
        forall t0 w', w = t0 :: w' -> In (ttype t0) (first_nt an n)) /\
     (forall la, In (hd_ty w la) (first_seq an gamma la))).
Proof.
  apply wt_wts_min.
  - intros t. split; [discriminate|]. intros t0 w' H. inversion H; subst. simpl. auto.
  - intros p pr kids w Hp _ (IH1 & IH2 & _).
    destruct (first_rule pr (nth_error_In _ _ Hp)) as [Hn Hf]. simpl. split.
    + intros Hw. apply Hn. apply IH1. exact Hw.
    + intros t0 w' Hw. eapply IH2; eauto.
  - split; [reflexivity|]. split; [discriminate|]. intros la. simpl. auto.
  - intros X ss t ts w1 w2 _ (IHn & IHf) _ (IHsn & IHsf & IHsq). split; [|split].
    + intros Hw. apply app_eq_nil in Hw. destruct Hw as [-> ->]. simpl.
      rewrite IHn, IHsn; reflexivity.
    + intros n Hc t0 w' Hw. simpl in Hc. apply andb_true_iff in Hc. destruct Hc as [Hc1 Hc2].
      destruct w1 as [|t1 w1].
      * rewrite (IHn eq_refl) in Hc2. simpl in Hw. eapply IHsf; eauto.
      * simpl in Hw. inversion Hw; subst t1.
        rewrite forallb_forall in Hc1. apply mem_nat_In_c. apply Hc1. eapply IHf; reflexivity.
    + intros la. simpl. apply in_or_app. destruct w1 as [|t1 w1].
      * right. rewrite (IHn eq_refl). simpl. apply IHsq.
      * left. simpl. eapply IHf; reflexivity.
Qed.

Lemma first_seq_sound gamma ts w la : wts g gamma ts w -> In (hd_ty w la) (first_seq an gamma la).
Proof. intros H. apply (proj2 first_sound) in H. destruct H as (_ & _ & H). apply H. Qed.

(** * Single steps of [run] *)
(** the parser configuration: look-ahead = token number [i], [S i] scans done *)
Definition crun (fuel : nat) (st : stack) (i calls : nat) (lg : alog) : result :=
  run tb sem input fuel st (tok_at input i) (S i) calls lg.

Lemma step_shift fuel st s i calls lg s' :
  top st = Some s -> action_at tb s (ttype (tok_at input i)) = Some (Some (Shift s')) ->
  crun (S fuel) st i calls lg = crun fuel ((s', ATok (tok_at input i)) :: st) (S i) calls lg.
Proof.
  intros Ht Ha. unfold crun. cbn [run]. rewrite Ht, Ha. reflexivity.
Qed.

Lemma step_accept fuel st s i calls lg :
  top st = Some s -> action_at tb s (ttype (tok_at input i)) = Some (Some Accept) ->
  exists v, hd_error (map snd st) = Some v /\
            crun (S fuel) st i calls lg = {| r_out := POk v; r_log := rev lg; r_scans := S i |}.
Proof.
  intros Ht Ha. unfold crun. cbn [run]. rewrite Ht, Ha.
  destruct st as [|[s0 a0] st]; [discriminate|]. exists a0. split; reflexivity.
Qed.

Lemma step_reduce fuel cells st s'' s i calls lg p pw z v c' lg' :
  top (cells ++ st) = Some s'' ->
  action_at tb s'' (ttype (tok_at input i)) = Some (Some (Reduce p)) ->
  nth_error (t_prods tb) p = Some pw -> length cells = p_len pw ->
  top st = Some s -> goto_at tb s (p_nt pw) = Some z -> (z <? 0)%Z = false ->
  red_result p (rev (map snd cells)) calls lg = (v, c', lg') ->
  crun (S fuel) (cells ++ st) i calls lg = crun fuel ((Z.to_nat z, v) :: st) i c' lg'.
Proof.
  intros Ht Ha Hpw Hlen Hts Hg Hz Hr. unfold crun. cbn [run]. rewrite Ht, Ha, Hpw.
  assert (Hlt : (length (cells ++ st) <? p_len pw) = false).
  { apply Nat.ltb_ge. rewrite app_length. lia. }
  rewrite Hlt. rewrite <- Hlen, firstn_length_app, skipn_length_app.
  unfold red_result in Hr. rewrite Hpw in Hr.
  destruct (p_act pw).
  - destruct (sem calls p (rev (map snd cells))) as [a|] eqn:Hs; [|now apply sem_total in Hs].
    inversion Hr; subst. rewrite Hts, Hg, Hz. reflexivity.
  - inversion Hr; subst. rewrite Hts, Hg, Hz. reflexivity.
Qed.

(** * The simulation *)
Definition early (n : nat) (st : stack) (i calls : nat) (lg : alog) : Prop :=
  exists m v, m <= n /\ forall fuel, r_out (crun (m + fuel) st i calls lg) = POk v.

Definition sim_tree (X : sym) (t : tree) (w : list token) : Prop :=
  forall st s p k la pr i r calls lg s',
    top st = Some s -> In (p, k, la) (items_of an s) -> nth_error g p = Some pr ->
    nth_error (rhs pr) k = Some X -> skipn i input = w ++ r ->
    In (ttype (tok_at input (i + length w))) (first_seq an (skipn (S k) (rhs pr)) la) ->
    trans tb s X = Some s' ->
    (forall v c' lg', teval t calls lg = (v, c', lg') ->
       forall fuel, crun (size t + fuel) st i calls lg =
                    crun fuel ((s', v) :: st) (i + length w) c' lg')
    \/ (uses0 t = true /\ early (size t) st i calls lg).

Definition sim_trees (gamma : list sym) (ts : list tree) (w : list token) : Prop :=
  forall st s q prq j b i r calls lg,
    top st = Some s -> In (q, j, b) (items_of an s) -> nth_error g q = Some prq ->
    skipn j (rhs prq) = gamma -> skipn i input = w ++ r ->
    ttype (tok_at input (i + length w)) = b ->
    (forall vs c' lg', tevals ts calls lg = (vs, c', lg') ->
       exists cells s'', length cells = length gamma /\ rev (map snd cells) = vs /\
         top (cells ++ st) = Some s'' /\ In (q, j + length gamma, b) (items_of an s'') /\
         forall fuel, crun (sizes ts + fuel) st i calls lg =
                      crun fuel (cells ++ st) (i + length w) c' lg')
    \/ (uses0s ts = true /\ early (sizes ts) st i calls lg).

Lemma simulation :
  (forall X t w, wt g X t w -> sim_tree X t w) /\
  (forall gamma ts w, wts g gamma ts w -> sim_trees gamma ts w).
Proof.
  apply wt_wts_min.
  - (* leaf: shift *)
    intros t st s p k la pr i r calls lg s' Htop Hin Hp Hk Hsk Hla Htr.
    left. intros v c' lg' Hev fuel. simpl in Hev. inversion Hev; subst v c' lg'.
    simpl in Hsk. pose proof (tok_at_skipn _ _ _ Hsk) as Htok.
    simpl in Htr.
    destruct (action_at tb s (ttype t)) as [[[s1| |]|]|] eqn:Ha; try discriminate.
    inversion Htr; subst s1.
    change (size (Leaf t) + fuel) with (S fuel).
    rewrite (step_shift _ _ s _ _ _ s' Htop) by (rewrite Htok; exact Ha).
    rewrite Htok. simpl length. now rewrite Nat.add_1_r.
  - (* node: closure, children, reduce *)
    intros p' pr' kids w Hp' Hwts IH st s p k la pr i r calls lg s' Htop Hin Hp Hk Hsk Hla Htr.
    set (b := ttype (tok_at input (i + length w))) in *.
    pose proof (closure_spec _ _ _ _ _ _ _ _ b Hin Hp Hk Hp' eq_refl Hla) as Hin0.
    destruct (IH st s p' pr' 0 b i r calls lg Htop Hin0 Hp' eq_refl Hsk eq_refl) as [HA|[Hu HB]].
    2:{ right. split.
        - change (uses0 (Node p' kids)) with (Nat.eqb p' 0 || uses0s kids). rewrite Hu. apply orb_true_r.
        - destruct HB as (m & v & Hm & HB). exists m, v. split; [|assumption].
          change (size (Node p' kids)) with (S (sizes kids)). lia. }
    destruct (tevals kids calls lg) as [[vs c1] lg1] eqn:Ev.
    destruct (HA _ _ _ eq_refl) as (cells & s'' & Hlen & Hrev & Htop' & Hitem & Hrun).
    simpl in Hitem.
    assert (Hnone : nth_error (rhs pr') (length (rhs pr')) = None) by (apply nth_error_None; lia).
    destruct (complete_spec _ _ _ _ _ Hitem Hp' Hnone) as [[Hne Hact]|(H0 & Hb & Hact)].
    + (* reduce *)
      left. intros v c' lg' Hev fuel. rewrite teval_node, Ev in Hev.
      destruct (prods_spec _ _ Hp') as (pw & Hpw & Hnt & Hpl).
      simpl in Htr. unfold goto_nat in Htr.
      destruct (goto_at tb s (lhs pr')) as [z|] eqn:Hg; [|discriminate].
      destruct (z <? 0)%Z eqn:Hz; [discriminate|]. inversion Htr; subst s'.
      change (size (Node p' kids) + fuel) with (S (sizes kids + fuel)).
      rewrite <- Nat.add_succ_r, Hrun.
      rewrite <- Hrev in Hev.
      apply (step_reduce fuel cells st s'' s _ c1 lg1 p' pw z v c' lg'); auto.
      * congruence.
      * congruence.
    + (* production 0 inside the tree: the tables accept here *)
      right. subst p'. split; [reflexivity|].
      destruct (step_accept 0 (cells ++ st) s'' (i + length w) c1 lg1 Htop' Hact) as (v & Hv & _).
      exists (sizes kids + 1), v. split.
      * change (size (Node 0 kids)) with (S (sizes kids)). lia.
      * intros fuel. rewrite <- Nat.add_assoc, Hrun. simpl.
        destruct (step_accept fuel (cells ++ st) s'' (i + length w) c1 lg1 Htop' Hact) as (v' & Hv' & Hr).
        rewrite Hr. simpl. congruence.
  - (* no children *)
    intros st s q prq j b i r calls lg Htop Hin Hq Hsk Hin' Hb.
    left. intros vs c' lg' Hev. simpl in Hev. inversion Hev; subst vs c' lg'.
    exists [], s. simpl. rewrite !Nat.add_0_r. repeat split; auto.
  - (* first child, then the others *)
    intros X ss t ts w1 w2 _ IHt Hwts IHts st s q prq j b i r calls lg Htop Hin Hq Hsk Hinp Hb.
    destruct (skipn_cons_inv _ _ _ _ Hsk) as [Hj Hsk'].
    rewrite app_length, Nat.add_assoc in Hb.
    rewrite <- app_assoc in Hinp.
    pose proof (skipn_app_shift _ _ _ _ Hinp) as Hinp2.
    destruct (goto_spec _ _ _ _ _ _ Hin Hq Hj) as (s' & Htr & Hin').
    assert (Hla : In (ttype (tok_at input (i + length w1))) (first_seq an (skipn (S j) (rhs prq)) b)).
    { rewrite Hsk'. rewrite (tok_at_hd _ _ _ Hinp2), Hb. eapply first_seq_sound; eauto. }
    change (sizes (t :: ts)) with (size t + sizes ts).
    change (uses0s (t :: ts)) with (uses0 t || uses0s ts).
    destruct (IHt st s q j b prq i (w2 ++ r) calls lg s' Htop Hin Hq Hj Hinp Hla Htr) as [HA|[Hu HB]].
    2:{ right. split; [rewrite Hu; reflexivity|].
        destruct HB as (m & v & Hm & HB). exists m, v. split; [lia|assumption]. }
    destruct (teval t calls lg) as [[v c1] lg1] eqn:Ev.
    specialize (HA _ _ _ eq_refl).
    destruct (IHts ((s', v) :: st) s' q prq (S j) b (i + length w1) r c1 lg1
                eq_refl Hin' Hq Hsk' Hinp2 Hb) as [HA2|[Hu HB]].
    2:{ right. split; [rewrite Hu; apply orb_true_r|].
        destruct HB as (m & v' & Hm & HB). exists (size t + m), v'. split; [lia|].
        intros fuel. rewrite <- Nat.add_assoc, HA. apply HB. }
    left. intros vs c' lg' Hev. rewrite tevals_cons, Ev in Hev.
    destruct (tevals ts c1 lg1) as [[vs2 c2] lg2] eqn:Ev2. inversion Hev; subst vs c' lg'.
    destruct (HA2 _ _ _ eq_refl) as (cells & s'' & Hlen & Hrev & Htop' & Hitem & Hrun).
    exists (cells ++ [(s', v)]), s''. rewrite <- app_assoc. simpl.
    split; [rewrite app_length; simpl; lia|].
    split; [rewrite map_app, rev_app_distr; simpl; now rewrite Hrev|].
    split; [exact Htop'|].
    split; [now rewrite Nat.add_succ_r|].
    intros fuel. rewrite <- Nat.add_assoc, HA, Hrun, app_length, Nat.add_assoc. reflexivity.
Qed.

(** * Main theorems *)
Section Top.
Variables (pr0 : prod) (X0 : sym) (t : tree).
Hypothesis Hpr0 : nth_error g 0 = Some pr0.
Hypothesis Hrhs0 : rhs pr0 = [X0].
Hypothesis Hwt : wt g X0 t input.

Lemma top_level :
  (forall fuel, size t + 1 <= fuel ->
     parse tb sem input fuel =
       let '(v, _, lg) := teval t 0 [] in
       {| r_out := POk v; r_log := rev lg; r_scans := S (length input) |})
  \/ (uses0 t = true /\ early (size t) [(0, ANil)] 0 0 []).
Proof.
  pose proof start_spec as Hin.
  assert (Hk : nth_error (rhs pr0) 0 = Some X0) by (now rewrite Hrhs0).
  destruct (goto_spec _ _ _ _ _ _ Hin Hpr0 Hk) as (s' & Htr & Hin').
  assert (Hsk : skipn 0 input = input ++ []) by (now rewrite app_nil_r).
  assert (Heof : ttype (tok_at input (0 + length input)) = EOFT).
  { unfold tok_at. simpl. now rewrite nth_overflow. }
  assert (Hla : In (ttype (tok_at input (0 + length input)))
                   (first_seq an (skipn 1 (rhs pr0)) EOFT)).
  { rewrite Heof, Hrhs0. simpl. auto. }
  destruct (proj1 simulation _ _ _ Hwt [(0, ANil)] 0 0 0 EOFT pr0 0 [] 0 [] s'
              eq_refl Hin Hpr0 Hk Hsk Hla Htr) as [HA|HB]; [left|right; exact HB].
  intros fuel Hfuel. destruct (teval t 0 []) as [[v c'] lg'] eqn:Ev.
  specialize (HA _ _ _ eq_refl).
  assert (Hnone : nth_error (rhs pr0) 1 = None) by (now rewrite Hrhs0).
  destruct (complete_spec _ _ _ _ _ Hin' Hpr0 Hnone) as [[Hne _]|(_ & _ & Hact)]; [congruence|].
  rewrite <- Heof in Hact.
  replace fuel with (size t + S (fuel - size t - 1)) by lia.
  change (parse tb sem input (size t + S (fuel - size t - 1)))
    with (crun (size t + S (fuel - size t - 1)) [(0, ANil)] 0 0 []).
  rewrite HA.
  destruct (step_accept (fuel - size t - 1) [(s', v); (0, ANil)] s' _ c' lg' eq_refl Hact)
    as (v' & Hv' & Hr).
  rewrite Hr. simpl in Hv'. inversion Hv'; subst v'. reflexivity.
Qed.

(** Completeness: a parse tree of the start symbol whose yield is the input is accepted. *)
Theorem complete :
  forall fuel, size t + 1 <= fuel -> exists v, r_out (parse tb sem input fuel) = POk v.
Proof.
  intros fuel Hfuel. destruct top_level as [HA|[_ (m & v & Hm & HB)]].
  - rewrite (HA fuel Hfuel). destruct (teval t 0 []) as [[v c'] lg']. exists v. reflexivity.
  - exists v. replace fuel with (m + (fuel - m)) by lia. apply HB.
Qed.

(** Exact result when production 0 is not used inside the tree. *)
Theorem complete_exact :
  uses0 t = false ->
  forall fuel, size t + 1 <= fuel ->
    parse tb sem input fuel =
      let '(v, _, lg) := teval t 0 [] in
      {| r_out := POk v; r_log := rev lg; r_scans := S (length input) |}.
Proof.
  intros Hu. destruct top_level as [HA|[Hu' _]]; [exact HA|congruence].
Qed.
End Top.

End Complete.

(** * A boolean check that excludes production 0 inside trees *)
(** the left-hand side of production 0 (the augmented start symbol) occurs in no right-hand side *)
Definition start_fresh (g : grammar) : bool :=
  match g with
  | [] => true
  | pr0 :: _ => forallb (fun pr => negb (existsb (sym_eqb (NT (lhs pr0))) (rhs pr))) g
  end.

Lemma sym_eqb_refl X : sym_eqb X X = true.
Proof. destruct X; simpl; apply Nat.eqb_refl. Qed.

Lemma start_fresh_spec g pr0 pr :
  start_fresh g = true -> nth_error g 0 = Some pr0 -> In pr g -> ~ In (NT (lhs pr0)) (rhs pr).
Proof.
  intros Hf H0 Hin Hc. destruct g as [|pr0' g']; [discriminate|].
  simpl in H0. inversion H0; subst pr0'. unfold start_fresh in Hf.
  rewrite forallb_forall in Hf. specialize (Hf _ Hin). apply negb_true_iff in Hf.
  assert (He : existsb (sym_eqb (NT (lhs pr0))) (rhs pr) = true).
  { apply existsb_exists. exists (NT (lhs pr0)). split; [assumption|apply sym_eqb_refl]. }
  congruence.
Qed.

Lemma fresh_no_uses0 g pr0 :
  start_fresh g = true -> nth_error g 0 = Some pr0 ->
  (forall X t w, wt g X t w -> X <> NT (lhs pr0) -> uses0 t = false) /\
  (forall gamma ts w, wts g gamma ts w -> ~ In (NT (lhs pr0)) gamma -> uses0s ts = false).
Proof.
  intros Hf H0. apply wt_wts_min.
  - reflexivity.
  - intros p pr kids w Hp _ IH Hne.
    change (uses0 (Node p kids)) with (Nat.eqb p 0 || uses0s kids).
    rewrite IH by (eapply start_fresh_spec; eauto using nth_error_In).
    destruct p as [|p]; [|reflexivity]. exfalso. apply Hne. congruence.
  - reflexivity.
  - intros X ss t ts w1 w2 _ IHt _ IHts Hni.
    change (uses0s (t :: ts)) with (uses0 t || uses0s ts).
    rewrite IHt, IHts; [reflexivity| |]; intros Hc; apply Hni; simpl; auto.
Qed.

(** * Summary statements, closed *)
Theorem lr_complete :
  forall g tb an sem input,
    valid_forward g tb an = true ->
    (forall i p kids, sem i p kids <> None) ->
    forall pr0 X0 t, nth_error g 0 = Some pr0 -> rhs pr0 = [X0] -> wt g X0 t input ->
    forall fuel, size t + 1 <= fuel -> exists v, r_out (parse tb sem input fuel) = POk v.
Proof. intros. eapply complete; eauto. Qed.

Theorem lr_complete_exact :
  forall g tb an sem input,
    valid_forward g tb an = true -> start_fresh g = true ->
    (forall i p kids, sem i p kids <> None) ->
    forall pr0 X0 t, nth_error g 0 = Some pr0 -> rhs pr0 = [X0] -> wt g X0 t input ->
    forall fuel, size t + 1 <= fuel ->
      parse tb sem input fuel =
        let '(v, _, lg) := teval tb sem t 0 [] in
        {| r_out := POk v; r_log := rev lg; r_scans := S (length input) |}.
Proof.
  intros g tb an sem input V Hf Hs pr0 X0 t H0 Hr Hwt fuel Hfuel.
  eapply complete_exact; eauto.
  destruct (fresh_no_uses0 g pr0 Hf H0) as [Hno _].
  apply (Hno _ _ _ Hwt). intros ->.
  apply (start_fresh_spec g pr0 pr0 Hf H0 (nth_error_In _ _ H0)). rewrite Hr. simpl. auto.
Qed.

(** the same in the "exists fuel0" form (the hypothesis that the input holds no EOF-typed
    token is not needed) *)
Corollary lr_complete_fuel0 :
  forall g tb an sem input,
    valid_forward g tb an = true ->
    (forall i p kids, sem i p kids <> None) ->
    forall pr0 X0 t, nth_error g 0 = Some pr0 -> rhs pr0 = [X0] -> wt g X0 t input ->
    exists fuel0, forall fuel, fuel0 <= fuel -> exists v, r_out (parse tb sem input fuel) = POk v.
Proof. intros. exists (size t + 1). eapply lr_complete; eauto. Qed.

Print Assumptions lr_complete.
Print Assumptions lr_complete_fuel0.
Print Assumptions lr_complete_exact.
