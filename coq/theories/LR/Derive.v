(** Derivations at the level of token TYPES (no trees, no token identities), their equivalence
    with the parse trees of Trees.v, canonical inputs, sentences and viable prefixes. *)
From Coq Require Import List Arith Lia Bool.
From Gocc Require Import LR.Parse LR.Trees.
Import ListNotations.

Scheme wt_min' := Minimality for wt Sort Prop
  with wts_min' := Minimality for wts Sort Prop.
Combined Scheme wt_wts_min' from wt_min', wts_min'.

Lemma firstn_S_nth {A} : forall i (l : list A) d, i < length l -> firstn (S i) l = firstn i l ++ [nth i l d].
Proof.
  induction i as [|i IH]; intros [|x l] d H; simpl in *; try lia; [reflexivity|].
  f_equal. apply IH. lia.
Qed.

Lemma nth_firstn_app {A} j i (l rest : list A) d :
  j < i -> i <= length l -> nth j (firstn i l ++ rest) d = nth j l d.
Proof.
  intros Hj Hi. rewrite app_nth1 by (rewrite firstn_length; lia).
  rewrite <- (firstn_skipn i l) at 2. rewrite app_nth1 by (rewrite firstn_length; lia). reflexivity.
Qed.

(** * Canonical inputs: the [i]-th token has identity [i] *)
Fixpoint canon_from (i : nat) (tys : list nat) : list token :=
  match tys with
  | [] => []
  | ty :: r => {| ttype := ty; tid := i |} :: canon_from (S i) r
  end.
Definition canon (tys : list nat) : list token := canon_from 0 tys.

Lemma canon_from_types i tys : map ttype (canon_from i tys) = tys.
Proof. revert i. induction tys as [|ty r IH]; intros i; simpl; [reflexivity|]. now rewrite IH. Qed.

Lemma canon_types tys : map ttype (canon tys) = tys.
Proof. apply canon_from_types. Qed.

Lemma canon_from_length i tys : length (canon_from i tys) = length tys.
Proof. revert i. induction tys as [|ty r IH]; intros i; simpl; [reflexivity|]. now rewrite IH. Qed.

Lemma canon_length tys : length (canon tys) = length tys.
Proof. apply canon_from_length. Qed.

Lemma canon_from_nth : forall tys i j d,
  j < length tys -> nth j (canon_from i tys) d = {| ttype := nth j tys EOFT; tid := i + j |}.
Proof.
  induction tys as [|ty r IH]; intros i j d Hj; simpl in *; [lia|].
  destruct j as [|j].
  - now rewrite Nat.add_0_r.
  - rewrite IH by lia. f_equal. lia.
Qed.

(** the scanner on a canonical input: the token's identity is its index, also past the end *)
Lemma tok_at_canon tys j : tok_at (canon tys) j = {| ttype := nth j tys EOFT; tid := j |}.
Proof.
  unfold tok_at, canon. destruct (Nat.lt_ge_cases j (length tys)) as [Hlt|Hge].
  - now rewrite canon_from_nth.
  - rewrite nth_overflow by (now rewrite canon_from_length).
    now rewrite nth_overflow by assumption.
Qed.

Lemma firstn_canon_types i tys : map ttype (firstn i (canon tys)) = firstn i tys.
Proof. now rewrite <- firstn_map, canon_types. Qed.

Section D.
Variable g : grammar.

(** * Derivations of terminal strings *)
Inductive der : sym -> list nat -> Prop :=
| der_T a : der (T a) [a]
| der_NT p pr u : nth_error g p = Some pr -> ders (rhs pr) u -> der (NT (lhs pr)) u
with ders : list sym -> list nat -> Prop :=
| ders_nil : ders [] []
| ders_cons X gamma u v : der X u -> ders gamma v -> ders (X :: gamma) (u ++ v).

Scheme der_min := Minimality for der Sort Prop
  with ders_min := Minimality for ders Sort Prop.
Combined Scheme der_ders_min from der_min, ders_min.

Lemma wt_der :
  (forall X t w, wt g X t w -> der X (map ttype w)) /\
  (forall gamma ts w, wts g gamma ts w -> ders gamma (map ttype w)).
Proof.
  apply wt_wts_min'.
  - intros t. simpl. constructor.
  - intros p pr kids w Hp _ IH. econstructor; eauto.
  - constructor.
  - intros X ss t ts w1 w2 _ IH1 _ IH2. rewrite map_app. constructor; assumption.
Qed.

Lemma der_wt :
  (forall X u, der X u -> forall w, map ttype w = u -> exists t, wt g X t w) /\
  (forall gamma u, ders gamma u -> forall w, map ttype w = u -> exists ts, wts g gamma ts w).
Proof.
  apply der_ders_min.
  - intros a w Hw. destruct w as [|t [|t' w]]; simpl in Hw; try discriminate.
    inversion Hw; subst a. exists (Leaf t). constructor.
  - intros p pr u Hp _ IH w Hw. destruct (IH w Hw) as [ts Hts].
    exists (Node p ts). econstructor; eauto.
  - intros w Hw. destruct w; [|discriminate]. exists []. constructor.
  - intros X gamma u v _ IH1 _ IH2 w Hw.
    apply map_eq_app in Hw. destruct Hw as (w1 & w2 & -> & H1 & H2).
    destruct (IH1 _ H1) as [t Ht]. destruct (IH2 _ H2) as [ts Hts].
    exists (t :: ts). constructor; assumption.
Qed.

Lemma ders_app a b u v : ders a u -> ders b v -> ders (a ++ b) (u ++ v).
Proof.
  intros Ha Hb. induction Ha as [|X gamma u1 v1 HX Hg IH]; simpl; [exact Hb|].
  rewrite <- app_assoc. constructor; assumption.
Qed.

Lemma ders_app_inv : forall a b w, ders (a ++ b) w ->
  exists u v, w = u ++ v /\ ders a u /\ ders b v.
Proof.
  induction a as [|X a IH]; intros b w H; simpl in H.
  - exists [], w. repeat split; [constructor|assumption].
  - inversion H as [|X' g' u v HX Hg]; subst.
    destruct (IH _ _ Hg) as (u1 & v1 & -> & Ha & Hb).
    exists (u ++ u1), v1. rewrite app_assoc. repeat split; [constructor; assumption|assumption].
Qed.

Lemma ders_single X u : der X u -> ders [X] u.
Proof. intros H. rewrite <- (app_nil_r u). constructor; [assumption|constructor]. Qed.

Lemma ders_single_inv X u : ders [X] u -> der X u.
Proof.
  intros H. inversion H as [|X' g' u1 v HX Hg]; subst. inversion Hg; subst.
  now rewrite app_nil_r.
Qed.

Lemma ders_nil_inv u : ders [] u -> u = [].
Proof. intros H. now inversion H. Qed.

(** every symbol of [gamma] derives something => [gamma] does *)
Lemma ders_all gamma : (forall X, In X gamma -> exists u, der X u) -> exists u, ders gamma u.
Proof.
  induction gamma as [|X gamma IH]; intros H.
  - exists []. constructor.
  - destruct (H X (or_introl eq_refl)) as [u Hu].
    destruct IH as [v Hv]; [intros Y HY; apply H; now right|].
    exists (u ++ v). constructor; assumption.
Qed.

Lemma ders_all_nil gamma : (forall X, In X gamma -> der X []) -> ders gamma [].
Proof.
  induction gamma as [|X gamma IH]; intros H; [constructor|].
  change (@nil nat) with (@nil nat ++ []). constructor; [apply H; now left|].
  apply IH. intros Y HY. apply H. now right.
Qed.

(** * Sentences and viable prefixes (start symbol [X0] = the body of production 0) *)
Variable X0 : sym.

Definition sentence_t (tys : list nat) : Prop := exists t, wt g X0 t (canon tys).
Definition viable_t (u : list nat) : Prop := exists rest t, wt g X0 t (canon (u ++ rest)).

Lemma sentence_t_der tys : sentence_t tys <-> der X0 tys.
Proof.
  split.
  - intros [t Ht]. apply (proj1 wt_der) in Ht. now rewrite canon_types in Ht.
  - intros H. apply (proj1 der_wt _ _ H). apply canon_types.
Qed.

Lemma viable_t_der u : viable_t u <-> exists rest, der X0 (u ++ rest).
Proof.
  split.
  - intros (rest & t & Ht). exists rest. apply (proj1 wt_der) in Ht. now rewrite canon_types in Ht.
  - intros (rest & H). exists rest. apply (proj1 der_wt _ _ H). apply canon_types.
Qed.

(** what it means for terminal [a] (or end of input, [a = EOFT]) to be a legal continuation of [u] *)
Definition next_ok (u : list nat) (a : nat) : Prop :=
  if Nat.eqb a EOFT then sentence_t u else viable_t (u ++ [a]).

End D.
