(** Completeness of the LR parser model in small-step form.

    [Complete.v] proves the simulation as equalities between [run] results at different
    fuels; that form cannot tell whether the error-recovery branch of [run] ([error_step])
    was taken on the way.  Here the simulation is re-proved with [steps] of [Steps.v], whose
    [step] performs Shift and Reduce moves only: a parse tree of the start symbol whose
    yield is the input drives the parser, by [size t] Shift/Reduce moves, from the initial
    configuration to a configuration whose next move is Accept. *)
From Coq Require Import List ZArith Bool Arith Lia.
From Gocc Require Import LR.Parse LR.Validate LR.Trees LR.Complete LR.Steps.
Import ListNotations.

Definition mkc (st : stack) (i calls : nat) (lg : alog) : cfg :=
  {| c_st := st; c_i := i; c_calls := calls; c_log := lg |}.

(** a configuration whose next move is Accept *)
Definition accepting (tb : tables) (input : list token) (c : cfg) : Prop :=
  exists s, top (c_st c) = Some s /\ action_at tb s (ttype (tok_at input (c_i c))) = Some (Some Accept).

Section CS.
Variable g : grammar.
Variable tb : tables.
Variable an : annot.
Variable sem : nat -> nat -> list attr -> option attr.
Variable input : list token.
Hypothesis V : valid_forward g tb an = true.
Hypothesis sem_total : forall i p kids, sem i p kids <> None.

(** * Single steps *)
Lemma step_shift_s st s i calls lg s' :
  top st = Some s -> action_at tb s (ttype (tok_at input i)) = Some (Some (Shift s')) ->
  step tb sem input (mkc st i calls lg) =
    Some (mkc ((s', ATok (tok_at input i)) :: st) (S i) calls lg).
Proof.
  intros Ht Ha. unfold step, mkc. cbn [c_st c_i c_calls c_log]. rewrite Ht, Ha. reflexivity.
Qed.

Lemma step_reduce_s cells st s'' s i calls lg p pw z v c' lg' :
  top (cells ++ st) = Some s'' ->
  action_at tb s'' (ttype (tok_at input i)) = Some (Some (Reduce p)) ->
  nth_error (t_prods tb) p = Some pw -> length cells = p_len pw ->
  top st = Some s -> goto_at tb s (p_nt pw) = Some z -> (z <? 0)%Z = false ->
  red_result tb sem p (rev (map snd cells)) calls lg = (v, c', lg') ->
  step tb sem input (mkc (cells ++ st) i calls lg) = Some (mkc ((Z.to_nat z, v) :: st) i c' lg').
Proof.
  intros Ht Ha Hpw Hlen Hts Hg Hz Hr. unfold step, mkc. cbn [c_st c_i c_calls c_log].
  rewrite Ht, Ha, Hpw.
  assert (Hlt : (length (cells ++ st) <? p_len pw) = false).
  { apply Nat.ltb_ge. rewrite app_length. lia. }
  rewrite Hlt. rewrite <- Hlen, firstn_length_app, skipn_length_app.
  unfold red_result in Hr. rewrite Hpw in Hr.
  destruct (p_act pw).
  - destruct (sem calls p (rev (map snd cells))) as [a|] eqn:Hs; [|now apply sem_total in Hs].
    inversion Hr; subst. rewrite Hts, Hg, Hz. reflexivity.
  - inversion Hr; subst. rewrite Hts, Hg, Hz. reflexivity.
Qed.

(** * The simulation, small-step *)
Definition early_s (n : nat) (c : cfg) : Prop :=
  exists m c', m <= n /\ steps tb sem input m c = Some c' /\ accepting tb input c'.

Definition sim_tree_s (X : sym) (t : tree) (w : list token) : Prop :=
  forall st s p k la pr i r calls lg s',
    top st = Some s -> In (p, k, la) (items_of an s) -> nth_error g p = Some pr ->
    nth_error (rhs pr) k = Some X -> skipn i input = w ++ r ->
    In (ttype (tok_at input (i + length w))) (first_seq an (skipn (S k) (rhs pr)) la) ->
    trans tb s X = Some s' ->
    (forall v c' lg', teval tb sem t calls lg = (v, c', lg') ->
       steps tb sem input (size t) (mkc st i calls lg) =
         Some (mkc ((s', v) :: st) (i + length w) c' lg'))
    \/ (uses0 t = true /\ early_s (size t) (mkc st i calls lg)).

Definition sim_trees_s (gamma : list sym) (ts : list tree) (w : list token) : Prop :=
  forall st s q prq j b i r calls lg,
    top st = Some s -> In (q, j, b) (items_of an s) -> nth_error g q = Some prq ->
    skipn j (rhs prq) = gamma -> skipn i input = w ++ r ->
    ttype (tok_at input (i + length w)) = b ->
    (forall vs c' lg', tevals tb sem ts calls lg = (vs, c', lg') ->
       exists cells s'', length cells = length gamma /\ rev (map snd cells) = vs /\
         top (cells ++ st) = Some s'' /\ In (q, j + length gamma, b) (items_of an s'') /\
         steps tb sem input (sizes ts) (mkc st i calls lg) =
           Some (mkc (cells ++ st) (i + length w) c' lg'))
    \/ (uses0s ts = true /\ early_s (sizes ts) (mkc st i calls lg)).

Lemma simulation_s :
  (forall X t w, wt g X t w -> sim_tree_s X t w) /\
  (forall gamma ts w, wts g gamma ts w -> sim_trees_s gamma ts w).
Proof.
  apply wt_wts_min.
  - (* leaf: shift *)
    intros t st s p k la pr i r calls lg s' Htop Hin Hp Hk Hsk Hla Htr.
    left. intros v c' lg' Hev. cbn [teval] in Hev. inversion Hev; subst v c' lg'.
    cbn [app] in Hsk. pose proof (tok_at_skipn _ _ _ _ Hsk) as Htok.
    cbn [trans] in Htr.
    destruct (action_at tb s (ttype t)) as [[[s1| |]|]|] eqn:Ha; try discriminate.
    inversion Htr; subst s1.
    change (size (Leaf t)) with 1. cbn [steps].
    rewrite (step_shift_s st s i calls lg s' Htop) by (rewrite Htok; exact Ha).
    rewrite Htok. cbn [length]. rewrite Nat.add_1_r. reflexivity.
  - (* node: closure, children, reduce *)
    intros p' pr' kids w Hp' Hwts IH st s p k la pr i r calls lg s' Htop Hin Hp Hk Hsk Hla Htr.
    set (b := ttype (tok_at input (i + length w))) in *.
    pose proof (closure_spec g tb an V _ _ _ _ _ _ _ _ b Hin Hp Hk Hp' eq_refl Hla) as Hin0.
    destruct (IH st s p' pr' 0 b i r calls lg Htop Hin0 Hp' eq_refl Hsk eq_refl) as [HA|[Hu HB]].
    2:{ right. split.
        - change (uses0 (Node p' kids)) with (Nat.eqb p' 0 || uses0s kids).
          rewrite Hu. apply orb_true_r.
        - destruct HB as (m & cm & Hm & Hst & Hacc). exists m, cm.
          split; [|split; assumption].
          change (size (Node p' kids)) with (S (sizes kids)). lia. }
    destruct (tevals tb sem kids calls lg) as [[vs c1] lg1] eqn:Ev.
    destruct (HA _ _ _ eq_refl) as (cells & s'' & Hlen & Hrev & Htop' & Hitem & Hrun).
    cbn [Nat.add] in Hitem.
    assert (Hnone : nth_error (rhs pr') (length (rhs pr')) = None) by (apply nth_error_None; lia).
    destruct (complete_spec g tb an V _ _ _ _ _ Hitem Hp' Hnone) as [[Hne Hact]|(H0 & Hb & Hact)].
    + (* reduce *)
      left. intros v c' lg' Hev. rewrite teval_node, Ev in Hev.
      destruct (prods_spec g tb an V _ _ Hp') as (pw & Hpw & Hnt & Hpl).
      cbn [trans] in Htr. unfold goto_nat in Htr.
      destruct (goto_at tb s (lhs pr')) as [z|] eqn:Hg; [|discriminate].
      destruct (z <? 0)%Z eqn:Hz; [discriminate|]. inversion Htr; subst s'.
      change (size (Node p' kids)) with (S (sizes kids)).
      eapply steps_snoc; [exact Hrun|].
      rewrite <- Hrev in Hev.
      apply (step_reduce_s cells st s'' s _ c1 lg1 p' pw z v c' lg'); auto.
      * congruence.
      * congruence.
    + (* production 0 inside the tree: the tables accept here *)
      right. subst p'. split; [reflexivity|].
      exists (sizes kids), (mkc (cells ++ st) (i + length w) c1 lg1).
      split; [change (size (Node 0 kids)) with (S (sizes kids)); lia|].
      split; [exact Hrun|].
      exists s''. split; [exact Htop'|exact Hact].
  - (* no children *)
    intros st s q prq j b i r calls lg Htop Hin Hq Hsk Hin' Hb.
    left. intros vs c' lg' Hev. cbn [tevals] in Hev. inversion Hev; subst vs c' lg'.
    exists [], s. cbn [length app sizes steps]. rewrite !Nat.add_0_r.
    repeat split; auto.
  - (* first child, then the others *)
    intros X ss t ts w1 w2 _ IHt Hwts IHts st s q prq j b i r calls lg Htop Hin Hq Hsk Hinp Hb.
    destruct (skipn_cons_inv _ _ _ _ Hsk) as [Hj Hsk'].
    rewrite app_length, Nat.add_assoc in Hb.
    rewrite <- app_assoc in Hinp.
    pose proof (skipn_app_shift _ _ _ _ Hinp) as Hinp2.
    destruct (goto_spec g tb an V _ _ _ _ _ _ Hin Hq Hj) as (s' & Htr & Hin').
    assert (Hla : In (ttype (tok_at input (i + length w1))) (first_seq an (skipn (S j) (rhs prq)) b)).
    { rewrite Hsk'. rewrite (tok_at_hd _ _ _ _ Hinp2), Hb.
      eapply (first_seq_sound g tb an V); eauto. }
    change (sizes (t :: ts)) with (size t + sizes ts).
    change (uses0s (t :: ts)) with (uses0 t || uses0s ts).
    destruct (IHt st s q j b prq i (w2 ++ r) calls lg s' Htop Hin Hq Hj Hinp Hla Htr) as [HA|[Hu HB]].
    2:{ right. split; [rewrite Hu; reflexivity|].
        destruct HB as (m & cm & Hm & Hst & Hacc). exists m, cm.
        split; [lia|split; assumption]. }
    destruct (teval tb sem t calls lg) as [[v c1] lg1] eqn:Ev.
    specialize (HA _ _ _ eq_refl).
    destruct (IHts ((s', v) :: st) s' q prq (S j) b (i + length w1) r c1 lg1
                eq_refl Hin' Hq Hsk' Hinp2 Hb) as [HA2|[Hu HB]].
    2:{ right. split; [rewrite Hu; apply orb_true_r|].
        destruct HB as (m & cm & Hm & Hst & Hacc). exists (size t + m), cm.
        split; [lia|]. split; [|exact Hacc].
        eapply steps_app; [exact HA|exact Hst]. }
    left. intros vs c' lg' Hev. rewrite tevals_cons, Ev in Hev.
    destruct (tevals tb sem ts c1 lg1) as [[vs2 c2] lg2] eqn:Ev2. inversion Hev; subst vs c' lg'.
    destruct (HA2 _ _ _ eq_refl) as (cells & s'' & Hlen & Hrev & Htop' & Hitem & Hrun).
    exists (cells ++ [(s', v)]), s''. rewrite <- app_assoc. cbn [app length].
    split; [rewrite app_length; cbn [length]; lia|].
    split; [rewrite map_app, rev_app_distr; cbn [map rev app snd]; now rewrite Hrev|].
    split; [exact Htop'|].
    split; [now rewrite Nat.add_succ_r|].
    rewrite app_length, Nat.add_assoc.
    eapply steps_app; [exact HA|exact Hrun].
Qed.

(** * Main theorem: [size t] Shift/Reduce moves, then Accept *)
Section Top.
Variables (pr0 : prod) (X0 : sym) (t : tree).
Hypothesis Hpr0 : nth_error g 0 = Some pr0.
Hypothesis Hrhs0 : rhs pr0 = [X0].
Hypothesis Hwt : wt g X0 t input.

Lemma top_level_s :
  (exists s', forall v c' lg', teval tb sem t 0 [] = (v, c', lg') ->
     steps tb sem input (size t) cfg0 = Some (mkc [(s', v); (0, ANil)] (length input) c' lg') /\
     accepting tb input (mkc [(s', v); (0, ANil)] (length input) c' lg'))
  \/ (uses0 t = true /\ early_s (size t) cfg0).
Proof.
  pose proof (start_spec g tb an V) as Hin.
  assert (Hk : nth_error (rhs pr0) 0 = Some X0) by (now rewrite Hrhs0).
  destruct (goto_spec g tb an V _ _ _ _ _ _ Hin Hpr0 Hk) as (s' & Htr & Hin').
  assert (Hsk : skipn 0 input = input ++ []) by (now rewrite app_nil_r).
  assert (Heof : ttype (tok_at input (0 + length input)) = EOFT).
  { unfold tok_at. cbn [Nat.add]. now rewrite nth_overflow. }
  assert (Hla : In (ttype (tok_at input (0 + length input)))
                   (first_seq an (skipn 1 (rhs pr0)) EOFT)).
  { rewrite Heof, Hrhs0. cbn [skipn first_seq]. left. reflexivity. }
  destruct (proj1 simulation_s _ _ _ Hwt [(0, ANil)] 0 0 0 EOFT pr0 0 [] 0 [] s'
              eq_refl Hin Hpr0 Hk Hsk Hla Htr) as [HA|HB]; [left|right; exact HB].
  exists s'. intros v c' lg' Ev.
  specialize (HA _ _ _ Ev). cbn [Nat.add] in HA, Heof.
  split; [exact HA|].
  assert (Hnone : nth_error (rhs pr0) 1 = None) by (now rewrite Hrhs0).
  destruct (complete_spec g tb an V _ _ _ _ _ Hin' Hpr0 Hnone) as [[Hne _]|(_ & _ & Hact)];
    [congruence|].
  exists s'. split; [reflexivity|].
  unfold mkc. cbn [c_i]. rewrite Heof. exact Hact.
Qed.

Theorem complete_steps :
  uses0 t = false ->
  exists s', let '(v, c', lg') := teval tb sem t 0 [] in
    steps tb sem input (size t) cfg0 = Some (mkc [(s', v); (0, ANil)] (length input) c' lg') /\
    accepting tb input (mkc [(s', v); (0, ANil)] (length input) c' lg').
Proof.
  intros Hu. destruct top_level_s as [(s' & HA)|[Hu' _]]; [|congruence].
  exists s'. destruct (teval tb sem t 0 []) as [[v c'] lg'] eqn:Ev.
  apply HA. reflexivity.
Qed.
End Top.

End CS.

(** * Summary statement, closed *)
Theorem lr_complete_steps :
  forall g tb an sem input,
    valid_forward g tb an = true -> start_fresh g = true ->
    (forall i p kids, sem i p kids <> None) ->
    forall pr0 X0 t, nth_error g 0 = Some pr0 -> rhs pr0 = [X0] -> wt g X0 t input ->
    exists s', let '(v, c', lg') := teval tb sem t 0 [] in
      steps tb sem input (size t) cfg0 = Some (mkc [(s', v); (0, ANil)] (length input) c' lg') /\
      accepting tb input (mkc [(s', v); (0, ANil)] (length input) c' lg').
Proof.
  intros g tb an sem input V Hf Hs pr0 X0 t H0 Hr Hwt.
  apply (complete_steps g tb an sem input V Hs pr0 X0 t H0 Hr Hwt).
  destruct (fresh_no_uses0 g pr0 Hf H0) as [Hno _].
  apply (Hno _ _ _ Hwt). intros ->.
  apply (start_fresh_spec g pr0 pr0 Hf H0 (nth_error_In _ _ H0)). rewrite Hr. left. reflexivity.
Qed.

(** * [steps] paths never enter error recovery; accepting configurations end the run *)
Lemma step_some_action tb sem input c c' : step tb sem input c = Some c' ->
  exists s act, top (c_st c) = Some s /\
     action_at tb s (ttype (tok_at input (c_i c))) = Some (Some act) /\ act <> Accept.
Proof.
  unfold step. intros H.
  destruct (top (c_st c)) as [s|]; [|discriminate].
  destruct (action_at tb s (ttype (tok_at input (c_i c)))) as [[[s1|p|]|]|] eqn:Ha; try discriminate.
  - exists s, (Shift s1). split; [reflexivity|split; [exact Ha|discriminate]].
  - exists s, (Reduce p). split; [reflexivity|split; [exact Ha|discriminate]].
Qed.

(** every configuration on a [steps] path (strictly before the end) has a Shift or Reduce
    action: the nil-action branch of [run], the only place where [error_step] is called, is
    not taken *)
Lemma steps_no_error tb sem input : forall n c c', steps tb sem input n c = Some c' ->
  forall m c1, m < n -> steps tb sem input m c = Some c1 ->
  exists s act, top (c_st c1) = Some s /\
     action_at tb s (ttype (tok_at input (c_i c1))) = Some (Some act) /\ act <> Accept.
Proof.
  intros n c c' Hn m c1 Hm Hm1.
  replace n with (m + S (n - m - 1)) in Hn by lia.
  destruct (steps_prefix tb sem input _ _ _ _ Hn) as (c2 & H1 & H2).
  rewrite Hm1 in H1. inversion H1; subst c2.
  cbn [steps] in H2.
  destruct (step tb sem input c1) as [c3|] eqn:Hs; [|discriminate].
  eapply step_some_action; exact Hs.
Qed.

(** an accepting configuration ends the run with POk whatever the fuel *)
Lemma accepting_run tb sem input c : accepting tb input c ->
  forall fuel, exists v, hd_error (map snd (c_st c)) = Some v /\
    crunc tb sem input (S fuel) c = {| r_out := POk v; r_log := rev (c_log c); r_scans := S (c_i c) |}.
Proof.
  intros (s & Ht & Ha) fuel. unfold crunc. cbn [run]. rewrite Ht, Ha.
  destruct (c_st c) as [|[s0 a0] st]; [discriminate|]. exists a0. split; reflexivity.
Qed.

(** Putting the pieces together: the run of [parse] on a derivable input consists of
    [size t] Shift/Reduce moves (none of them through [error_step]) followed by Accept. *)
Corollary lr_complete_no_recovery :
  forall g tb an sem input,
    valid_forward g tb an = true -> start_fresh g = true ->
    (forall i p kids, sem i p kids <> None) ->
    forall pr0 X0 t, nth_error g 0 = Some pr0 -> rhs pr0 = [X0] -> wt g X0 t input ->
    exists cN,
      steps tb sem input (size t) cfg0 = Some cN /\ accepting tb input cN /\
      (forall m c1, m < size t -> steps tb sem input m cfg0 = Some c1 ->
         exists s act, top (c_st c1) = Some s /\
           action_at tb s (ttype (tok_at input (c_i c1))) = Some (Some act) /\ act <> Accept) /\
      (forall fuel, size t + 1 <= fuel ->
         parse tb sem input fuel =
           let '(v, _, lg) := teval tb sem t 0 [] in
           {| r_out := POk v; r_log := rev lg; r_scans := S (length input) |}).
Proof.
  intros g tb an sem input V Hf Hs pr0 X0 t H0 Hr Hwt.
  destruct (lr_complete_steps g tb an sem input V Hf Hs pr0 X0 t H0 Hr Hwt) as (s' & H).
  destruct (teval tb sem t 0 []) as [[v c'] lg'] eqn:Ev. destruct H as [Hst Hacc].
  exists (mkc [(s', v); (0, ANil)] (length input) c' lg').
  split; [exact Hst|]. split; [exact Hacc|]. split.
  - intros m c1 Hm Hm1. eapply steps_no_error; [exact Hst|exact Hm|exact Hm1].
  - intros fuel Hfuel. rewrite parse_crunc.
    replace fuel with (size t + S (fuel - size t - 1)) by lia.
    rewrite (crunc_steps tb sem input _ _ _ _ Hst).
    destruct (accepting_run tb sem input _ Hacc (fuel - size t - 1)) as (v' & Hv' & Hrun).
    rewrite Hrun. cbn in Hv'. inversion Hv'; subst v'. reflexivity.
Qed.

Print Assumptions simulation_s.
Print Assumptions lr_complete_steps.
Print Assumptions steps_no_error.
Print Assumptions accepting_run.
Print Assumptions lr_complete_no_recovery.
