(** Soundness of the table-driven parser model for ANY grammar, tables and annotation passing
    [valid_backward] (and [no_error_shift]): an accepted input has a parse tree for the start
    symbol whose yield is exactly the input, and the returned value / action log are the
    post-order evaluation of the actions over that tree (C02 "only if", C03, C15 "only if"). *)
From Coq Require Import List Arith ZArith Lia Bool.
From Gocc Require Import LR.Parse LR.Validate LR.Trees LR.Eval LR.ValidateProofs.
Import ListNotations.

Section Sound.
Variable g : grammar.
Variable tb : tables.
Variable an : annot.
Variable sem : nat -> nat -> list attr -> option attr.
Variable input : list token.

Hypothesis SH : shape_P g tb an.
Hypothesis BW : backward_P g tb an.
Hypothesis NES : forall s s', action_at tb s (t_err tb) <> Some (Some (Shift s')).
Hypothesis INP : Forall (fun t => ttype t <> EOFT) input.
Hypothesis INR : Forall (fun t => ttype t < nterms tb) input.   (* token types are columns of the table *)

Notation items_of := (items_of an).

Definition top_state (cells : stack) : nat := match cells with [] => 0 | (s, _) :: _ => s end.

(** cells above the bottom cell, top first; ghost trees top first; consumed input *)
Inductive wf_cells : stack -> list tree -> list token -> Prop :=
| wfc_nil : wf_cells [] [] []
| wfc_cons s a cells ts w X t wx :
    wf_cells cells ts w -> trans tb (top_state cells) X = Some s -> wt g X t wx ->
    wf_cells ((s, a) :: cells) (t :: ts) (w ++ wx).

Lemma wf_cells_length cells ts w : wf_cells cells ts w -> length ts = length cells.
Proof. induction 1; simpl; congruence. Qed.

Lemma top_state_0 cells ts w : wf_cells cells ts w -> top_state cells = 0 -> cells = [].
Proof.
  intros H. destruct H as [|s a cells ts w X t wx Hwf Htr Hwt]; [reflexivity|].
  simpl. intros ->. destruct (B_kernel _ _ _ BW _ _ _ Htr) as [Hne _]. congruence.
Qed.

Lemma firstn_snoc {A} (l : list A) k x : nth_error l k = Some x -> firstn (S k) l = firstn k l ++ [x].
Proof.
  revert k. induction l as [|y l IH]; intros [|k] H; simpl in *; try discriminate.
  - inversion H; reflexivity.
  - f_equal. apply IH. exact H.
Qed.

Lemma wts_snoc ss ts w X t wx : wts g ss ts w -> wt g X t wx -> wts g (ss ++ [X]) (ts ++ [t]) (w ++ wx).
Proof.
  intros H Ht. induction H.
  - simpl. rewrite <- (app_nil_r wx). constructor; [assumption|constructor].
  - simpl. rewrite <- app_assoc. constructor; assumption.
Qed.

(** key lemma: an item with the dot at [k] in the top state: the top [k] cells carry trees for
    the first [k] body symbols, in order, and the state below them holds the dot-0 item *)
Lemma item_prefix : forall cells ts w, wf_cells cells ts w ->
  forall p k la pr, In (p, k, la) (items_of (top_state cells)) -> nth_error g p = Some pr ->
  k <= length cells /\
  exists ws w0, wts g (firstn k (rhs pr)) (rev (firstn k ts)) ws /\
                wf_cells (skipn k cells) (skipn k ts) w0 /\ w = w0 ++ ws /\
                In (p, 0, la) (items_of (top_state (skipn k cells))).
Proof.
  intros cells ts w Hwf. induction Hwf as [|s a cells ts w X t wx Hwf IH Htr Hwt]; intros p k la pr Hin Hp.
  - simpl in Hin. apply (B_init _ _ _ BW) in Hin as Hk. subst k. simpl. split; [lia|].
    exists [], []. repeat split; try constructor. exact Hin.
  - destruct k as [|k].
    + simpl. split; [lia|]. exists [], (w ++ wx). repeat split.
      * constructor.
      * econstructor; eauto.
      * now rewrite app_nil_r.
      * exact Hin.
    + change (top_state ((s, a) :: cells)) with s in Hin.
      destruct (B_kernel _ _ _ BW _ _ _ Htr) as [_ Hk].
      destruct (Hk _ _ _ Hin) as (pr' & Hp' & Hnth & Hin').
      rewrite Hp in Hp'. inversion Hp'; subst pr'. clear Hp'.
      destruct (IH _ _ _ _ Hin' Hp) as (Hlen & ws & w0 & Hwts & Hwf0 & Hw & Hin0).
      split; [simpl; lia|]. exists (ws ++ wx), w0.
      change (skipn (S k) ((s, a) :: cells)) with (skipn k cells).
      change (skipn (S k) (t :: ts)) with (skipn k ts).
      change (firstn (S k) (t :: ts)) with (t :: firstn k ts). cbn [rev].
      repeat split.
      * rewrite (firstn_snoc _ _ _ Hnth). apply wts_snoc; assumption.
      * exact Hwf0.
      * rewrite Hw. now rewrite app_assoc.
      * exact Hin0.
Qed.

(** ** the invariant of the parse loop *)
Definition Inv (cells : stack) (ts : list tree) (next : token) (pos calls : nat) (log : calllog) : Prop :=
  wf_cells cells ts (firstn (pos - 1) input) /\ 1 <= pos /\ next = tok_at input (pos - 1) /\
  evals tb sem (rev ts) 0 [] = EOk (rev (map snd cells)) calls (rev log).

Definition good_result (r : result) : Prop :=
  match r_out r with
  | POk v => exists t pr0 X0 c, nth_error g 0 = Some pr0 /\ rhs pr0 = [X0] /\ wt g X0 t input /\
                                eval tb sem t 0 [] = EOk v c (r_log r)
  | PErr e =>
    match e_action e with
    | Some i => exists p kids l0, r_log r = l0 ++ [(p, kids)] /\ sem i p kids = None
    | None => True
    end
  | PPanic _ => False           (* no index out of range, failed type assertion, ... *)
  | PFuel => True
  end.

Lemma error_step_not_recovered fuel st next pos st' next' pos' :
  error_step tb input fuel st next pos <> Recovered st' next' pos'.
Proof.
  unfold error_step.
  destruct (match find_recover tb st 0 with
            | Some k => (rev (map snd (firstn k st)), skipn k st)
            | None => ([], st) end) as [removed st1].
  destruct (top st1) as [s1|]; [|discriminate].
  destruct (action_at tb s1 (t_err tb)) as [[[s2|p|]|]|] eqn:E; try discriminate.
  exfalso. exact (NES _ _ E).
Qed.

Lemma action_at_some s a : s < nstates tb -> a < nterms tb -> exists x, action_at tb s a = Some x.
Proof.
  intros Hs Ha. unfold action_at, nstates in *.
  destruct (nth_error (t_states tb) s) as [r|] eqn:E; [|apply nth_error_None in E; lia].
  destruct (sh_rows _ _ _ SH s r E) as (Hl & _).
  destruct (nth_error (s_actions r) a) as [x|] eqn:E2; [eauto|]. apply nth_error_None in E2. lia.
Qed.

Lemma wf_cells_states cells ts w : wf_cells cells ts w -> Forall (fun c => fst c < nstates tb) cells.
Proof.
  induction 1 as [|s a cells ts w X t wx Hwf IH Htr Hwt]; constructor; [|exact IH].
  simpl. destruct (trans_range _ _ _ SH _ _ _ Htr) as (_ & H & _). exact H.
Qed.

Lemma top_state_lt cells ts w : wf_cells cells ts w -> top_state cells < nstates tb.
Proof.
  intros H. destruct cells as [|[s a] cells]; simpl; [exact (sh_pos _ _ _ SH)|].
  apply wf_cells_states in H. inversion H; subst. assumption.
Qed.

Lemma find_recover_lt st : forall j k, find_recover tb st j = Some k -> j <= k < j + length st.
Proof.
  induction st as [|[s a] st IH]; intros j k H; simpl in H; [discriminate|].
  destruct (recover_at tb s); [inversion H; subst; simpl; lia|].
  apply IH in H. simpl. lia.
Qed.

Lemma tok_type_lt pos : ttype (tok_at input pos) < nterms tb.
Proof.
  unfold tok_at. destruct (Nat.lt_ge_cases pos (length input)) as [Hlt|Hge].
  - rewrite Forall_forall in INR. apply INR. apply nth_In. exact Hlt.
  - rewrite nth_overflow by exact Hge. simpl. unfold EOFT. exact (sh_terms _ _ _ SH).
Qed.

(** without an error-shift, Error() finds nothing to do and never panics *)
Lemma error_step_nes fuel st next pos :
  st <> [] -> Forall (fun c => fst c < nstates tb) st ->
  (exists st1 s1, error_step tb input fuel st next pos = NotRecovered st1 pos /\ top st1 = Some s1) .
Proof.
  intros Hne Hst. unfold error_step.
  assert (Hsub : forall k, k < length st -> exists c rest, skipn k st = c :: rest /\ fst c < nstates tb).
  { intros k Hk. destruct (skipn k st) as [|c rest] eqn:E.
    - assert (length (skipn k st) = 0) by (rewrite E; reflexivity). rewrite skipn_length in H. lia.
    - exists c, rest. split; [reflexivity|]. rewrite Forall_forall in Hst. apply Hst.
      rewrite <- (firstn_skipn k st), E. apply in_or_app. right. left. reflexivity. }
  match goal with |- context [let '(_, _) := ?m in _] => destruct m as [removed st1] eqn:Epr end.
  assert (Hst1 : exists s1 a1 rest, st1 = (s1, a1) :: rest /\ s1 < nstates tb).
  { destruct (find_recover tb st 0) as [k|] eqn:E.
    - apply find_recover_lt in E. destruct (Hsub k) as ([s1 a1] & rest & Hs & Hc); [lia|].
      inversion Epr; subst. eauto.
    - inversion Epr; subst. destruct st1 as [|[s1 a1] rest]; [congruence|]. inversion Hst; subst. eauto. }
  destruct Hst1 as (s1 & a1 & rest & -> & Hc). cbn [top].
  destruct (action_at_some s1 (t_err tb) Hc (sh_err _ _ _ SH)) as [x Hx]. rewrite Hx.
  destruct x as [[s2|p|]|]; try (eexists; eexists; split; [reflexivity|reflexivity]).
  exfalso. exact (NES _ _ Hx).
Qed.

Lemma tok_at_eof pos : ttype (tok_at input pos) = EOFT -> length input <= pos.
Proof.
  unfold tok_at. intros H. destruct (Nat.lt_ge_cases pos (length input)) as [Hlt|Hge]; [|exact Hge].
  exfalso. rewrite Forall_forall in INP. apply (INP (nth pos input {| ttype := EOFT; tid := pos |})).
  - apply nth_In. exact Hlt.
  - exact H.
Qed.

Lemma tok_at_in pos : ttype (tok_at input pos) <> EOFT -> nth_error input pos = Some (tok_at input pos).
Proof.
  unfold tok_at. intros H. destruct (Nat.lt_ge_cases pos (length input)) as [Hlt|Hge].
  - apply nth_error_nth'. exact Hlt.
  - rewrite nth_overflow in H by exact Hge. simpl in H. congruence.
Qed.

Lemma skipn_app_le {A} (l1 l2 : list A) n : n <= length l1 -> skipn n (l1 ++ l2) = skipn n l1 ++ l2.
Proof. intros H. rewrite skipn_app. replace (n - length l1) with 0 by lia. reflexivity. Qed.

Lemma firstn_app_le {A} (l1 l2 : list A) n : n <= length l1 -> firstn n (l1 ++ l2) = firstn n l1.
Proof. intros H. rewrite firstn_app. replace (n - length l1) with 0 by lia. simpl. apply app_nil_r. Qed.

Lemma map_snd_firstn_skipn (cells : stack) n :
  rev (map snd cells) = rev (map snd (skipn n cells)) ++ rev (map snd (firstn n cells)).
Proof. rewrite <- rev_app_distr, <- map_app, firstn_skipn. reflexivity. Qed.

Lemma app_inv_length_l {A} (a b c d : list A) : a ++ b = c ++ d -> length a = length c -> a = c /\ b = d.
Proof.
  revert c. induction a as [|x a IH]; intros [|y c] H Hl; simpl in *; try discriminate; [auto|].
  inversion H; subst. destruct (IH c H2) as [-> ->]; [lia|]. auto.
Qed.

Lemma top_app_bottom cells : top (cells ++ [(0, ANil)]) = Some (top_state cells).
Proof. destruct cells as [|[s a] cells]; reflexivity. Qed.

Theorem run_sound : forall fuel cells ts next pos calls log,
  Inv cells ts next pos calls log ->
  good_result (run tb sem input fuel (cells ++ [(0, ANil)]) next pos calls log).
Proof.
  induction fuel as [|fuel IH]; intros cells ts next pos calls log HI; [exact I|].
  destruct HI as (Hwf & Hpos & Hnext & Hev).
  cbn [run]. rewrite top_app_bottom.
  destruct (action_at tb (top_state cells) (ttype next)) as [[[s'|p|]|]|] eqn:Hact.
  5:{ exfalso. destruct (action_at_some (top_state cells) (ttype next)) as [x Hx];
        [eapply top_state_lt; eauto|rewrite Hnext; apply tok_type_lt|congruence]. }
  - (* shift *)
    pose proof (B_shift _ _ _ BW _ _ _ Hact) as Hne.
    assert (Hnth : nth_error input (pos - 1) = Some next) by (rewrite Hnext in *; apply tok_at_in; exact Hne).
    change ((s', ATok next) :: cells ++ [(0, ANil)]) with (((s', ATok next) :: cells) ++ [(0, ANil)]).
    apply (IH ((s', ATok next) :: cells) (Leaf next :: ts)).
    unfold Inv. replace (S pos - 1) with (S (pos - 1)) by lia.
    split; [|split; [lia|split]].
    + rewrite (firstn_snoc _ _ _ Hnth). apply (wfc_cons s' (ATok next) cells ts _ (T (ttype next)) (Leaf next) [next]).
      * exact Hwf.
      * simpl. rewrite Hact. reflexivity.
      * constructor.
    + f_equal. lia.
    + cbn [rev map snd]. rewrite evals_app, Hev. cbn [evals eval]. reflexivity.
  - (* reduce *)
    destruct (B_reduce _ _ _ BW _ _ _ Hact) as (Hp0 & prg & Hpg & Hin).
    destruct (proj1 (sh_prods _ _ _ SH p) (ex_intro _ prg Hpg)) as [pw Hpw].
    rewrite Hpw. destruct (sh_prod _ _ _ SH p prg pw Hpg Hpw) as (Hnt & Hlen & _ & _).
    destruct (item_prefix _ _ _ Hwf _ _ _ _ Hin Hpg) as (Hk & ws & w0 & Hwts & Hwf0 & Hw & Hin0).
    rewrite firstn_all in Hwts. set (n := p_len pw) in *.
    assert (Hn : n = length (rhs prg)) by exact Hlen. rewrite <- Hn in *.
    assert (Hlt : (length (cells ++ [(0, ANil)]) <? n) = false).
    { apply Nat.ltb_ge. rewrite app_length. simpl. lia. }
    rewrite Hlt. rewrite firstn_app_le by exact Hk. rewrite skipn_app_le by exact Hk.
    (* split the evaluation of the forest *)
    pose proof (wf_cells_length _ _ _ Hwf) as Hlts.
    assert (Hts : rev ts = rev (skipn n ts) ++ rev (firstn n ts)).
    { rewrite <- rev_app_distr, firstn_skipn. reflexivity. }
    rewrite Hts, evals_app in Hev.
    destruct (evals tb sem (rev (skipn n ts)) 0 []) as [v1 c1 l1|] eqn:E1; [|discriminate].
    destruct (evals tb sem (rev (firstn n ts)) c1 l1) as [v2 c2 l2|] eqn:E2; [|discriminate].
    inversion Hev as [[Hv Hc Hl]]; subst c2 l2. clear Hev.
    rewrite (map_snd_firstn_skipn cells n) in Hv.
    apply app_inv_length_l in Hv.
    2:{ apply evals_length in E1. rewrite E1, !rev_length, map_length, !skipn_length. lia. }
    destruct Hv as [Hv1 Hv2]. subst v1 v2.
    set (kids := rev (map snd (firstn n cells))) in *.
    set (kt := rev (firstn n ts)) in *.
    assert (Hnode : eval tb sem (Node p kt) c1 l1 = apply_action tb sem p kids calls (rev log)).
    { rewrite eval_node, E2. reflexivity. }
    unfold apply_action in Hnode. rewrite Hpw in Hnode.
    rewrite top_app_bottom.
    destruct (B_demand _ _ _ BW _ _ _ _ Hin0 Hp0 Hpg) as [sg Hsg].
    assert (Hgoto : exists gz, goto_at tb (top_state (skipn n cells)) (p_nt pw) = Some gz /\ (gz <? 0)%Z = false /\ Z.to_nat gz = sg).
    { unfold goto_nat in Hsg. rewrite Hnt. destruct (goto_at tb (top_state (skipn n cells)) (lhs prg)) as [gz|]; [|discriminate].
      destruct (gz <? 0)%Z eqn:Ez; [discriminate|]. inversion Hsg. eauto. }
    destruct Hgoto as (gz & Hgz & Hgz0 & Hgzn).
    assert (Hstep : forall a calls' log',
              eval tb sem (Node p kt) c1 l1 = EOk a calls' (rev log') ->
              good_result (run tb sem input fuel (((sg, a) :: skipn n cells) ++ [(0, ANil)]) next pos calls' log')).
    { intros a calls' log' Hea. apply (IH ((sg, a) :: skipn n cells) (Node p kt :: skipn n ts)). unfold Inv. split; [|split; [exact Hpos|split; [exact Hnext|]]].
      - rewrite Hw. apply (wfc_cons sg a _ _ _ (NT (lhs prg)) (Node p kt) ws); [exact Hwf0| |].
        + simpl. exact Hsg.
        + econstructor; eauto.
      - cbn [rev map snd]. rewrite evals_app, E1. cbn [evals]. rewrite Hea. reflexivity. }
    destruct (p_act pw) eqn:Hpa.
    + destruct (sem calls p kids) as [a|] eqn:Hsem.
      * rewrite Hgz, Hgz0, Hgzn. apply Hstep. rewrite Hnode. cbn [rev]. reflexivity.
      * unfold good_result, mk_error. rewrite top_app_bottom. cbn [r_out r_log e_action].
        exists p, kids, (rev log). cbn [rev]. auto.
    + rewrite Hgz, Hgz0, Hgzn. apply Hstep. rewrite Hnode. reflexivity.
  - (* accept *)
    destruct (B_accept _ _ _ BW _ _ Hact) as (Ha & pr0 & Hp0 & Hl & Hin).
    destruct (item_prefix _ _ _ Hwf _ _ _ _ Hin Hp0) as (Hk & ws & w0 & Hwts & Hwf0 & Hw & Hin0).
    apply (B_start0 _ _ _ BW) in Hin0.
    pose proof (top_state_0 _ _ _ Hwf0 Hin0) as Hnil.
    destruct cells as [|[s a] cells]; [simpl in Hk; lia|].
    simpl in Hnil. subst cells. inversion Hwf as [|? ? ? ts' ? ? t ? Hwf' ? ? ]; subst.
    inversion Hwf'; subst. simpl in *.
    unfold good_result. cbn [r_out r_log].
    destruct (rhs pr0) as [|X0 [|? ?]] eqn:Hr; try discriminate.
    simpl in Hwts. inversion Hwts as [|? ? ? ? ? ? Hwt1 Hwts']; subst. inversion Hwts'; subst.
    inversion Hwf0; subst.
    assert (Hall : firstn (pos - 1) input = input).
    { apply firstn_all2. apply tok_at_eof. exact Ha. }
    exists t, pr0, X0, calls. repeat split; auto.
    + rewrite <- Hall, Hw. simpl. rewrite app_nil_r in *. exact Hwt1.
    + cbn [evals] in Hev. destruct (eval tb sem t 0 []) as [v c l|]; [|discriminate].
      inversion Hev; subst. reflexivity.
  - (* error: recovery cannot trigger *)
    destruct (error_step_nes (S (length input)) (cells ++ [(0, ANil)]) next pos) as (st1 & s1 & E & Ht).
    + destruct cells; discriminate.
    + apply Forall_app. split; [eapply wf_cells_states; eauto|]. constructor; [exact (sh_pos _ _ _ SH)|constructor].
    + rewrite E. unfold good_result, mk_error. cbn [r_out]. rewrite Ht. exact I.
Qed.

Theorem parse_sound fuel : good_result (parse tb sem input fuel).
Proof.
  unfold parse. apply (run_sound fuel [] [] (tok_at input 0) 1 0 []).
  unfold Inv. simpl. repeat split; try constructor.
Qed.

End Sound.
