(** Property C07, part 3: token conservation, with recovery enabled and for ARBITRARY tables
    (no validity hypothesis at all: this is a property of the [Parse]/[Error] loop alone).

    [toks_of a] = the token leaves of an attribute, left to right; for an error attribute the
    leaves of the DISCARDED attributes (the recorded offending token is only a record: it is
    still the look-ahead and may be shifted later).

    On a canonical input (token number [i] has identity [i]) and for user actions that only
    rearrange their arguments ([sem_rearranges]: the leaves of the result are a sub-sequence of
    the leaves of the arguments), at every moment of the run the leaves of the stack, read
    bottom to top, have strictly increasing identities, all smaller than the index of the
    look-ahead: no token is held twice, none is out of order, none comes from the future.
    Hence every argument list handed to a user action has strictly increasing identities, and so
    has the final value. *)
From Coq Require Import List Arith ZArith Lia Bool Sorted.
From Gocc Require Import LR.Parse LR.Derive LR.Recovery.
Import ListNotations.

Fixpoint toks_of (a : attr) : list token :=
  match a with
  | ATok t => [t]
  | ANode _ kids => flat_map toks_of kids
  | ANil => []
  | AErr _ discarded _ => flat_map toks_of discarded
  end.

Definition toks_list (l : list attr) : list token := flat_map toks_of l.

(** the leaves held by the stack, bottom to top *)
Definition stack_toks (st : stack) : list token := toks_list (rev (map snd st)).

Lemma toks_list_app a b : toks_list (a ++ b) = toks_list a ++ toks_list b.
Proof. apply flat_map_app. Qed.

Lemma stack_toks_cons s a st : stack_toks ((s, a) :: st) = stack_toks st ++ toks_of a.
Proof. unfold stack_toks. cbn [map snd rev]. rewrite toks_list_app. simpl. now rewrite app_nil_r. Qed.

Lemma stack_toks_split st n :
  stack_toks st = stack_toks (skipn n st) ++ toks_list (rev (map snd (firstn n st))).
Proof.
  unfold stack_toks. rewrite <- toks_list_app, <- rev_app_distr, <- map_app, firstn_skipn. reflexivity.
Qed.

(** * Sub-sequences *)
Inductive sublist {A} : list A -> list A -> Prop :=
| sub_nil : sublist [] []
| sub_skip x l1 l2 : sublist l1 l2 -> sublist l1 (x :: l2)
| sub_keep x l1 l2 : sublist l1 l2 -> sublist (x :: l1) (x :: l2).

Lemma sublist_refl {A} (l : list A) : sublist l l.
Proof. induction l; [constructor|apply sub_keep; auto]. Qed.

Lemma sublist_nil_l {A} (l : list A) : sublist [] l.
Proof. induction l; constructor; auto. Qed.

Lemma sublist_app_l {A} (l r : list A) : sublist l (l ++ r).
Proof. induction l; simpl; [apply sublist_nil_l|apply sub_keep; auto]. Qed.

Lemma sublist_map {A B} (f : A -> B) l1 l2 : sublist l1 l2 -> sublist (map f l1) (map f l2).
Proof. induction 1; simpl; [constructor|apply sub_skip; auto|apply sub_keep; auto]. Qed.

(** * [between lo l hi] : lo <= x1 < x2 < ... < xn < hi *)
Fixpoint between (lo : nat) (l : list nat) (hi : nat) : Prop :=
  match l with
  | [] => lo <= hi
  | x :: r => lo <= x /\ between (S x) r hi
  end.

Lemma between_le lo l hi : between lo l hi -> lo <= hi.
Proof. revert lo. induction l as [|x r IH]; intros lo; simpl; [auto|]. intros [H1 H2]. apply IH in H2. lia. Qed.

Lemma between_weaken lo lo' l hi hi' : lo' <= lo -> hi <= hi' -> between lo l hi -> between lo' l hi'.
Proof.
  revert lo lo'. induction l as [|x r IH]; intros lo lo' Hl Hh; simpl; [lia|].
  intros [H1 H2]. split; [lia|]. eapply IH; [| |exact H2]; lia.
Qed.

Lemma between_app lo l1 l2 hi :
  between lo (l1 ++ l2) hi <-> exists mid, between lo l1 mid /\ between mid l2 hi.
Proof.
  revert lo. induction l1 as [|x r IH]; intros lo; simpl.
  - split.
    + intros H. exists lo. split; [lia|exact H].
    + intros (mid & H1 & H2). eapply between_weaken; [exact H1| |exact H2]. lia.
  - rewrite IH. split.
    + intros (H1 & mid & H2 & H3). exists mid. auto.
    + intros (mid & (H1 & H2) & H3). split; [exact H1|]. exists mid. auto.
Qed.

Lemma between_sublist l1 l2 : sublist l1 l2 -> forall lo hi, between lo l2 hi -> between lo l1 hi.
Proof.
  induction 1 as [|x l1 l2 Hs IH|x l1 l2 Hs IH]; intros lo hi; simpl.
  - auto.
  - intros [H1 H2]. apply IH in H2. eapply between_weaken; [| |exact H2]; lia.
  - intros [H1 H2]. split; [exact H1|]. apply IH. exact H2.
Qed.

Lemma between_Forall lo l hi : between lo l hi -> Forall (fun x => lo <= x < hi) l.
Proof.
  revert lo. induction l as [|x r IH]; intros lo; simpl; [constructor|].
  intros [H1 H2]. pose proof (between_le _ _ _ H2) as Hle. constructor; [lia|].
  apply IH in H2. eapply Forall_impl; [|exact H2]. simpl. intros a Ha. lia.
Qed.

Lemma between_sorted lo l hi : between lo l hi -> StronglySorted lt l.
Proof.
  revert lo. induction l as [|x r IH]; intros lo; simpl; [constructor|].
  intros [H1 H2]. constructor; [eapply IH; eauto|].
  apply between_Forall in H2. eapply Forall_impl; [|exact H2]. simpl. intros a Ha. lia.
Qed.

Lemma sorted_NoDup l : StronglySorted lt l -> NoDup l.
Proof.
  induction 1 as [|x r Hs IH Hf]; constructor; [|exact IH].
  intros Hin. rewrite Forall_forall in Hf. specialize (Hf _ Hin). lia.
Qed.

(** * The invariant *)
Definition tids (l : list token) : list nat := map tid l.

(** an argument list (or a value) in which every token occurs at most once, in input order *)
Definition ordered_args (kids : list attr) : Prop := StronglySorted lt (tids (toks_list kids)).
Definition ordered_attr (a : attr) : Prop := StronglySorted lt (tids (toks_of a)).

(** user actions that only rearrange (keep, drop, nest) their arguments *)
Definition sem_rearranges (sem : nat -> nat -> list attr -> option attr) : Prop :=
  forall i p kids a, sem i p kids = Some a -> sublist (toks_of a) (toks_list kids).

Lemma sem_node_rearranges fail : sem_rearranges (sem_node fail).
Proof.
  intros i p kids a H. unfold sem_node in H.
  assert (Ha : a = ANode p kids).
  { destruct fail as [k|]; [destruct (Nat.eqb i k); [discriminate|]|]; now inversion H. }
  subst a. apply sublist_refl.
Qed.

Section Toks.
Variable tb : tables.
Variable sem : nat -> nat -> list attr -> option attr.
Variable input : list token.

Hypothesis CAN : forall i, tid (tok_at input i) = i.       (* canonical input *)
Hypothesis SEM : sem_rearranges sem.

Definition TInv (st : stack) (next : token) (pos : nat) : Prop :=
  1 <= pos /\ next = tok_at input (pos - 1) /\ between 0 (tids (stack_toks st)) (pos - 1).

Definition LInv (log : list (nat * list attr)) : Prop := Forall (fun e => ordered_args (snd e)) log.

Definition good_toks (r : result) : Prop :=
  Forall (fun e => ordered_args (snd e)) (r_log r) /\
  match r_out r with POk v => ordered_attr v | _ => True end.

Lemma default_sublist (kids : list attr) :
  sublist (toks_of (match kids with [] => ANil | k :: _ => k end)) (toks_list kids).
Proof. destruct kids as [|k r]; [constructor|]. unfold toks_list. simpl. apply sublist_app_l. Qed.

(** ** the invariant is preserved by each kind of move (the three lemmas below are the core of
    [run_toks]; they are stated separately as the specification of the moves) *)
Lemma TInv_init : TInv [(0, ANil)] (tok_at input 0) 1.
Proof. split; [lia|]. split; [reflexivity|]. simpl. lia. Qed.

Lemma TInv_shift st next pos s' :
  TInv st next pos -> TInv ((s', ATok next) :: st) (tok_at input pos) (S pos).
Proof.
  intros (Hpos & Hnext & Hb). split; [lia|]. split; [f_equal; lia|].
  rewrite stack_toks_cons. unfold tids. rewrite map_app. apply between_app.
  exists (pos - 1). split; [exact Hb|]. cbn [toks_of map between]. rewrite Hnext, CAN. lia.
Qed.

Lemma TInv_reduce st next pos n a s' :
  TInv st next pos ->
  sublist (toks_of a) (toks_list (rev (map snd (firstn n st)))) ->
  ordered_args (rev (map snd (firstn n st))) /\ TInv ((s', a) :: skipn n st) next pos.
Proof.
  intros (Hpos & Hnext & Hb) Hsub.
  rewrite (stack_toks_split st n) in Hb. unfold tids in Hb. rewrite map_app in Hb.
  apply between_app in Hb. destruct Hb as (mid & Hb1 & Hb2).
  split; [eapply between_sorted; exact Hb2|].
  split; [exact Hpos|]. split; [exact Hnext|].
  rewrite stack_toks_cons. unfold tids. rewrite map_app. apply between_app.
  exists mid. split; [exact Hb1|]. eapply between_sublist; [|exact Hb2]. apply sublist_map. exact Hsub.
Qed.

(** recovery moves the leaves of the popped cells into the error attribute: the leaves of the
    stack are unchanged; the skipped tokens are lost, never duplicated *)
Lemma TInv_recover st next pos st' next' pos' :
  TInv st next pos -> recovers tb input st next pos st' next' pos' ->
  stack_toks st' = stack_toks st /\ TInv st' next' pos'.
Proof.
  intros (Hpos & Hnext & Hb) Hr. destruct Hr as [s1 s2 next' pos' Et Ea Eg Hs].
  assert (Heq : stack_toks ((s2, AErr next (rev (map snd (firstn (rec_k tb st) st))) (expected tb s1))
                              :: skipn (rec_k tb st) st) = stack_toks st).
  { rewrite stack_toks_cons. cbn [toks_of]. fold (toks_list (rev (map snd (firstn (rec_k tb st) st)))).
    symmetry. apply stack_toks_split. }
  split; [exact Heq|].
  destruct (skip_rel_pos _ _ _ _ _ _ _ _ Hs Hpos Hnext) as (Hle & Hn' & _).
  split; [lia|]. split; [exact Hn'|]. rewrite Heq. eapply between_weaken; [| |exact Hb]; lia.
Qed.

Theorem run_toks : forall fuel st next pos calls log,
  TInv st next pos -> LInv log -> good_toks (run tb sem input fuel st next pos calls log).
Proof.
  induction fuel as [|fuel IH]; intros st next pos calls log HT HL.
  { split; [apply Forall_rev; exact HL|exact I]. }
  assert (Hfin : forall o, (forall v, o <> POk v) ->
            good_toks {| r_out := o; r_log := rev log; r_scans := pos |}).
  { intros o Ho. split; [apply Forall_rev; exact HL|]. cbn [r_out]. destruct o; auto. exfalso. eapply Ho; eauto. }
  destruct HT as (Hpos & Hnext & Hb).
  cbn [run]. destruct (top st) as [s|] eqn:Ht; [|apply Hfin; discriminate].
  destruct (action_at tb s (ttype next)) as [[[s'|p|]|]|] eqn:Hact; [| | | |apply Hfin; discriminate].
  - (* shift *)
    apply IH; [|exact HL]. split; [lia|]. split; [f_equal; lia|].
    rewrite stack_toks_cons. unfold tids. rewrite map_app. apply between_app.
    exists (pos - 1). split; [exact Hb|]. cbn [toks_of map between].
    rewrite Hnext, CAN. lia.
  - (* reduce *)
    destruct (nth_error (t_prods tb) p) as [pw|]; [|apply Hfin; discriminate].
    destruct (length st <? p_len pw); [apply Hfin; discriminate|].
    set (n := p_len pw). set (kids := rev (map snd (firstn n st))).
    rewrite (stack_toks_split st n) in Hb. fold kids in Hb.
    unfold tids in Hb. rewrite map_app in Hb. apply between_app in Hb.
    destruct Hb as (mid & Hb1 & Hb2).
    assert (Hkids : ordered_args kids) by (eapply between_sorted; exact Hb2).
    assert (Hres : forall a calls' log',
              sublist (toks_of a) (toks_list kids) -> LInv log' ->
              good_toks
                match top (skipn n st) with
                | None => {| r_out := PPanic 6; r_log := rev log; r_scans := pos |}
                | Some s0 =>
                  match goto_at tb s0 (p_nt pw) with
                  | None => {| r_out := PPanic 7; r_log := rev log; r_scans := pos |}
                  | Some gz =>
                    if (gz <? 0)%Z then {| r_out := PPanic 8; r_log := rev log'; r_scans := pos |}
                    else run tb sem input fuel ((Z.to_nat gz, a) :: skipn n st) next pos calls' log'
                  end
                end).
    { intros a calls' log' Hsub HL'.
      assert (Hf' : forall c, good_toks {| r_out := PPanic c; r_log := rev log'; r_scans := pos |}).
      { intros c. split; [apply Forall_rev; exact HL'|exact I]. }
      destruct (top (skipn n st)) as [s0|]; [|apply Hfin; discriminate].
      destruct (goto_at tb s0 (p_nt pw)) as [gz|]; [|apply Hfin; discriminate].
      destruct (gz <? 0)%Z; [apply Hf'|].
      apply IH; [|exact HL']. split; [exact Hpos|]. split; [exact Hnext|].
      rewrite stack_toks_cons. unfold tids. rewrite map_app. apply between_app.
      exists mid. split; [exact Hb1|].
      eapply between_sublist; [|exact Hb2]. apply sublist_map. exact Hsub. }
    destruct (p_act pw).
    + destruct (sem calls p kids) as [a|] eqn:Hsem.
      * apply (Hres a (S calls) ((p, kids) :: log)); [eapply SEM; eauto|]. constructor; [exact Hkids|exact HL].
      * split; [|cbn [r_out]; unfold mk_error; destruct (top (skipn n st)); exact I].
        cbn [r_log]. apply Forall_rev. constructor; [exact Hkids|exact HL].
    + apply (Hres _ calls log); [apply default_sublist|exact HL].
  - (* accept *)
    destruct st as [|[s0 a0] rest]; [apply Hfin; discriminate|].
    split; [apply Forall_rev; exact HL|]. cbn [r_out].
    rewrite stack_toks_cons in Hb. unfold tids in Hb. rewrite map_app in Hb. apply between_app in Hb.
    destruct Hb as (mid & _ & Hb2). eapply between_sorted; exact Hb2.
  - (* syntax error *)
    destruct (error_step tb input (S (length input)) st next pos) as [st' next' pos'|st' pos'|code|] eqn:Ee.
    + apply error_step_recovered in Ee.
      destruct Ee as [s1 s2 next' pos' Et Ea Eg Hs].
      destruct (skip_rel_pos _ _ _ _ _ _ _ _ Hs Hpos Hnext) as (Hle & Hn' & _).
      apply IH; [|exact HL]. split; [lia|]. split; [exact Hn'|].
      rewrite stack_toks_cons. cbn [toks_of]. fold (toks_list (rev (map snd (firstn (rec_k tb st) st)))).
      rewrite <- stack_toks_split. eapply between_weaken; [| |exact Hb]; lia.
    + split; [apply Forall_rev; exact HL|]. cbn [r_out]. unfold mk_error. destruct (top st'); exact I.
    + apply Hfin; discriminate.
    + apply Hfin; discriminate.
Qed.

Theorem parse_toks fuel : good_toks (parse tb sem input fuel).
Proof.
  unfold parse. apply run_toks; [|constructor].
  split; [lia|]. split; [reflexivity|]. simpl. lia.
Qed.

End Toks.

(** * Closed statements *)
(** every argument list handed to a user action, and the final value, hold each token at most
    once and in input order *)
Theorem C07_token_conservation :
  forall tb sem tys fuel,
    sem_rearranges sem ->
    let r := parse tb sem (canon tys) fuel in
    (forall p kids, In (p, kids) (r_log r) ->
       StronglySorted lt (map tid (toks_list kids)) /\ NoDup (map tid (toks_list kids))) /\
    (forall v, r_out r = POk v -> StronglySorted lt (map tid (toks_of v))).
Proof.
  intros tb sem tys fuel SEM r.
  destruct (parse_toks tb sem (canon tys)) with (fuel := fuel) as [H1 H2]; [|exact SEM|].
  { intros i. now rewrite tok_at_canon. }
  fold r in H1, H2. split.
  - intros p kids Hin. rewrite Forall_forall in H1. specialize (H1 _ Hin). simpl in H1.
    split; [exact H1|apply sorted_NoDup; exact H1].
  - intros v Hv. rewrite Hv in H2. exact H2.
Qed.

Corollary C07_token_conservation_node :
  forall tb fail tys fuel p kids,
    In (p, kids) (r_log (parse tb (sem_node fail) (canon tys) fuel)) ->
    StronglySorted lt (map tid (toks_list kids)).
Proof.
  intros tb fail tys fuel p kids Hin.
  destruct (C07_token_conservation tb (sem_node fail) tys fuel (sem_node_rearranges fail)) as [H _].
  apply (H p kids Hin).
Qed.

Print Assumptions TInv_recover.
Print Assumptions run_toks.
Print Assumptions C07_token_conservation.
Print Assumptions C07_token_conservation_node.
