(** Model of gocc's automatic LR(1) conflict resolution (property C05).

    Go sources:
      - internal/parser/lr1/action/action.go : the [ResolveConflict] methods.
          Accept.ResolveConflict(that)  : that is ERROR -> this ; otherwise PANIC
          Shift(s).ResolveConflict(that): Accept -> PANIC ; Shift -> PANIC ; ERROR, Reduce -> this
          Reduce(p).ResolveConflict(that): Accept -> PANIC ; Shift -> that ; ERROR -> this ;
                                           Reduce(q) -> if p < q then this else that
      - internal/parser/lr1/items/itemset.go : [ItemSet.Action(symbol)], the fold over the
        candidate actions of the items of a set:
<<
          conflictMap := map[string]Action{} ; act1 = ERROR
          for each item: act2 := item.action(symbol, ...)
            switch { case act2 == ERROR: skip
                     case act1 == ERROR: act1 = act2
                     case act1 != act2 : conflictMap[act1.String()] = act1
                                         conflictMap[act2.String()] = act2
                                         act1 = act1.ResolveConflict(act2)
                     default: nothing }
          conflicts = values of conflictMap      (Go map order: unspecified)
>>
    A candidate is an [option act] ([None] = action.ERROR).  [String()] is injective on
    non-ERROR actions ("accept", "Reduce(p)", "Shift(s)"), so the map is a set of actions;
    it is modelled by a duplicate-free list in insertion order.  A Go panic is [None].
    In [resolve] both arguments are non-ERROR (the fold never calls ResolveConflict with
    ERROR on either side).

    Definitions only; proofs are in ResolveProofs.v. *)
From Coq Require Import List Bool Arith.
From Gocc Require Import LR.Parse.
Import ListNotations.

Definition act_eqb (a b : act) : bool :=
  match a, b with
  | Shift s, Shift t => s =? t
  | Reduce p, Reduce q => p =? q
  | Accept, Accept => true
  | _, _ => false
  end.

(** [this.ResolveConflict(that)] for non-ERROR [this], [that]; [None] = panic *)
Definition resolve (this that : act) : option act :=
  match this, that with
  | Accept, _ => None
  | Shift s, Reduce _ => Some (Shift s)
  | Shift _, Shift _ => None
  | Shift _, Accept => None
  | Reduce _, Accept => None
  | Reduce _, Shift s => Some (Shift s)
  | Reduce p, Reduce q => Some (Reduce (if p <? q then p else q))
  end.

(** insertion into the conflict "map" (a set; insertion order kept) *)
Definition add_set (a : act) (l : list act) : list act :=
  if existsb (act_eqb a) l then l else l ++ [a].

(** one iteration of the loop on the state (act1, conflictMap); [None] = panic *)
Definition row_step (st : option act * list act) (c : option act)
  : option (option act * list act) :=
  match c with
  | None => Some st
  | Some a2 =>
    match fst st with
    | None => Some (Some a2, snd st)
    | Some a1 =>
      if act_eqb a1 a2 then Some st
      else match resolve a1 a2 with
           | None => None
           | Some a => Some (Some a, add_set a2 (add_set a1 (snd st)))
           end
    end
  end.

Fixpoint row_from (st : option act * list act) (cs : list (option act))
  : option (option act * list act) :=
  match cs with
  | [] => Some st
  | c :: r =>
    match row_step st c with
    | None => None
    | Some st' => row_from st' r
    end
  end.

(** [ItemSet.Action]: (winner, conflict set), or [None] when the Go code panics *)
Definition row_action (cs : list (option act)) : option (option act * list act) :=
  row_from (None, []) cs.
