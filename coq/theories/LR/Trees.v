(** Parse trees of a grammar and their yields. *)
From Coq Require Import List.
From Gocc Require Import LR.Parse.
Import ListNotations.

Inductive tree := Leaf (t : token) | Node (p : nat) (kids : list tree).

Inductive wt (g : grammar) : sym -> tree -> list token -> Prop :=
| wt_leaf t : wt g (T (ttype t)) (Leaf t) [t]
| wt_node p pr kids w : nth_error g p = Some pr -> wts g (rhs pr) kids w -> wt g (NT (lhs pr)) (Node p kids) w
with wts (g : grammar) : list sym -> list tree -> list token -> Prop :=
| wts_nil : wts g [] [] []
| wts_cons s ss t ts w1 w2 : wt g s t w1 -> wts g ss ts w2 -> wts g (s :: ss) (t :: ts) (w1 ++ w2).

Scheme wt_ind2 := Induction for wt Sort Prop
  with wts_ind2 := Induction for wts Sort Prop.
Combined Scheme wt_wts_ind from wt_ind2, wts_ind2.
