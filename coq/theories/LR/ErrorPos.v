(** Property C06: position and contents of syntax errors.

    Stage 1 ([C06_never_early]): a syntax error is never reported too early — the tokens up to
    and including the offending one are not a prefix of any sentence.  Needs only
    [valid_forward] and [no_error_shift]. *)
From Coq Require Import List Arith ZArith Lia Bool.
From Gocc Require Import LR.Parse LR.Validate LR.Trees LR.ValidateProofs LR.Complete LR.Derive LR.Steps LR.Exact LR.Viable.
Import ListNotations.

Lemma valid_forward_shape g tb an : valid_forward g tb an = true -> shape_ok g tb an = true.
Proof. unfold valid_forward. rewrite !andb_true_iff. tauto. Qed.

Section Early.
Variable g : grammar.
Variable tb : tables.
Variable an : annot.
Variable sem : nat -> nat -> list attr -> option attr.
Hypothesis VF : valid_forward g tb an = true.
Hypothesis NESb : no_error_shift tb = true.
Hypothesis sem_total : forall i p kids, sem i p kids <> None.
Variables (pr0 : prod) (X0 : sym).
Hypothesis Hpr0 : nth_error g 0 = Some pr0.
Hypothesis Hrhs0 : rhs pr0 = [X0].

Lemma NES : forall s s', action_at tb s (t_err tb) <> Some (Some (Shift s')).
Proof.
  apply (no_error_shift_P g tb an); [|exact NESb].
  apply shape_ok_P. apply valid_forward_shape. exact VF.
Qed.

Lemma mk_error_inv a tok st e : mk_error tb a tok st = PErr e ->
  exists s, top st = Some s /\ e = {| e_action := a; e_tok := tok; e_expected := expected tb s; e_top := s |}.
Proof.
  unfold mk_error. destruct (top st) as [s|]; [|discriminate].
  intros H. inversion H; subst. eauto.
Qed.

(** if the run on [in1] raises a syntax error in a configuration reached after [n] steps with
    look-ahead index [i], no input agreeing with [in1] up to index [i] has a parse tree *)
Lemma error_excludes in1 in2 n c e lg t :
  steps tb sem in1 n cfg0 = Some c -> error_cfg tb in1 c e lg ->
  (forall j, j < S (c_i c) -> tok_at in1 j = tok_at in2 j) ->
  wt g X0 t in2 -> False.
Proof.
  intros Hst (s & st' & pos' & Ht & Ha & _) Hag Hwt.
  assert (Hst2 : steps tb sem in2 n cfg0 = Some c).
  { eapply steps_agree; [exact Hag|exact Hst|].
    intros m c1 Hm H1. replace n with (m + (n - m)) in Hst by lia.
    destruct (steps_prefix _ _ _ _ _ _ _ Hst) as (c2 & H2 & H3).
    rewrite H1 in H2. inversion H2; subst c2. apply steps_index in H3. lia. }
  destruct (lr_complete g tb an sem in2 VF sem_total pr0 X0 t Hpr0 Hrhs0 Hwt
              (n + S (size t))) as [v Hv]; [lia|].
  rewrite parse_crunc, (crunc_steps _ _ _ _ _ _ _ Hst2) in Hv.
  revert Hv. eapply (nil_action_not_ok tb sem in2 NES); [exact Ht|].
  rewrite <- Hag by lia. exact Ha.
Qed.

Theorem C06_never_early_sec tys fuel e :
  r_out (parse tb sem (canon tys) fuel) = PErr e -> e_action e = None ->
  let i := tid (e_tok e) in
  e_tok e = tok_at (canon tys) i /\
  ~ sentence_t g X0 tys /\
  (i < length tys -> ~ viable_t g X0 (firstn i tys ++ [ttype (e_tok e)])).
Proof.
  intros Hr He. rewrite parse_crunc in Hr.
  destruct (run_err_inv tb sem (canon tys) NES _ _ _ Hr He) as (n & c & Hn & Hst & Hec).
  assert (Htok : e_tok e = tok_at (canon tys) (c_i c)).
  { destruct Hec as (s & st' & pos' & _ & _ & _ & Hm & _).
    apply mk_error_inv in Hm. destruct Hm as (s1 & _ & ->). reflexivity. }
  assert (Hi : tid (e_tok e) = c_i c) by (rewrite Htok, tok_at_canon; reflexivity).
  cbv zeta. rewrite Hi. split; [exact Htok|]. split.
  - intros [t Ht]. eapply error_excludes; eauto.
  - intros Hlt (rest & t & Ht). eapply error_excludes; [exact Hst|exact Hec| |exact Ht].
    intros j Hj. rewrite !tok_at_canon. f_equal.
    rewrite Htok, tok_at_canon. cbn [ttype].
    rewrite <- (firstn_S_nth _ _ EOFT Hlt).
    symmetry. apply nth_firstn_app; lia.
Qed.

End Early.

Theorem C06_never_early :
  forall g tb an sem,
    valid_forward g tb an = true -> no_error_shift tb = true ->
    (forall i p kids, sem i p kids <> None) ->
    forall pr0 X0, nth_error g 0 = Some pr0 -> rhs pr0 = [X0] ->
    forall tys fuel e,
      r_out (parse tb sem (canon tys) fuel) = PErr e -> e_action e = None ->
      let i := tid (e_tok e) in
      e_tok e = tok_at (canon tys) i /\
      ~ sentence_t g X0 tys /\
      (i < length tys -> ~ viable_t g X0 (firstn i tys ++ [ttype (e_tok e)])).
Proof. intros. eapply C06_never_early_sec; eauto. Qed.


(** * Stage 2: the exact error position and expected set, for canonical LR(1) tables *)

(** strictly increasing lists *)
Fixpoint increasing (l : list nat) : Prop :=
  match l with
  | [] => True
  | a :: r => (forall b, In b r -> a < b) /\ increasing r
  end.

Section Expected.
Variable tb : tables.

Lemma expected_from_spec : forall row i a,
  In a (expected_from i row) <-> i <= a /\ exists act, nth_error row (a - i) = Some (Some act).
Proof.
  induction row as [|x row IH]; intros i a; simpl.
  - split; [intros []|]. intros (_ & act & H). destruct (a - i); discriminate.
  - assert (Hrest : (i <= a /\ exists act, nth_error (x :: row) (a - i) = Some (Some act)) <->
                    ((a = i /\ exists act, x = Some act) \/
                     (S i <= a /\ exists act, nth_error row (a - S i) = Some (Some act)))).
    { split.
      - intros (Hle & act & H). destruct (a - i) as [|d] eqn:E.
        + left. split; [lia|]. simpl in H. inversion H. eauto.
        + right. split; [lia|]. exists act. replace (a - S i) with d by lia. exact H.
      - intros [(-> & act & ->)|(Hle & act & H)].
        + split; [lia|]. exists act. now rewrite Nat.sub_diag.
        + split; [lia|]. exists act. replace (a - i) with (S (a - S i)) by lia. exact H. }
    rewrite Hrest. destruct x as [act0|]; simpl; rewrite IH.
    + split.
      * intros [->|H]; [left; eauto|right; exact H].
      * intros [(-> & _)|H]; [now left|now right].
    + split.
      * intros H. now right.
      * intros [(_ & act & H)|H]; [discriminate|exact H].
Qed.

Lemma expected_from_increasing : forall row i, increasing (expected_from i row).
Proof.
  induction row as [|x row IH]; intros i; simpl; [exact I|].
  destruct x as [act|]; [|apply IH]. simpl. split; [|apply IH].
  intros b Hb. apply expected_from_spec in Hb. lia.
Qed.

Lemma expected_spec s a : In a (expected tb s) <-> exists act, action_at tb s a = Some (Some act).
Proof.
  unfold expected, action_at. destruct (nth_error (t_states tb) s) as [r|].
  - rewrite expected_from_spec, Nat.sub_0_r. split; [intros (_ & H); exact H|intros H; split; [lia|exact H]].
  - split; [intros []|intros (act & H); discriminate].
Qed.

Lemma expected_increasing s : increasing (expected tb s).
Proof. unfold expected. destruct (nth_error (t_states tb) s); [apply expected_from_increasing|exact I]. Qed.

End Expected.

Lemma canon_from_noeof tys : Forall (fun ty => ty <> EOFT) tys ->
  forall i, Forall (fun t => ttype t <> EOFT) (canon_from i tys).
Proof. induction 1; intros i; simpl; constructor; auto. Qed.

Section ExactPos.
Variable g : grammar.
Variable tb : tables.
Variable an : annot.
Variable sem : nat -> nat -> list attr -> option attr.
Hypothesis LV : lr_valid g tb an = true.
Hypothesis XC : x_checks g tb an = true.
Hypothesis sem_total : forall i p kids, sem i p kids <> None.
Variables (pr0 : prod) (X0 : sym).
Hypothesis Hpr0 : nth_error g 0 = Some pr0.
Hypothesis Hrhs0 : rhs pr0 = [X0].
Variable tys : list nat.
Hypothesis TYS : Forall (fun ty => ty <> EOFT) tys.

Lemma LV_parts : valid_backward g tb an = true /\ valid_forward g tb an = true /\ no_error_shift tb = true.
Proof. pose proof LV as H. unfold lr_valid in H. rewrite !andb_true_iff in H. tauto. Qed.
Let VB := proj1 LV_parts.
Let VF := proj1 (proj2 LV_parts).
Let NESb := proj2 (proj2 LV_parts).

Notation input := (canon tys).

Lemma next_ok_d u a : next_ok g X0 u a <-> next_d g X0 u a.
Proof.
  unfold next_ok, next_d, viable_d. destruct (Nat.eqb a EOFT).
  - apply sentence_t_der.
  - apply viable_t_der.
Qed.

Lemma reach_inv n c : steps tb sem input n cfg0 = Some c -> Inv g tb input c.
Proof.
  intros H. eapply (steps_inv g tb an VF VB XC pr0 X0 Hpr0 Hrhs0); [apply Inv0|exact H].
Qed.

Lemma nth_tys_noeof i : i < length tys -> nth i tys EOFT <> EOFT.
Proof. intros H. rewrite Forall_forall in TYS. apply TYS. now apply nth_In. Qed.

(** with canonical tables and no recovery flags, the error is reported on the current stack *)
Lemma error_step_same fuel st next pos st' pos' :
  error_step tb input fuel st next pos = NotRecovered st' pos' -> st' = st.
Proof.
  unfold error_step.
  rewrite (find_recover_none tb (NOREC g tb an VF XC NESb)).
  destruct (top st) as [s1|]; [|discriminate].
  destruct (action_at tb s1 (t_err tb)) as [[[s2|p|]|]|] eqn:E; try discriminate;
    try (intros H; inversion H; reflexivity).
  exfalso. exact (NES g tb an VF NESb _ _ E).
Qed.

Section AtError.
Variables (fuel : nat) (e : perror).
Hypothesis Hr : r_out (parse tb sem input fuel) = PErr e.
Hypothesis He : e_action e = None.

Let i := tid (e_tok e).
Let u := firstn i tys.

(** the error configuration *)
Lemma error_config :
  exists n c s, steps tb sem input n cfg0 = Some c /\ c_i c = i /\ n < fuel /\
    top (c_st c) = Some s /\
    action_at tb s (ttype (tok_at input i)) = Some None /\
    e = {| e_action := None; e_tok := tok_at input i; e_expected := expected tb s; e_top := s |} /\
    r_log (parse tb sem input fuel) = rev (c_log c).
Proof.
  pose proof Hr as Hr'. rewrite parse_crunc in Hr'.
  destruct (run_err_inv tb sem input (NES g tb an VF NESb) _ _ _ Hr' He)
    as (n & c & Hn & Hst & (s & st' & pos' & Ht & Ha & Hes & Hm & Hlog)).
  apply error_step_same in Hes. subst st'.
  apply mk_error_inv in Hm. destruct Hm as (s1 & Ht1 & Hee).
  rewrite Ht in Ht1. inversion Ht1; subst s1.
  assert (Hi : i = c_i c).
  { unfold i. rewrite Hee. cbn [e_tok]. now rewrite tok_at_canon. }
  exists n, c, s. rewrite Hi. repeat split; auto.
Qed.

Lemma stage1 : ~ sentence_t g X0 tys /\ (i < length tys -> ~ viable_t g X0 (u ++ [ttype (e_tok e)])).
Proof.
  destruct (C06_never_early_sec g tb an sem VF NESb sem_total pr0 X0 Hpr0 Hrhs0 tys fuel e Hr He)
    as (_ & H1 & H2). split; assumption.
Qed.

Lemma etok : e_tok e = tok_at input i.
Proof.
  destruct (C06_never_early_sec g tb an sem VF NESb sem_total pr0 X0 Hpr0 Hrhs0 tys fuel e Hr He)
    as (H & _). exact H.
Qed.

Lemma i_le : i <= length tys.
Proof.
  destruct error_config as (n & c & s & Hst & Hi & _).
  destruct (reach_inv _ _ Hst) as (_ & _ & _ & _ & Hle). rewrite canon_length in Hle. lia.
Qed.

(** the offending token is not a legal continuation *)
Lemma offender_illegal : ~ next_ok g X0 u (ttype (e_tok e)).
Proof.
  destruct stage1 as [S1 S2]. unfold next_ok. pose proof i_le as Hle.
  rewrite etok, tok_at_canon. cbn [ttype].
  destruct (Nat.lt_ge_cases i (length tys)) as [Hlt|Hge].
  - pose proof (nth_tys_noeof _ Hlt) as Hne. apply Nat.eqb_neq in Hne. rewrite Hne.
    intros H. apply (S2 Hlt). rewrite etok, tok_at_canon. exact H.
  - rewrite nth_overflow by assumption. simpl. intros H. apply S1.
    unfold u in H. now rewrite firstn_all2 in H by assumption.
Qed.

(** (b): no parser move (in particular no reduction, hence no action expression) is ever made
    with the offending token as look-ahead *)
Lemma no_move_on_offender m c :
  steps tb sem input m cfg0 = Some c -> c_i c = i -> step tb sem input c = None.
Proof.
  intros Hst Hi. destruct (step tb sem input c) as [c'|] eqn:Hs; [exfalso|reflexivity].
  pose proof (reach_inv _ _ Hst) as HI.
  destruct (step_some_action _ _ _ _ _ Hs) as (s & act & Ht & Ha).
  pose proof (inv_action_next g tb an VF VB XC pr0 X0 Hpr0 Hrhs0 _ _ _ _ _ HI Ht Ha) as Hn.
  rewrite firstn_canon_types, Hi in Hn. apply next_ok_d in Hn.
  apply offender_illegal. now rewrite etok.
Qed.

(** (a): the tokens before the offending one form a viable prefix *)
Lemma prefix_viable : viable_t g X0 u.
Proof.
  destruct error_config as (n & c & s & Hst & Hi & _).
  pose proof (inv_viable g tb an VF VB XC pr0 X0 Hpr0 Hrhs0 _ _ (reach_inv _ _ Hst)) as H.
  rewrite firstn_canon_types, Hi in H. apply viable_t_der. exact H.
Qed.

(** any input agreeing with the given one before index [i] and having a parse tree drives the
    parser into the same configuration, where its own [i]-th token must have an action *)
Lemma other_input_action in2 t a :
  (forall j, j < i -> tok_at input j = tok_at in2 j) -> wt g X0 t in2 -> ttype (tok_at in2 i) = a ->
  forall n c s, steps tb sem input n cfg0 = Some c -> c_i c = i -> top (c_st c) = Some s ->
  exists act, action_at tb s a = Some (Some act).
Proof.
  intros Hag Hwt Ha n c s Hst Hi Ht.
  assert (Hst2 : steps tb sem in2 n cfg0 = Some c).
  { eapply steps_agree; [exact Hag|exact Hst|].
    intros m c1 Hm H1. replace n with (m + (n - m)) in Hst by lia.
    destruct (steps_prefix _ _ _ _ _ _ _ Hst) as (c2 & H2 & H3).
    rewrite H1 in H2. inversion H2; subst c2.
    pose proof (steps_index _ _ _ _ _ _ H3) as Hle.
    destruct (Nat.eq_dec (c_i c1) i) as [Heq|Hne]; [|lia].
    exfalso. pose proof (no_move_on_offender _ _ H1 Heq) as Hno.
    destruct (n - m) as [|d] eqn:E; [lia|]. simpl in H3. rewrite Hno in H3. discriminate. }
  destruct (lr_complete g tb an sem in2 VF sem_total pr0 X0 t Hpr0 Hrhs0 Hwt
              (n + S (size t))) as [v Hv]; [lia|].
  rewrite parse_crunc, (crunc_steps _ _ _ _ _ _ _ Hst2) in Hv.
  destruct (action_at tb s a) as [[act|]|] eqn:Hact.
  - eauto.
  - exfalso. revert Hv. eapply (nil_action_not_ok tb sem in2 (NES g tb an VF NESb)); [exact Ht|].
    now rewrite Hi, Ha.
  - exfalso. revert Hv. eapply (no_action_not_ok tb sem in2); [exact Ht|]. now rewrite Hi, Ha.
Qed.

(** (c): the expected tokens are exactly the legal continuations *)
Lemma expected_exact a : In a (e_expected e) <-> next_ok g X0 u a.
Proof.
  destruct error_config as (n & c & s & Hst & Hi & _ & Ht & _ & Hee & _).
  rewrite Hee. cbn [e_expected]. rewrite expected_spec. split.
  - intros (act & Ha). apply next_ok_d.
    pose proof (inv_action_next g tb an VF VB XC pr0 X0 Hpr0 Hrhs0 _ _ _ _ _ (reach_inv _ _ Hst) Ht Ha) as H.
    now rewrite firstn_canon_types, Hi in H.
  - intros Hn. pose proof i_le as Hle.
    assert (Hlu : length u = i) by (unfold u; apply firstn_length_le; exact Hle).
    unfold next_ok in Hn. destruct (Nat.eqb a EOFT) eqn:E.
    + apply Nat.eqb_eq in E. subst a. destruct Hn as [t Ht2].
      eapply (other_input_action (canon u) t EOFT); eauto.
      * intros j Hj. rewrite !tok_at_canon. f_equal. unfold u.
        rewrite <- (app_nil_r (firstn i tys)). symmetry. apply nth_firstn_app; assumption.
      * rewrite tok_at_canon. cbn [ttype]. apply nth_overflow. lia.
    + destruct Hn as (rest & t & Ht2).
      eapply (other_input_action (canon ((u ++ [a]) ++ rest)) t a); eauto.
      * intros j Hj. rewrite !tok_at_canon. f_equal. unfold u. rewrite <- app_assoc.
        symmetry. apply nth_firstn_app; assumption.
      * rewrite tok_at_canon. cbn [ttype]. rewrite <- app_assoc.
        rewrite app_nth2 by lia. rewrite Hlu, Nat.sub_diag. reflexivity.
Qed.

Lemma expected_sorted : increasing (e_expected e).
Proof.
  destruct error_config as (n & c & s & _ & _ & _ & _ & _ & Hee & _).
  rewrite Hee. apply expected_increasing.
Qed.

End AtError.

End ExactPos.

(** * Termination on every token list (canonical or not) *)
Section Terminates.
Variable g : grammar.
Variable tb : tables.
Variable an : annot.
Variable sem : nat -> nat -> list attr -> option attr.
Hypothesis LV : lr_valid g tb an = true.
Hypothesis XC : x_checks g tb an = true.
Hypothesis sem_total : forall i p kids, sem i p kids <> None.
Variables (pr0 : prod) (X0 : sym).
Hypothesis Hpr0 : nth_error g 0 = Some pr0.
Hypothesis Hrhs0 : rhs pr0 = [X0].
Variable input : list token.
Hypothesis INP : Forall (fun t => ttype t <> EOFT) input.

Let VB := proj1 (LV_parts g tb an LV).
Let VF := proj1 (proj2 (LV_parts g tb an LV)).
Let NESb := proj2 (proj2 (LV_parts g tb an LV)).

Lemma reach_inv' n c : steps tb sem input n cfg0 = Some c -> Inv g tb input c.
Proof.
  intros H. eapply (steps_inv g tb an VF VB XC pr0 X0 Hpr0 Hrhs0); [apply Inv0|exact H].
Qed.

Lemma progress i :
  exists n c, steps tb sem input n cfg0 = Some c /\ (step tb sem input c = None \/ c_i c = i).
Proof.
  induction i as [|i IH].
  - exists 0, cfg0. split; [reflexivity|now right].
  - destruct IH as (n & c & Hst & [Hs|Hi]); [exists n, c; split; [assumption|now left]|].
    destruct (step tb sem input c) as [c1|] eqn:Hs; [|exists n, c; split; [assumption|now left]].
    pose proof (reach_inv' _ _ Hst) as HI.
    destruct (step_some_action _ _ _ _ _ Hs) as (s & act & Ht & Ha).
    pose proof (inv_action_next g tb an VF VB XC pr0 X0 Hpr0 Hrhs0 _ _ _ _ _ HI Ht Ha) as Hn.
    rewrite Hi in Hn.
    assert (Hle : i <= length input) by (destruct HI as (_ & _ & _ & _ & Hle); lia).
    unfold next_d in Hn. destruct (Nat.lt_ge_cases i (length input)) as [Hlt|Hge].
    + pose proof (tok_at_inrange input INP _ Hlt) as Hne. apply Nat.eqb_neq in Hne. rewrite Hne in Hn.
      destruct Hn as (rest & Hd).
      set (in2 := firstn (S i) input ++ canon rest).
      assert (Hty : map ttype in2 = (map ttype (firstn i input) ++ [ttype (tok_at input i)]) ++ rest).
      { unfold in2, tok_at. rewrite (firstn_S_nth _ _ {| ttype := EOFT; tid := i |} Hlt).
        rewrite !map_app, canon_types. reflexivity. }
      destruct (proj1 (der_wt g) _ _ Hd in2 Hty) as [t Hwt].
      destruct (lr_complete g tb an sem in2 VF sem_total pr0 X0 t Hpr0 Hrhs0 Hwt (size t + 1)) as [v Hv]; [lia|].
      destruct (run_halts tb sem in2 (size t + 1) cfg0) as (N & cN & HN & HsN).
      { rewrite <- parse_crunc, Hv. discriminate. }
      destruct (lockstep tb sem input in2 i) with (N := N) (c := cfg0) (cN := cN) as (m & c' & H1 & H2); auto.
      * intros j Hj. unfold in2, tok_at. symmetry. apply nth_firstn_app; lia.
      * simpl. lia.
      * exists m, c'. split; assumption.
    + assert (Hty : map ttype input = map ttype (firstn i input)) by (now rewrite firstn_all2).
      assert (Heof : ttype (tok_at input i) = EOFT).
      { unfold tok_at. now rewrite nth_overflow. }
      rewrite Heof in Hn. simpl in Hn.
      destruct (proj1 (der_wt g) _ _ Hn input Hty) as [t Hwt].
      destruct (lr_complete g tb an sem input VF sem_total pr0 X0 t Hpr0 Hrhs0 Hwt (size t + 1)) as [v Hv]; [lia|].
      destruct (run_halts tb sem input (size t + 1) cfg0) as (N & cN & HN & HsN).
      { rewrite <- parse_crunc, Hv. discriminate. }
      exists N, cN. split; [assumption|now left].
Qed.

Lemma halts : exists n c, steps tb sem input n cfg0 = Some c /\ step tb sem input c = None.
Proof.
  destruct (progress (S (length input))) as (n & c & Hst & [Hs|Hi]); [eauto|].
  exfalso. destruct (reach_inv' _ _ Hst) as (_ & _ & _ & _ & Hle). lia.
Qed.

Lemma terminates_sec : exists fuel0, forall fuel, fuel0 <= fuel -> r_out (parse tb sem input fuel) <> PFuel.
Proof.
  destruct halts as (n & c & Hst & Hs). exists (S n). intros fuel Hf.
  rewrite parse_crunc. eapply (halts_not_fuel tb sem input (NES g tb an VF NESb)); eauto.
Qed.

End Terminates.

(** C06, exact form.  [i] = index of the offending token, [u] = the tokens before it.
    - the error carries the very token number [i] of the input (or the end-of-input token);
    - [u] is a viable prefix, but [u] followed by the offending token (or, at the end of the
      input, [u] itself as a complete sentence) is not;
    - the expected list is exactly the set of legal continuations of [u], strictly increasing;
    - no parser move (a fortiori no reduction and no action expression) is made with the
      offending token as look-ahead: every configuration whose look-ahead is token [i] is stuck,
      and the reported log is the log of the configuration in which token [i] became the
      look-ahead. *)
Theorem C06_exact :
  forall g tb an sem,
    lr_valid g tb an = true -> x_checks g tb an = true ->
    (forall i p kids, sem i p kids <> None) ->
    forall pr0 X0, nth_error g 0 = Some pr0 -> rhs pr0 = [X0] ->
    forall tys, Forall (fun ty => ty <> EOFT) tys ->
    forall fuel e,
      r_out (parse tb sem (canon tys) fuel) = PErr e -> e_action e = None ->
      let i := tid (e_tok e) in
      let u := firstn i tys in
      i <= length tys /\
      e_tok e = tok_at (canon tys) i /\
      viable_t g X0 u /\
      ~ next_ok g X0 u (ttype (e_tok e)) /\
      (forall a, In a (e_expected e) <-> next_ok g X0 u a) /\
      increasing (e_expected e) /\
      (forall m c, steps tb sem (canon tys) m cfg0 = Some c -> c_i c = i ->
                   step tb sem (canon tys) c = None) /\
      (exists n c, steps tb sem (canon tys) n cfg0 = Some c /\ c_i c = i /\
                   r_log (parse tb sem (canon tys) fuel) = rev (c_log c)).
Proof.
  intros g tb an sem LV XC Hsem pr0 X0 Hp0 Hr0 tys TYS fuel e Hr He. cbv zeta.
  split; [eapply i_le; eauto|].
  split; [eapply etok; eauto|].
  split; [eapply prefix_viable; eauto|].
  split; [eapply offender_illegal; eauto|].
  split; [intros a; eapply expected_exact; eauto|].
  split; [eapply expected_sorted; eauto|].
  split; [intros m c; eapply no_move_on_offender; eauto|].
  destruct (error_config g tb an sem LV XC tys fuel e Hr He) as (n & c & s & Hst & Hi & _ & _ & _ & _ & Hlog).
  exists n, c. auto.
Qed.

(** C02, termination half: with canonical LR(1) tables the parser returns on EVERY token list
    (sentence or not, whatever the token identities): there is an amount of fuel from which the
    outcome is never [PFuel]. *)
Theorem C02_terminates :
  forall g tb an sem,
    lr_valid g tb an = true -> x_checks g tb an = true ->
    (forall i p kids, sem i p kids <> None) ->
    forall pr0 X0, nth_error g 0 = Some pr0 -> rhs pr0 = [X0] ->
    forall input, Forall (fun t => ttype t <> EOFT) input ->
    exists fuel0, forall fuel, fuel0 <= fuel -> r_out (parse tb sem input fuel) <> PFuel.
Proof. intros. eapply terminates_sec; eauto. Qed.

(** Non-vacuity: S' -> S ; S -> a S | b with hand-made canonical tables passes all the checks;
    on "a b b" the error is reported on token number 2, expecting end of input only. *)
Module ErrorPosExample.
Definition ex_g : grammar :=
  [ {| lhs := 0; rhs := [NT 1] |}; {| lhs := 1; rhs := [T 2; NT 1] |}; {| lhs := 1; rhs := [T 3] |} ].
Definition ex_tb : tables := {|
  t_states := [
    {| s_actions := [None; None; Some (Shift 2); Some (Shift 3)]; s_recover := false; s_gotos := [(-1)%Z; 1%Z] |};
    {| s_actions := [None; Some Accept; None; None]; s_recover := false; s_gotos := [(-1)%Z; (-1)%Z] |};
    {| s_actions := [None; None; Some (Shift 2); Some (Shift 3)]; s_recover := false; s_gotos := [(-1)%Z; 4%Z] |};
    {| s_actions := [None; Some (Reduce 2); None; None]; s_recover := false; s_gotos := [(-1)%Z; (-1)%Z] |};
    {| s_actions := [None; Some (Reduce 1); None; None]; s_recover := false; s_gotos := [(-1)%Z; (-1)%Z] |} ];
  t_prods := [ {| p_nt := 0; p_len := 1; p_act := false |}; {| p_nt := 1; p_len := 2; p_act := true |};
               {| p_nt := 1; p_len := 1; p_act := true |} ];
  t_err := 0; t_gate := false |}.
Definition ex_an : annot := {|
  a_items := [ [(0,0,1); (1,0,1); (2,0,1)]; [(0,1,1)]; [(1,1,1); (1,0,1); (2,0,1)]; [(2,1,1)]; [(1,2,1)] ];
  a_nullable := [false; false];
  a_first := [[2; 3]; [2; 3]] |}.
Example ex_valid : lr_valid ex_g ex_tb ex_an && x_checks ex_g ex_tb ex_an = true.
Proof. vm_compute. reflexivity. Qed.
Example ex_error :
  r_out (parse ex_tb (sem_node None) (canon [2; 3; 3]) 20)
  = PErr {| e_action := None; e_tok := {| ttype := 3; tid := 2 |}; e_expected := [1]; e_top := 3 |}.
Proof. vm_compute. reflexivity. Qed.
End ErrorPosExample.

Print Assumptions C06_never_early.
Print Assumptions C06_exact.
Print Assumptions C02_terminates.
