(** Soundness packaged for the boolean validator. *)
From Coq Require Import List Arith ZArith Lia Bool.
From Gocc Require Import LR.Parse LR.Validate LR.Trees LR.Eval LR.ValidateProofs LR.Sound.
Import ListNotations.

Lemma valid_backward_shape g tb an : valid_backward g tb an = true -> shape_ok g tb an = true.
Proof. unfold valid_backward. rewrite !andb_true_iff. tauto. Qed.

Theorem parse_sound_valid g tb an sem input fuel :
  valid_backward g tb an = true -> no_error_shift tb = true ->
  Forall (fun t => ttype t <> EOFT) input -> Forall (fun t => ttype t < nterms tb) input ->
  good_result g tb sem input (parse tb sem input fuel).
Proof.
  intros HV HN HI HR.
  pose proof (shape_ok_P g tb an (valid_backward_shape _ _ _ HV)) as SH.
  apply (parse_sound g tb an sem input SH).
  - eapply valid_backward_P; eauto.
  - eapply no_error_shift_P; eauto.
  - exact HI.
  - exact HR.
Qed.
