(** Model of the generated parser OBJECT (internal/parser/gen/golang/parser.go template): the [stack] type with its
    two Go slices (a backing array that SURVIVES reset and is overwritten by later pushes, a length, a capacity),
    the methods reset / push / top / peek / topIndex / popN written on that representation, the [nextToken] field, and
    Parser.Reset / Error / popNonRecoveryStates / firstRecoveryState / newError / Parse written on the object.

    [LR/Parse.v] models the same loop on an immutable list (its Parse begins with a fresh list because the code begins
    with Reset); this file keeps what the code really keeps between two calls — the backing arrays with whatever the
    previous run left in them, the stale look-ahead — so that "results do not depend on history" (C16) becomes a
    refinement statement instead of a definitional one (LR/ObjParseProofs.v).

    What the model does not exhibit: the slice returned by popN ALIASES the backing array (an action that keeps its X
    argument after returning would see later pushes); attribute values are immutable here.

    Definitions only. *)
From Coq Require Import List ZArith Bool Arith.
From Gocc Require Import LR.Parse.
Import ListNotations.

(** ** Go slices: backing array, length; capacity = length of the backing array *)
Record slice (A : Type) := { arr : list A; len : nat }.
Arguments arr {A} _.
Arguments len {A} _.
Arguments Build_slice {A} _ _.

Fixpoint set_nth {A} (i : nat) (x : A) (l : list A) : list A :=
  match l, i with
  | [], _ => []
  | _ :: t, O => x :: t
  | h :: t, S j => h :: set_nth j x t
  end.

Section Slice.
Context {A : Type}.
(** what the cells beyond the appended element hold when append has to re-allocate (Go: zero values, as many as the
    growth policy decides); the theorems hold for every such function *)
Variable grow : nat -> list A.

Definition s_view (s : slice A) : list A := firstn (len s) (arr s).
(** s = s[:0] : the backing array, with everything earlier runs wrote, is kept *)
Definition s_reset (s : slice A) : slice A := {| arr := arr s; len := 0 |}.
(** s = append(s, x) : in place while there is capacity, otherwise a new array with the live cells copied *)
Definition s_append (s : slice A) (x : A) : slice A :=
  if len s <? length (arr s) then {| arr := set_nth (len s) x (arr s); len := S (len s) |}
  else {| arr := firstn (len s) (arr s) ++ x :: grow (len s); len := S (len s) |}.
(** s[i] : panics (None) beyond the length, whatever the backing array holds there *)
Definition s_index (s : slice A) (i : nat) : option A := if i <? len s then nth_error (arr s) i else None.
End Slice.

(** ** The parser object *)
Record pobj := { o_state : slice nat; o_attrib : slice attr; o_next : token }.

Definition set_next (o : pobj) (t : token) : pobj :=
  {| o_state := o_state o; o_attrib := o_attrib o; o_next := t |}.

Section Obj.
Variable grow_s : nat -> list nat.
Variable grow_a : nat -> list attr.
Variable tb : tables.
Variable sem : nat -> nat -> list attr -> option attr.
Variable input : list token.

(** stack.reset, stack.push, stack.top, stack.peek *)
Definition k_reset (o : pobj) : pobj :=
  {| o_state := s_reset (o_state o); o_attrib := s_reset (o_attrib o); o_next := o_next o |}.
Definition k_push (o : pobj) (s : nat) (a : attr) : pobj :=
  {| o_state := s_append grow_s (o_state o) s; o_attrib := s_append grow_a (o_attrib o) a; o_next := o_next o |}.
Definition k_top (o : pobj) : option nat :=
  match len (o_state o) with O => None | S i => s_index (o_state o) i end.
Definition k_peek (o : pobj) (pos : nat) : option nat := s_index (o_state o) pos.

(** stack.popN(items): lo, hi := len(state)-items, len(state); attrib := s.attrib[lo:hi]; both slices cut to [:lo].
    Panics when items exceeds the length (negative bound) or hi exceeds the capacity of attrib. *)
Definition k_popN (o : pobj) (n : nat) : option (list attr * pobj) :=
  let hi := len (o_state o) in
  if hi <? n then None else
  let lo := hi - n in
  if length (arr (o_attrib o)) <? hi then None else
  Some (firstn n (skipn lo (arr (o_attrib o))),
        {| o_state := {| arr := arr (o_state o); len := lo |};
           o_attrib := {| arr := arr (o_attrib o); len := lo |};
           o_next := o_next o |}).

(** firstRecoveryState: index of the highest stack entry whose state can recover *)
Fixpoint k_frs_loop (o : pobj) (rs : nat) (can : bool) : option (nat * bool) :=
  if can then Some (rs, true) else
  match rs with
  | O => Some (O, false)
  | S r => match k_peek o r with
           | None => None
           | Some s => k_frs_loop o r (recover_at tb s)
           end
  end.
Definition k_first_recovery (o : pobj) : option (nat * bool) :=
  match k_top o with
  | None => None
  | Some s => k_frs_loop o (len (o_state o) - 1) (recover_at tb s)
  end.

Inductive krecovery :=
| KRec (o : pobj) (pos : nat)
| KNot (o : pobj) (pos : nat)
| KPanic (code : nat)
| KFuel.

(** Parser.Error (with popNonRecoveryStates inlined) *)
Definition k_error_step (fuel : nat) (o : pobj) (pos : nat) : krecovery :=
  match k_first_recovery o with
  | None => KPanic 10
  | Some (rs, ok) =>
    match (if ok then k_popN o (len (o_state o) - 1 - rs) else Some ([], o)) with
    | None => KPanic 10
    | Some (removed, o1) =>
      match k_top o1 with
      | None => KPanic 10
      | Some s1 =>
        let ea := AErr (o_next o) removed (expected tb s1) in
        match action_at tb s1 (t_err tb) with
        | None => KPanic 11
        | Some (Some (Shift s2)) =>
          if t_gate tb && negb (recover_at tb s1) then KNot o1 pos else
          let o2 := k_push o1 s2 ea in
          match k_top o2 with
          | None => KPanic 10
          | Some s2' =>
            match skip_input tb input fuel s2' (o_next o) pos with
            | None => KFuel
            | Some (true, next', pos') => KRec (set_next o2 next') pos'
            | Some (false, next', pos') => KNot (set_next o2 next') pos'
            end
          end
        | Some _ => KNot o1 pos
        end
      end
    end
  end.

(** newError *)
Definition k_mk_error (a : option nat) (tok : token) (o : pobj) : outcome :=
  match k_top o with
  | None => PPanic 12
  | Some s => PErr {| e_action := a; e_tok := tok; e_expected := expected tb s; e_top := s |}
  end.

(** the loop of Parse; returns the result AND the object as the call leaves it *)
Fixpoint k_run (fuel : nat) (o : pobj) (pos calls : nat) (log : list (nat * list attr)) : result * pobj :=
  let fin out := ({| r_out := out; r_log := rev log; r_scans := pos |}, o) in
  match fuel with
  | O => fin PFuel
  | S f =>
    match k_top o with
    | None => fin (PPanic 1)
    | Some s =>
      match action_at tb s (ttype (o_next o)) with
      | None => fin (PPanic 2)
      | Some None =>
        match k_error_step (S (length input)) o pos with
        | KRec o' pos' => k_run f o' pos' calls log
        | KNot o' pos' =>
          (* p.nextToken = errAttrib.ErrorToken; return nil, p.newError(nil) *)
          ({| r_out := k_mk_error None (o_next o) o'; r_log := rev log; r_scans := pos' |}, set_next o' (o_next o))
        | KPanic c => fin (PPanic c)
        | KFuel => fin PFuel
        end
      | Some (Some Accept) =>
        match k_popN o 1 with
        | Some (a :: _, o') => ({| r_out := POk a; r_log := rev log; r_scans := pos |}, o')
        | _ => fin (PPanic 3)
        end
      | Some (Some (Shift s')) =>
        k_run f (set_next (k_push o s' (ATok (o_next o))) (tok_at input pos)) (S pos) calls log
      | Some (Some (Reduce p)) =>
        match nth_error (t_prods tb) p with
        | None => fin (PPanic 4)
        | Some pr =>
          match k_popN o (p_len pr) with
          | None => fin (PPanic 5)
          | Some (kids, o') =>
            let '(res, calls', log') :=
              if p_act pr then (sem calls p kids, S calls, (p, kids) :: log)
              else (Some (match kids with [] => ANil | k :: _ => k end), calls, log) in
            match res with
            | None => ({| r_out := k_mk_error (Some calls) (o_next o) o'; r_log := rev log'; r_scans := pos |}, o')
            | Some a =>
              match k_top o' with
              | None => ({| r_out := PPanic 6; r_log := rev log; r_scans := pos |}, o')
              | Some s0 =>
                match goto_at tb s0 (p_nt pr) with
                | None => ({| r_out := PPanic 7; r_log := rev log; r_scans := pos |}, o')
                | Some g =>
                  if (g <? 0)%Z then ({| r_out := PPanic 8; r_log := rev log'; r_scans := pos |}, o')
                  else k_run f (k_push o' (Z.to_nat g) a) pos calls' log'
                end
              end
            end
          end
        end
      end
    end
  end.

(** Parser.Reset; Parser.Parse *)
Definition k_Reset (o : pobj) : pobj := k_push (k_reset o) 0 ANil.
Definition k_parse (fuel : nat) (o : pobj) : result * pobj :=
  k_run fuel (set_next (k_Reset o) (tok_at input 0)) 1 0 [].

End Obj.

(** NewParser: two arrays of capacity iNITIAL_STACK_SIZE = 100, then Reset; nextToken is nil until the first Scan *)
Definition k_new (grow_s : nat -> list nat) (grow_a : nat -> list attr) : pobj :=
  k_Reset grow_s grow_a {| o_state := {| arr := repeat 0 100; len := 0 |};
                           o_attrib := {| arr := repeat ANil 100; len := 0 |};
                           o_next := {| ttype := 0; tid := 0 |} |}.

(** A history: the SAME object is handed from one Parse call to the next (what the call leaves in the backing arrays
    and in nextToken included); [sems]/[inputs] give each call its own actions and token stream. *)
Fixpoint k_history (grow_s : nat -> list nat) (grow_a : nat -> list attr) (tb : tables)
                   (fuel : nat) (o : pobj) (calls : list ((nat -> nat -> list attr -> option attr) * list token))
  : list result :=
  match calls with
  | [] => []
  | (sem, input) :: rest =>
    let '(res, o') := k_parse grow_s grow_a tb sem input fuel o in
    res :: k_history grow_s grow_a tb fuel o' rest
  end.

(** Go's growth, for the executable instance used by the correspondence run: capacity doubles, new cells zero *)
Definition go_grow_s (n : nat) : list nat := repeat 0 (Nat.pred n).
Definition go_grow_a (n : nat) : list attr := repeat ANil (Nat.pred n).
