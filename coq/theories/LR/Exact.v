(** Extra boolean checks making the tables CANONICAL LR(1) (needed for the exact error
    position / expected set, not for soundness or completeness), and their reflection:

    - [x_null], [x_first] : the annotated nullable flags / FIRST sets are not only closed
      ([f_first]) but contained in the ones computed here by bounded iteration, every
      element of which has a derivation witness: so they are exact ([x_first] looks only at
      the nonterminals occurring in productions that appear in some item, i.e. reachable ones);
    - [x_prod]   : every symbol of a production appearing in some item (i.e. of a reachable
      production) is productive;
    - [x_noeof]  : the end-of-input terminal occurs in no right-hand side;
    - [x_recover]: a state is flagged as recovering only if it shifts the error terminal;
    - [x_closure]: every dot-0 item of a state (other than those of production 0) is justified
      by an item occurring EARLIER in the state's item list (gocc's generation order). *)
From Coq Require Import List Arith ZArith Lia Bool.
From Gocc Require Import LR.Parse LR.Validate LR.ValidateProofs LR.Derive.
Import ListNotations.

Lemma nth_map_seq {A} (f : nat -> A) nn n d : n < nn -> nth n (map f (seq 0 nn)) d = f n.
Proof.
  intros H. rewrite (nth_indep _ d (f 0)) by (now rewrite map_length, seq_length).
  rewrite map_nth, seq_nth by assumption. reflexivity.
Qed.

Lemma nth_map_seq_true (f : nat -> bool) nn n : nth n (map f (seq 0 nn)) false = true -> f n = true.
Proof.
  intros H. destruct (Nat.lt_ge_cases n nn) as [Hlt|Hge].
  - now rewrite nth_map_seq in H.
  - rewrite nth_overflow in H by (now rewrite map_length, seq_length). discriminate.
Qed.

Lemma nth_map_seq_In {A} (f : nat -> list A) nn n a : In a (nth n (map f (seq 0 nn)) []) -> In a (f n).
Proof.
  intros H. destruct (Nat.lt_ge_cases n nn) as [Hlt|Hge].
  - now rewrite nth_map_seq in H.
  - rewrite nth_overflow in H by (now rewrite map_length, seq_length). destruct H.
Qed.

Definition dedup (l : list nat) : list nat :=
  fold_right (fun a acc => if mem_nat a acc then acc else a :: acc) [] l.

Lemma dedup_In a l : In a (dedup l) -> In a l.
Proof.
  induction l as [|x l IH]; simpl; [auto|].
  destruct (mem_nat x (dedup l)); simpl; intuition.
Qed.

Section X.
Variable g : grammar.
Variable tb : tables.
Variable an : annot.

Notation der := (der g).
Notation ders := (ders g).

(** * Flags computed by iteration: nullable ([tf = false]) and productive ([tf = true]) *)
Definition flag_rhs (tf : bool) (N : list bool) (gamma : list sym) : bool :=
  forallb (fun X => match X with T _ => tf | NT m => nth m N false end) gamma.

Definition flag_step (tf : bool) (nn : nat) (N : list bool) : list bool :=
  map (fun n => existsb (fun pr => Nat.eqb (lhs pr) n && flag_rhs tf N (rhs pr)) g) (seq 0 nn).

Fixpoint flag_iter (tf : bool) (nn k : nat) : list bool :=
  match k with O => [] | S k' => flag_step tf nn (flag_iter tf nn k') end.

Lemma flag_iter_sound (tf : bool) (Q : sym -> Prop) nn :
  (forall a, tf = true -> Q (T a)) ->
  (forall p pr, nth_error g p = Some pr -> (forall X, In X (rhs pr) -> Q X) -> Q (NT (lhs pr))) ->
  forall k n, nth n (flag_iter tf nn k) false = true -> Q (NT n).
Proof.
  intros HT HN. induction k as [|k IH]; intros n H; simpl in H.
  - destruct n; discriminate.
  - unfold flag_step in H. apply nth_map_seq_true in H.
    apply existsb_exists in H. destruct H as (pr & Hin & H).
    apply andb_true_iff in H. destruct H as [Hl Hr]. apply Nat.eqb_eq in Hl. subst n.
    destruct (In_nth_error _ _ Hin) as [p Hp]. apply (HN p pr Hp).
    intros X HX. unfold flag_rhs in Hr. rewrite forallb_forall in Hr. specialize (Hr X HX).
    destruct X as [a|m]; [apply HT; exact Hr|apply IH; exact Hr].
Qed.

Definition x_null : bool :=
  let nn := length (a_nullable an) in
  let N := flag_iter false nn (length g) in
  forallb (fun n => implb (nullable_nt an n) (nth n N false)) (seq 0 nn).

(** the computed productive flags *)
Definition prod_flags : list bool := flag_iter true (nnts tb) (length g).

(** a boolean over the productions occurring in the items of the annotation *)
Definition forall_item_prods (f : prod -> bool) : bool :=
  forall_states tb (fun s => forallb (fun it => match it with (p, _, _) =>
    match nth_error g p with Some pr => f pr | None => false end end) (items_of an s)).

Lemma forall_item_prods_P f : forall_item_prods f = true ->
  forall s p k la pr, s < nstates tb -> In (p, k, la) (items_of an s) -> nth_error g p = Some pr -> f pr = true.
Proof.
  unfold forall_item_prods, forall_states. rewrite forallb_seq. intros H s p k la pr Hs Hin Hp.
  specialize (H s Hs). rewrite forallb_forall in H. specialize (H _ Hin). simpl in H.
  now rewrite Hp in H.
Qed.

Definition x_prod : bool := let Pf := prod_flags in forall_item_prods (fun pr => flag_rhs true Pf (rhs pr)).

Lemma x_null_P : x_null = true -> forall n, nullable_nt an n = true -> der (NT n) [].
Proof.
  unfold x_null. intros H n Hn. rewrite forallb_forall in H.
  assert (Hlt : n < length (a_nullable an)).
  { destruct (Nat.lt_ge_cases n (length (a_nullable an))) as [|Hge]; [assumption|].
    unfold nullable_nt in Hn. rewrite nth_overflow in Hn by assumption. discriminate. }
  specialize (H n). rewrite Hn in H. simpl in H.
  apply (flag_iter_sound false (fun X => der X []) (length (a_nullable an))) with (k := length g).
  - discriminate.
  - intros p pr Hp HX. econstructor; [exact Hp|]. apply ders_all_nil. exact HX.
  - apply H. apply in_seq. lia.
Qed.

Lemma prod_flags_P n : nth n prod_flags false = true -> exists u, der (NT n) u.
Proof.
  apply (flag_iter_sound true (fun X => exists u, der X u) (nnts tb)).
  - intros a _. exists [a]. constructor.
  - intros p pr' Hp HX'. destruct (ders_all g _ HX') as [u Hu]. exists u. econstructor; eauto.
Qed.

Lemma flag_rhs_prod_P gamma : flag_rhs true prod_flags gamma = true -> forall X, In X gamma -> exists u, der X u.
Proof.
  unfold flag_rhs. rewrite forallb_forall. intros H X HX. specialize (H X HX).
  destruct X as [a|m]; [exists [a]; constructor|]. now apply prod_flags_P.
Qed.

Lemma x_prod_P : x_prod = true ->
  forall s p k la pr, s < nstates tb -> In (p, k, la) (items_of an s) -> nth_error g p = Some pr ->
  forall X, In X (rhs pr) -> exists u, der X u.
Proof.
  intros H s p k la pr Hs Hin Hp. apply flag_rhs_prod_P.
  eapply (forall_item_prods_P _ H); eauto.
Qed.

(** * FIRST computed by iteration *)
Fixpoint first_rhs (F : list (list nat)) (gamma : list sym) : list nat :=
  match gamma with
  | [] => []
  | T a :: _ => [a]
  | NT m :: rest => nth m F [] ++ (if nullable_nt an m then first_rhs F rest else [])
  end.

Definition first_step (Pf : list bool) (nn : nat) (F : list (list nat)) : list (list nat) :=
  map (fun n => dedup (flat_map (fun pr => if Nat.eqb (lhs pr) n && flag_rhs true Pf (rhs pr)
                                            then first_rhs F (rhs pr) else []) g))
      (seq 0 nn).

Fixpoint first_iter (Pf : list bool) (nn k : nat) : list (list nat) :=
  match k with O => [] | S k' => first_step Pf nn (first_iter Pf nn k') end.

Definition first_sets : list (list nat) := first_iter prod_flags (length (a_first an)) (length g).

Definition x_first : bool :=
  let F := first_sets in
  forall_item_prods (fun pr =>
    forallb (fun X => match X with
                      | T _ => true
                      | NT n => forallb (fun a => mem_nat a (nth n F [])) (first_nt an n)
                      end) (rhs pr)).

Section FirstSound.
Hypothesis NUL : forall n, nullable_nt an n = true -> der (NT n) [].

Lemma first_rhs_sound F :
  (forall m a, In a (nth m F []) -> exists u, der (NT m) (a :: u)) ->
  forall gamma a, (forall X, In X gamma -> exists u, der X u) -> In a (first_rhs F gamma) ->
  exists u, ders gamma (a :: u).
Proof.
  intros HF. induction gamma as [|X gamma IH]; intros a Hp Hin; simpl in Hin; [destruct Hin|].
  assert (Hrest : exists v, ders gamma v).
  { apply ders_all. intros Y HY. apply Hp. now right. }
  destruct X as [b|m].
  - destruct Hin as [->|[]]. destruct Hrest as [v Hv]. exists v.
    change (a :: v) with ([a] ++ v). constructor; [constructor|assumption].
  - apply in_app_or in Hin. destruct Hin as [Hin|Hin].
    + destruct (HF _ _ Hin) as [u Hu]. destruct Hrest as [v Hv]. exists (u ++ v).
      change (a :: u ++ v) with ((a :: u) ++ v). constructor; assumption.
    + destruct (nullable_nt an m) eqn:Hn; [|destruct Hin].
      destruct (IH a) as [u Hu]; [intros Y HY; apply Hp; now right|assumption|].
      exists u. change (a :: u) with ([] ++ a :: u). constructor; [apply NUL; assumption|assumption].
Qed.

Lemma first_iter_sound nn : forall k n a, In a (nth n (first_iter prod_flags nn k) []) -> exists u, der (NT n) (a :: u).
Proof.
  induction k as [|k IH]; intros n a H; simpl in H.
  - destruct n; destruct H.
  - unfold first_step in H. apply nth_map_seq_In in H. apply dedup_In in H.
    apply in_flat_map in H. destruct H as (pr & Hpr & H).
    destruct (Nat.eqb (lhs pr) n && flag_rhs true prod_flags (rhs pr)) eqn:E; [|destruct H].
    apply andb_true_iff in E. destruct E as [E Ef]. apply Nat.eqb_eq in E. subst n.
    destruct (first_rhs_sound _ IH (rhs pr) a) as [u Hu]; [now apply flag_rhs_prod_P|assumption|].
    destruct (In_nth_error _ _ Hpr) as [p Hp]. exists u. econstructor; eauto.
Qed.

Lemma x_first_P : x_first = true ->
  forall s p k la pr, s < nstates tb -> In (p, k, la) (items_of an s) -> nth_error g p = Some pr ->
  forall n a, In (NT n) (rhs pr) -> In a (first_nt an n) -> exists u, der (NT n) (a :: u).
Proof.
  intros H s p k la pr Hs Hin Hp n a Hn Ha.
  pose proof (forall_item_prods_P _ H _ _ _ _ _ Hs Hin Hp) as Hf. cbv beta in Hf.
  rewrite forallb_forall in Hf. specialize (Hf _ Hn). cbv beta iota in Hf.
  rewrite forallb_forall in Hf. specialize (Hf _ Ha).
  eapply first_iter_sound. apply mem_nat_In. exact Hf.
Qed.

(** exactness of the annotated FIRST of a sentential suffix followed by a look-ahead *)
Lemma first_seq_exact :
  forall beta la b,
  (forall X, In X beta -> exists u, der X u) ->
  (forall n a, In (NT n) beta -> In a (first_nt an n) -> exists u, der (NT n) (a :: u)) ->
  In b (first_seq an beta la) -> exists y, ders beta y /\ hd la y = b.
Proof.
  induction beta as [|X beta IH]; intros la b Hp HF Hin; simpl in Hin.
  - destruct Hin as [->|[]]. exists []. split; [constructor|reflexivity].
  - assert (Hrest : exists v, ders beta v).
    { apply ders_all. intros Y HY. apply Hp. now right. }
    apply in_app_or in Hin. destruct Hin as [Hin|Hin].
    + destruct X as [a|m]; simpl in Hin.
      * destruct Hin as [->|[]]. destruct Hrest as [v Hv]. exists ([b] ++ v).
        split; [constructor; [constructor|assumption]|reflexivity].
      * destruct (HF m b) as [u Hu]; [now left|assumption|]. destruct Hrest as [v Hv]. exists ((b :: u) ++ v).
        split; [constructor; assumption|reflexivity].
    + destruct (nullable_sym an X) eqn:Hn; [|destruct Hin].
      destruct X as [a|m]; [discriminate|]. simpl in Hn.
      destruct (IH la b) as (y & Hy & Hh).
      { intros Y HY; apply Hp; now right. }
      { intros n a HY. apply HF. now right. }
      { assumption. }
      exists ([] ++ y). split; [constructor; [apply NUL; assumption|assumption]|exact Hh].
Qed.

End FirstSound.

(** * No end-of-input terminal in the grammar *)
Definition x_noeof : bool :=
  forallb (fun pr => forallb (fun X => match X with T a => negb (Nat.eqb a EOFT) | NT _ => true end) (rhs pr)) g.

Lemma x_noeof_P : x_noeof = true ->
  (forall X u, der X u -> X <> T EOFT -> ~ In EOFT u) /\
  (forall gamma u, ders gamma u -> ~ In (T EOFT) gamma -> ~ In EOFT u).
Proof.
  intros H. unfold x_noeof in H. rewrite forallb_forall in H. apply der_ders_min.
  - intros a Hne [Hin|[]]. apply Hne. congruence.
  - intros p pr u Hp _ IH _. apply IH. intros Hin.
    specialize (H _ (nth_error_In _ _ Hp)). rewrite forallb_forall in H.
    specialize (H _ Hin). simpl in H. discriminate.
  - intros _ [].
  - intros X gamma u v _ IH1 _ IH2 Hni Hin. apply in_app_or in Hin. destruct Hin as [Hin|Hin].
    + apply (IH1 (fun E => Hni (or_introl E)) Hin).
    + apply (IH2 (fun E => Hni (or_intror E)) Hin).
Qed.

(** * Recovery flags *)
Definition x_recover : bool :=
  forallb (fun r => implb (s_recover r)
                          (match nth_error (s_actions r) (t_err tb) with
                           | Some (Some (Shift _)) => true | _ => false end)) (t_states tb).

Lemma x_recover_P : x_recover = true ->
  (forall s s', action_at tb s (t_err tb) <> Some (Some (Shift s'))) ->
  forall s, recover_at tb s = false.
Proof.
  unfold x_recover. intros H NES s. rewrite forallb_forall in H.
  unfold recover_at. destruct (nth_error (t_states tb) s) as [r|] eqn:E; [|reflexivity].
  specialize (H _ (nth_error_In _ _ E)). destruct (s_recover r); [|reflexivity]. simpl in H.
  specialize (NES s). unfold action_at in NES. rewrite E in NES.
  destruct (nth_error (s_actions r) (t_err tb)) as [[[s'| |]|]|]; try discriminate.
  exfalso. eapply NES. reflexivity.
Qed.

Lemma find_recover_none : (forall s, recover_at tb s = false) ->
  forall st k, find_recover tb st k = None.
Proof.
  intros H. induction st as [|[s a] st IH]; intros k; simpl; [reflexivity|].
  rewrite H. apply IH.
Qed.

(** * Closure items are justified by earlier items *)
Definition just_by (q b : nat) (it : item) : bool :=
  let '(p, k, la) := it in
  match nth_error g p, nth_error g q with
  | Some pr, Some prq =>
    match nth_error (rhs pr) k with
    | Some (NT B) => Nat.eqb (lhs prq) B && mem_nat b (first_seq an (skipn (S k) (rhs pr)) la)
    | _ => false
    end
  | _, _ => false
  end.

Fixpoint just_list (earlier rest : list item) : bool :=
  match rest with
  | [] => true
  | it :: rest' =>
    (let '(q, k, b) := it in
     match k with
     | O => Nat.eqb q 0 || existsb (just_by q b) earlier
     | S _ => true
     end) && just_list (it :: earlier) rest'
  end.

Definition x_closure : bool := forall_states tb (fun s => just_list [] (items_of an s)).

Lemma just_by_P q b p k la : just_by q b (p, k, la) = true ->
  exists pr prq, nth_error g p = Some pr /\ nth_error g q = Some prq /\
                 nth_error (rhs pr) k = Some (NT (lhs prq)) /\
                 In b (first_seq an (skipn (S k) (rhs pr)) la).
Proof.
  unfold just_by. destruct (nth_error g p) as [pr|]; [|discriminate].
  destruct (nth_error g q) as [prq|]; [|discriminate].
  destruct (nth_error (rhs pr) k) as [[a|B]|] eqn:Ek; try discriminate.
  intros H. apply andb_true_iff in H. destruct H as [H1 H2]. apply Nat.eqb_eq in H1. subst B.
  apply mem_nat_In in H2. exists pr, prq. repeat split; auto.
Qed.

Lemma just_list_ind (P : item -> Prop) (all : list item) :
  (forall q b it, q <> 0 -> In it all -> P it -> just_by q b it = true -> P (q, 0, b)) ->
  forall rest acc, just_list acc rest = true ->
    (forall it, In it acc -> In it all /\ P it) ->
    (forall it, In it rest -> In it all) ->
    (forall p k la, In (p, S k, la) rest -> P (p, S k, la)) ->
    (forall la, In (0, 0, la) rest -> P (0, 0, la)) ->
    forall it, In it rest -> P it.
Proof.
  intros Hj. induction rest as [|[[q k] b] rest IH]; intros acc H Hacc Hall Hker H0 it Hin; [destruct Hin|].
  cbn [just_list] in H. apply andb_true_iff in H. destruct H as [H1 H2].
  assert (Hhd : P (q, k, b)).
  { destruct k as [|k]; [|apply Hker; now left].
    apply orb_true_iff in H1. destruct H1 as [H1|H1].
    - apply Nat.eqb_eq in H1. subst q. apply H0. now left.
    - destruct (Nat.eq_dec q 0) as [->|Hne]; [apply H0; now left|].
      apply existsb_exists in H1. destruct H1 as (it' & Hin' & Hjb).
      destruct (Hacc _ Hin') as [Ha Hp]. eapply Hj; eauto. }
  destruct Hin as [<-|Hin]; [exact Hhd|].
  apply (IH ((q, k, b) :: acc)); auto.
  - intros it' [<-|Hi]; [split; [apply Hall; now left|exact Hhd]|auto].
  - intros it' Hi. apply Hall. now right.
  - intros p' k' la' Hi. apply Hker. now right.
  - intros la' Hi. apply H0. now right.
Qed.

Lemma x_closure_P : x_closure = true -> forall s, s < nstates tb -> just_list [] (items_of an s) = true.
Proof. unfold x_closure, forall_states. rewrite forallb_seq. auto. Qed.

(** all the extra checks *)
Definition x_checks : bool := x_null && x_first && x_prod && x_noeof && x_recover && x_closure.

End X.
