(** C17 at the level of the parser-object model: n goroutines, each with its OWN parser object (LR/ObjParse.v) and its own
    list of inputs, share only the tables.  A schedule is the order in which the goroutines complete Parse calls.  For
    EVERY schedule each goroutine has obtained exactly the results fresh parsers give on its own inputs, in order.
    (Granularity: a whole Parse call is one step; that a step of one object does not touch another object or the tables
    is the frame assumption checked on the emitted code, the memory-model part is the race detector's.) *)
From Coq Require Import List Arith Lia.
From Gocc Require Import LR.Parse LR.ObjParse LR.ObjParseProofs Front.Interleave.
Import ListNotations.

Definition semf := nat -> nat -> list attr -> option attr.
Record worker := { w_obj : pobj; w_todo : list (semf * list token); w_done : list result }.
Record shared := { sh_gs : nat -> list nat; sh_ga : nat -> list attr; sh_tb : tables; sh_fuel : nat }.

Definition w_step (sh : shared) (w : worker) : worker :=
  match w_todo w with
  | [] => w
  | (sem, input) :: rest =>
    let '(res, o') := k_parse (sh_gs sh) (sh_ga sh) (sh_tb sh) sem input (sh_fuel sh) (w_obj w) in
    {| w_obj := o'; w_todo := rest; w_done := w_done w ++ [res] |}
  end.

Lemma iter_shift {A} (f : A -> A) : forall n x, Nat.iter (S n) f x = Nat.iter n f (f x).
Proof. induction n as [|n IH]; intros x; [reflexivity|]. change (Nat.iter (S (S n)) f x) with (f (Nat.iter (S n) f x)). rewrite IH. reflexivity. Qed.

Lemma iter_w_step sh : forall n w,
  w_done (Nat.iter n (w_step sh) w) =
  w_done w ++ map (fun c => parse (sh_tb sh) (fst c) (snd c) (sh_fuel sh)) (firstn n (w_todo w)).
Proof.
  induction n as [|n IH]; intros w.
  - simpl. now rewrite app_nil_r.
  - rewrite iter_shift, IH. unfold w_step at 1 2.
    destruct (w_todo w) as [|[sem input] rest] eqn:E.
    + rewrite E. simpl. destruct n; reflexivity.
    + destruct (k_parse_is_parse (sh_gs sh) (sh_ga sh) (sh_tb sh) sem input (sh_fuel sh) (w_obj w)) as [R _].
      destruct (k_parse (sh_gs sh) (sh_ga sh) (sh_tb sh) sem input (sh_fuel sh) (w_obj w)) as [res o'].
      simpl in R. subst res. cbn [w_done w_todo firstn map fst snd]. now rewrite <- app_assoc.
Qed.

Theorem parsers_every_schedule : forall sh sch (ws : list worker) i w,
  nth_error ws i = Some w ->
  exists w', nth_error (run_sched shared worker w_step sh sch ws) i = Some w' /\
    w_done w' = w_done w ++
      map (fun c => parse (sh_tb sh) (fst c) (snd c) (sh_fuel sh)) (firstn (steps_of i sch) (w_todo w)).
Proof.
  intros sh sch ws i w H. eexists. split.
  - apply interleaving_irrelevant. exact H.
  - apply iter_w_step.
Qed.
Print Assumptions parsers_every_schedule.
