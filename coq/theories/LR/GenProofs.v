(** Proofs about the executable model of gocc's LR(1) generator (Gen.v): whatever the model
    outputs passes the validators, FOR EVERY GRAMMAR — no per-grammar kernel evaluation.

    Main theorems (all closed under the global context):
      - [gen_auto_valid]   : gen_all = Some (tb, an, tr) -> auto_valid g ntm an tr = true
      - [gen_canonical]    : ... hence the generated automaton is the canonical LR(1) collection
      - [gen_valid]        : gen_all = Some (tb, an, tr) -> valid_backward && valid_forward
      - [gen_lr_valid]     : ... and lr_valid when no production starts with the error terminal
      - [gen_x_checks_reach] : ... and x_checks when the productions occurring in items are productive ([x_prod])
      - [gen_accept_implies_sentence], [gen_sentence_implies_accept], [gen_no_panic], [gen_terminates_reach] :
        C02 for every generated parser
      - fuel / totality: [closure_fuel_ok], [gen_first_ok], [gen_states_fuel_ok], [gen_run_total],
        [gen_succeeds_iff_lr1] (the model yields tables iff the canonical LR(1) collection has no conflict) *)
From Coq Require Import List Arith ZArith Bool Lia.
From Gocc Require LR.Trees LR.Sound LR.SoundTop LR.ErrorPos.
From Gocc Require Import LR.Parse LR.Validate LR.ValidateProofs LR.Complete LR.Derive LR.Exact
                         LR.Resolve LR.ResolveProofs LR.Canonical LR.CanonicalProofs LR.Gen.
Import ListNotations.

(** * 0. Lists *)
Lemma all_some_map {A} : forall (l : list (option A)) r, all_some l = Some r -> l = map Some r.
Proof.
  induction l as [|[x|] l IH]; intros r H; simpl in H.
  - inversion H. reflexivity.
  - destruct (all_some l) as [r'|]; [|discriminate]. inversion H; subst. simpl. f_equal. now apply IH.
  - discriminate.
Qed.

Lemma all_some_map_seq {A} (f : nat -> option A) n r :
  all_some (map f (seq 0 n)) = Some r ->
  length r = n /\ forall i, i < n -> exists x, f i = Some x /\ nth_error r i = Some x.
Proof.
  intros H. apply all_some_map in H.
  assert (Hl : length r = n).
  { apply (f_equal (@length _)) in H. rewrite !map_length, seq_length in H. auto. }
  split; [exact Hl|]. intros i Hi.
  assert (E : nth_error (map f (seq 0 n)) i = Some (f i)).
  { rewrite nth_error_map. rewrite (nth_error_seq0 _ _ Hi). reflexivity. }
  rewrite H, nth_error_map in E. destruct (nth_error r i) as [x|] eqn:Er; simpl in E; [|discriminate].
  exists x. inversion E. auto.
Qed.

Lemma bools_eqb_eq a b : bools_eqb a b = true -> a = b.
Proof.
  unfold bools_eqb. rewrite andb_true_iff. intros [Hl Hc]. apply Nat.eqb_eq in Hl.
  revert b Hl Hc. induction a as [|x a IH]; intros [|y b] Hl Hc; simpl in *; try discriminate; [reflexivity|].
  apply andb_true_iff in Hc. destruct Hc as [H1 H2]. apply eqb_prop in H1. subst y. f_equal. apply IH; auto.
Qed.

Lemma mem_sym_In X l : mem_sym X l = true <-> In X l.
Proof.
  unfold mem_sym. rewrite existsb_exists. split.
  - intros [Y [Hin HY]]. apply sym_eqb_eq in HY. now subst.
  - intros H. exists X. split; [assumption|now apply sym_eqb_eq].
Qed.

Lemma flag_iter_length g tf nn k : length (flag_iter g tf nn (S k)) = nn.
Proof. simpl. unfold flag_step. now rewrite map_length, seq_length. Qed.

Lemma cfirst_iter_length g an nn k : length (cfirst_iter g an nn (S k)) = nn.
Proof. simpl. unfold cfirst_step. now rewrite map_length, seq_length. Qed.

Lemma In_dedup a l : In a l -> In a (Exact.dedup l).
Proof.
  induction l as [|x l IH]; simpl; [auto|]. intros [->|H].
  - destruct (mem_nat a (Exact.dedup l)) eqn:E; [now apply mem_nat_In|now left].
  - destruct (mem_nat x (Exact.dedup l)); [auto|right; auto].
Qed.

Lemma prods_of_inv g B q : In q (prods_of g B) -> exists prq, nth_error g q = Some prq /\ lhs prq = B.
Proof.
  unfold prods_of. rewrite in_map_iff. intros ([q' prq] & E & Hin). simpl in E. subst q'.
  apply filter_In in Hin. destruct Hin as [Hin Hl]. simpl in Hl. apply Nat.eqb_eq in Hl.
  exists prq. split; [|assumption].
  apply In_nth_error in Hin. destruct Hin as [i Hi].
  assert (Hlt : i < length (combine (seq 0 (length g)) g)) by (apply nth_error_Some; congruence).
  rewrite combine_length, seq_length, Nat.min_id in Hlt.
  destruct (nth_error g i) as [pr|] eqn:Eg; [|apply nth_error_None in Eg; lia].
  rewrite (nth_error_combine _ _ _ _ _ (nth_error_seq0 _ _ Hlt) Eg) in Hi. inversion Hi; subst. assumption.
Qed.

(** * 1. FIRST *)
Section FirstP.
Variable g : grammar.
Variable nn : nat.

(** the iterations depend on the annotation through the nullable flags only *)
Lemma first_rhs_ext an an' F gamma : a_nullable an = a_nullable an' -> first_rhs an F gamma = first_rhs an' F gamma.
Proof.
  intros E. induction gamma as [|[a|m] gamma IH]; simpl; auto.
  unfold nullable_nt. rewrite E, IH. reflexivity.
Qed.

Lemma cfirst_step_ext an an' F : a_nullable an = a_nullable an' -> cfirst_step g an nn F = cfirst_step g an' nn F.
Proof.
  intros E. unfold cfirst_step. apply map_ext. intros n. f_equal. apply flat_map_ext. intros pr.
  destruct (Nat.eqb (lhs pr) n); [|reflexivity]. now apply first_rhs_ext.
Qed.

Lemma cfirst_iter_ext an an' k : a_nullable an = a_nullable an' -> cfirst_iter g an nn k = cfirst_iter g an' nn k.
Proof. intros E. induction k as [|k IH]; simpl; [reflexivity|]. rewrite IH. now apply cfirst_step_ext. Qed.

Variable N : list bool.
Variable F : list (list nat).
Hypothesis GF : gen_first g nn = Some (N, F).
Hypothesis GNE : g <> [].
Hypothesis LHS : forall pr, In pr g -> lhs pr < nn.

Variable an : annot.
Hypothesis AN : a_nullable an = N.
Hypothesis AF : a_first an = F.

Lemma GF_parts : N = gen_nullable g nn /\ F = gen_first_sets g nn /\ gen_first_stable g nn = true.
Proof.
  unfold gen_first in GF. destruct (gen_first_stable g nn); [|discriminate]. inversion GF. auto.
Qed.

Lemma N_length : length N = nn.
Proof.
  destruct GF_parts as (-> & _). unfold gen_nullable. destruct g as [|pr0 g']; [congruence|].
  apply flag_iter_length.
Qed.

Lemma F_length : length F = nn.
Proof.
  destruct GF_parts as (_ & -> & _). unfold gen_first_sets. destruct g as [|pr0 g']; [congruence|].
  apply cfirst_iter_length.
Qed.

Lemma N_stable : flag_step g false nn N = N.
Proof.
  destruct GF_parts as (E & _ & H). unfold gen_first_stable in H. apply andb_true_iff in H.
  rewrite E. apply bools_eqb_eq. apply H.
Qed.

Lemma F_stable n a : n < nn -> In a (nth n (cfirst_step g an nn F) []) -> In a (nth n F []).
Proof.
  intros Hn Ha. destruct GF_parts as (EN & EF & H). unfold gen_first_stable in H. apply andb_true_iff in H.
  destruct H as [_ H]. rewrite forallb_seq in H. specialize (H n Hn). rewrite forallb_forall in H.
  rewrite EF. apply mem_nat_In. apply H. rewrite <- EF.
  rewrite <- (cfirst_step_ext an (an_null g nn)); [assumption|]. simpl. now rewrite AN.
Qed.

Lemma flag_rhs_nullable gamma : flag_rhs false N gamma = forallb (nullable_sym an) gamma.
Proof.
  unfold flag_rhs. induction gamma as [|[a|m] gamma IH]; simpl; [reflexivity|reflexivity|].
  rewrite IH. unfold nullable_nt. now rewrite AN.
Qed.

Lemma first_closed_of_rhs n : forall gamma,
  (forall a, In a (first_rhs an F gamma) -> In a (nth n F [])) -> first_closed_rhs an n gamma = true.
Proof.
  induction gamma as [|X gamma IH]; intros H; simpl; [reflexivity|].
  apply andb_true_iff. split.
  - apply forallb_forall. intros a Ha. apply mem_nat_In. unfold first_nt. rewrite AF. apply H.
    destruct X as [b|m]; simpl in *; [assumption|]. apply in_or_app. left. unfold first_nt in Ha. now rewrite AF in Ha.
  - destruct X as [b|m]; simpl; [reflexivity|].
    destruct (nullable_nt an m) eqn:E; [|reflexivity]. apply IH. intros a Ha. apply H. simpl.
    apply in_or_app. right. now rewrite E.
Qed.

Lemma gen_f_first : f_first g an = true.
Proof.
  unfold f_first. apply forallb_forall. intros pr Hpr. pose proof (LHS _ Hpr) as Hl.
  apply andb_true_iff. split.
  - destruct (forallb (nullable_sym an) (rhs pr)) eqn:E; [|reflexivity].
    unfold nullable_nt. rewrite AN. rewrite <- N_stable. unfold flag_step.
    rewrite nth_map_seq by assumption. apply existsb_exists. exists pr. split; [assumption|].
    rewrite Nat.eqb_refl, flag_rhs_nullable. exact E.
  - apply first_closed_of_rhs. intros a Ha. apply F_stable; [assumption|].
    unfold cfirst_step. rewrite nth_map_seq by assumption. apply In_dedup.
    apply in_flat_map. exists pr. split; [assumption|]. now rewrite Nat.eqb_refl.
Qed.

Lemma gen_x_null : x_null g an = true.
Proof.
  unfold x_null. rewrite AN, N_length. apply forallb_forall. intros n _.
  unfold nullable_nt. rewrite AN. destruct GF_parts as (E & _).
  change (flag_iter g false nn (length g)) with (gen_nullable g nn). rewrite <- E.
  destruct (nth n N false); reflexivity.
Qed.

Lemma gen_c_first : c_first g an = true.
Proof.
  unfold c_first. rewrite AF, F_length. apply forallb_forall. intros n _.
  apply forallb_forall. intros a Ha. apply mem_nat_In. unfold first_nt in Ha. rewrite AF in Ha.
  destruct GF_parts as (_ & E & _). rewrite E in Ha. unfold gen_first_sets in Ha.
  rewrite (cfirst_iter_ext an (an_null g nn)); [assumption|]. simpl. rewrite AN. apply GF_parts.
Qed.

End FirstP.

(** * 2. Closure *)
Definition dot0 (it : item) : Prop := match it with (_, k, _) => k = 0 end.
Definition la_of (it : item) : nat := match it with (_, _, la) => la end.

Lemma add_items_spec : forall news I,
  exists extra, add_items I news = I ++ extra /\ incl extra news /\ incl news (I ++ extra).
Proof.
  induction news as [|i news IH]; intros I.
  - exists []. rewrite app_nil_r. split; [reflexivity|]. split; intros x [].
  - change (add_items I (i :: news)) with (add_items (add_item I i) news).
    unfold add_item. destruct (mem_item i I) eqn:E.
    + destruct (IH I) as (extra & E1 & E2 & E3). exists extra. split; [exact E1|]. split.
      * intros x Hx. right. now apply E2.
      * intros x [<-|Hx]; [apply in_or_app; left; now apply mem_item_In|now apply E3].
    + destruct (IH (I ++ [i])) as (extra & E1 & E2 & E3). exists (i :: extra).
      rewrite E1, <- app_assoc. split; [reflexivity|]. split.
      * intros x [<-|Hx]; [now left|right; now apply E2].
      * intros x [<-|Hx]; [apply in_or_app; right; now left|].
        specialize (E3 _ Hx). now rewrite <- app_assoc in E3.
Qed.

Lemma add_items_ind (Q : list item -> Prop) : forall news I,
  Q I ->
  (forall I' i, Q I' -> incl I I' -> In i news -> ~ In i I' -> Q (I' ++ [i])) ->
  Q (add_items I news).
Proof.
  induction news as [|i news IH]; intros I HQ Hstep; [assumption|].
  change (add_items I (i :: news)) with (add_items (add_item I i) news).
  unfold add_item. destruct (mem_item i I) eqn:E.
  - apply IH; [assumption|]. intros I' j H1 H2 H3 H4. apply Hstep; auto. now right.
  - apply IH.
    + apply Hstep; auto; [intros x; auto|now left|]. intros Hin. apply mem_item_In in Hin. congruence.
    + intros I' j H1 H2 H3 H4. apply Hstep; auto; [|now right].
      intros x Hx. apply H2. apply in_or_app. now left.
Qed.

Section ClosureP.
Variable g : grammar.
Variable la_order : list nat.
Variable an : annot.

Notation new_items := (new_items g la_order an).
Notation closure_loop := (closure_loop g la_order an).
Notation closure := (closure g la_order an).

Lemma new_items_inv p k la i : In i (new_items (p, k, la)) ->
  exists pr B q prq b, i = (q, 0, b) /\ nth_error g p = Some pr /\ nth_error (rhs pr) k = Some (NT B) /\
    nth_error g q = Some prq /\ lhs prq = B /\ In b (first_seq an (skipn (S k) (rhs pr)) la) /\ In b la_order.
Proof.
  unfold Gen.new_items. destruct (nth_error g p) as [pr|] eqn:Hp; [|intros []].
  destruct (nth_error (rhs pr) k) as [[a|B]|] eqn:Hk; try (intros []).
  intros H. apply in_flat_map in H. destruct H as (q & Hq & H). apply in_map_iff in H.
  destruct H as (b & <- & Hb). unfold las in Hb. apply filter_In in Hb. destruct Hb as [Hb1 Hb2].
  apply mem_nat_In in Hb2. destruct (prods_of_inv _ _ _ Hq) as (prq & Hq' & HB).
  exists pr, B, q, prq, b. repeat split; auto.
Qed.

Lemma new_items_intro p k la pr q prq b :
  nth_error g p = Some pr -> nth_error (rhs pr) k = Some (NT (lhs prq)) -> nth_error g q = Some prq ->
  In b (first_seq an (skipn (S k) (rhs pr)) la) -> In b la_order ->
  In (q, 0, b) (new_items (p, k, la)).
Proof.
  intros Hp Hk Hq Hb Hl. unfold Gen.new_items. rewrite Hp, Hk. apply in_flat_map.
  exists q. split; [now apply prods_of_spec|]. apply in_map. unfold las. apply filter_In.
  split; [assumption|now apply mem_nat_In].
Qed.

Lemma new_items_just p k la q b : In (q, 0, b) (new_items (p, k, la)) -> just_by g an q b (p, k, la) = true.
Proof.
  intros H. destruct (new_items_inv _ _ _ _ H) as (pr & B & q' & prq & b' & E & Hp & Hk & Hq & HB & Hb & _).
  inversion E; subst q' b'. unfold just_by. rewrite Hp, Hq, Hk, HB, Nat.eqb_refl. simpl. now apply mem_nat_In.
Qed.

(** preservation of an invariant by the closure loop *)
Lemma closure_loop_ind (Q : list item -> Prop) :
  (forall I it i, Q I -> In it I -> In i (new_items it) -> ~ In i I -> Q (I ++ [i])) ->
  forall fuel I idx J, closure_loop fuel I idx = Some J -> Q I -> Q J.
Proof.
  intros Hstep. induction fuel as [|f IH]; intros I idx J H HQ; simpl in H; [discriminate|].
  destruct (nth_error I idx) as [it|] eqn:E; [|inversion H; now subst].
  apply (IH _ _ _ H). apply add_items_ind; [assumption|].
  intros I' i H1 H2 H3 H4. apply (Hstep I' it); auto. apply H2. eapply nth_error_In; eauto.
Qed.

(** the result extends the argument and is closed *)
Lemma closure_loop_closed : forall fuel I idx J, closure_loop fuel I idx = Some J ->
  (forall j it, j < idx -> nth_error I j = Some it -> incl (new_items it) I) ->
  (exists rest, J = I ++ rest) /\ forall it, In it J -> incl (new_items it) J.
Proof.
  induction fuel as [|f IH]; intros I idx J H Hc; simpl in H; [discriminate|].
  destruct (nth_error I idx) as [it|] eqn:E.
  - destruct (add_items_spec (new_items it) I) as (extra & E1 & E2 & E3).
    rewrite E1 in H. destruct (IH _ _ _ H) as ((rest & ->) & Hcl).
    + intros j it' Hj Hn.
      assert (Hlt : j < length I).
      { assert (idx < length I) by (apply nth_error_Some; congruence). lia. }
      rewrite nth_error_app1 in Hn by assumption.
      destruct (Nat.eq_dec j idx) as [->|Hne].
      * rewrite E in Hn. inversion Hn; subst it'. exact E3.
      * intros x Hx. apply in_or_app. left. apply (Hc j it'); auto. lia.
    + split; [|assumption]. exists (extra ++ rest). now rewrite app_assoc.
  - inversion H; subst J. split; [exists []; now rewrite app_nil_r|].
    intros it Hin. apply In_nth_error in Hin. destruct Hin as [j Hj].
    apply (Hc j it); [|assumption]. apply nth_error_None in E.
    assert (j < length I) by (apply nth_error_Some; congruence). lia.
Qed.

Lemma cjust_list_app is0 : forall l1 acc l2,
  cjust_list g an is0 acc (l1 ++ l2) = cjust_list g an is0 acc l1 && cjust_list g an is0 (rev l1 ++ acc) l2.
Proof.
  induction l1 as [|it l1 IH]; intros acc l2; [reflexivity|].
  cbn [app cjust_list rev]. rewrite IH, <- app_assoc, andb_assoc. reflexivity.
Qed.

Variable ntm : nat.
Hypothesis LAO : forall a, a < ntm -> In a la_order.
Hypothesis TOK : forall pr a, In pr g -> In (T a) (rhs pr) -> a < ntm.
Hypothesis FOK : forall n a, In a (first_nt an n) -> a < ntm.

Lemma first_seq_lt : forall beta la b, (forall a, In (T a) beta -> a < ntm) -> la < ntm ->
  In b (first_seq an beta la) -> b < ntm.
Proof.
  induction beta as [|X beta IH]; intros la b HB Hla Hin; simpl in Hin.
  - destruct Hin as [<-|[]]. assumption.
  - apply in_app_or in Hin. destruct Hin as [Hin|Hin].
    + destruct X as [a|n]; simpl in Hin.
      * destruct Hin as [<-|[]]. apply HB. now left.
      * eapply FOK; eauto.
    + destruct (nullable_sym an X); [|destruct Hin]. apply (IH la); auto. intros a Ha. apply HB. now right.
Qed.

Lemma skipn_In {A} (x : A) : forall n l, In x (skipn n l) -> In x l.
Proof. induction n as [|n IH]; intros [|y l] H; simpl in *; auto. Qed.

(** the three invariants of a state under construction: look-aheads are terminals; the kernel
    [K] is a prefix and the rest has dot 0; dot-0 items are justified by earlier items *)
Definition cinv (is0 : bool) (acc K I : list item) : Prop :=
  Forall (fun it => la_of it < ntm) I /\
  (exists rest, I = K ++ rest /\ Forall dot0 rest) /\
  cjust_list g an is0 acc I = true.

Lemma cinv_step is0 acc K I it i :
  cinv is0 acc K I -> In it I -> In i (new_items it) -> ~ In i I -> cinv is0 acc K (I ++ [i]).
Proof.
  intros (H1 & (rest & -> & H2) & H3) Hit Hi _. destruct it as [[p k] la].
  destruct (new_items_inv _ _ _ _ Hi) as (pr & B & q & prq & b & -> & Hp & Hk & Hq & HB & Hb & Hlo).
  split; [|split].
  - apply Forall_app. split; [assumption|]. constructor; [|constructor]. simpl.
    rewrite Forall_forall in H1. specialize (H1 _ Hit). simpl in H1.
    apply (first_seq_lt (skipn (S k) (rhs pr)) la); auto.
    intros a Ha. apply (TOK pr); [eapply nth_error_In; eauto|eapply skipn_In; eauto].
  - exists (rest ++ [(q, 0, b)]). rewrite app_assoc. split; [reflexivity|].
    apply Forall_app. split; [assumption|]. constructor; [reflexivity|constructor].
  - rewrite cjust_list_app, H3. cbn [cjust_list andb]. rewrite andb_true_r.
    apply orb_true_iff. right. apply existsb_exists. exists (p, k, la). split.
    + apply in_or_app. left. now apply in_rev in Hit.
    + now apply new_items_just.
Qed.

(** what [closure K = Some J] gives *)
Lemma closure_spec is0 acc K J : closure K = Some J ->
  Forall (fun it => la_of it < ntm) K -> cjust_list g an is0 acc K = true ->
  cinv is0 acc K J /\ forall it, In it J -> incl (new_items it) J.
Proof.
  unfold Gen.closure. intros H HK HJ. split.
  - apply (closure_loop_ind (cinv is0 acc K)) in H; [assumption| |].
    + intros I it i. apply cinv_step.
    + split; [assumption|]. split; [|assumption]. exists []. rewrite app_nil_r. auto.
  - apply closure_loop_closed in H; [apply H|]. intros j it Hj. lia.
Qed.

Lemma closure_nil : closure [] = Some [].
Proof. unfold Gen.closure, closure_fuel. rewrite Nat.add_comm. reflexivity. Qed.

(** closedness in the validators' form *)
Lemma closed_first J p k la pr B q prq b :
  (forall it, In it J -> incl (new_items it) J) -> Forall (fun it => la_of it < ntm) J ->
  In (p, k, la) J -> nth_error g p = Some pr -> nth_error (rhs pr) k = Some (NT B) ->
  nth_error g q = Some prq -> lhs prq = B -> In b (first_seq an (skipn (S k) (rhs pr)) la) ->
  In (q, 0, b) J.
Proof.
  intros Hc Hla Hin Hp Hk Hq HB Hb. subst B. apply (Hc _ Hin). eapply new_items_intro; eauto.
  apply LAO. rewrite Forall_forall in Hla. specialize (Hla _ Hin). simpl in Hla.
  apply (first_seq_lt (skipn (S k) (rhs pr)) la); auto.
  intros a Ha. apply (TOK pr); [eapply nth_error_In; eauto|eapply skipn_In; eauto].
Qed.

End ClosureP.

(** * 3. Goto and the worklist over the states *)
Lemma assoc_snoc X Y t l :
  assoc X (l ++ [(Y, t)]) = match assoc X l with Some u => Some u | None => if sym_eqb X Y then Some t else None end.
Proof.
  induction l as [|[Z u] l IH]; simpl; [reflexivity|]. destruct (sym_eqb X Z); [reflexivity|apply IH].
Qed.

Section StatesP.
Variable g : grammar.
Variable symbols : list sym.
Variable la_order : list nat.
Variable an : annot.
Variable ntm : nat.
Hypothesis LAO : forall a, a < ntm -> In a la_order.
Hypothesis TOK : forall pr a, In pr g -> In (T a) (rhs pr) -> a < ntm.
Hypothesis FOK : forall n a, In a (first_nt an n) -> a < ntm.
Hypothesis EOK : EOFT < ntm.

Notation new_items := (new_items g la_order an).
Notation closure := (closure g la_order an).
Notation goto_kernel := (goto_kernel g).
Notation goto := (goto g la_order an).
Notation expects := (expects g).
Notation process_syms := (process_syms g la_order an).
Notation states_loop := (states_loop g symbols la_order an).
Notation la_lt := (fun it : item => la_of it < ntm).

Lemma expects_spec X p k la : expects X (p, k, la) = true <->
  exists pr, nth_error g p = Some pr /\ nth_error (rhs pr) k = Some X.
Proof.
  unfold Gen.expects. destruct (nth_error g p) as [pr|].
  2:{ split; [discriminate|]. intros (pr' & E1 & _). discriminate E1. }
  destruct (nth_error (rhs pr) k) as [Y|] eqn:EY.
  2:{ split; [discriminate|]. intros (pr' & E1 & E2). inversion E1; subst pr'. rewrite EY in E2. discriminate E2. }
  rewrite sym_eqb_eq. split.
  - intros ->. eauto.
  - intros (pr' & E1 & E2). inversion E1; subst pr'. rewrite EY in E2. now inversion E2.
Qed.

Lemma goto_kernel_In X I p k la :
  In (p, k, la) (goto_kernel X I) <-> exists k', k = S k' /\ In (p, k', la) I /\ expects X (p, k', la) = true.
Proof.
  unfold Gen.goto_kernel. rewrite in_map_iff. split.
  - intros ([[p' k'] la'] & E & Hin). simpl in E. inversion E; subst. apply filter_In in Hin. exists k'. tauto.
  - intros (k' & -> & Hin & He). exists (p, k', la). split; [reflexivity|]. apply filter_In. auto.
Qed.

Lemma goto_kernel_la X I : Forall la_lt I -> Forall la_lt (goto_kernel X I).
Proof.
  rewrite !Forall_forall. intros H [[p k] la] Hin. apply goto_kernel_In in Hin.
  destruct Hin as (k' & _ & Hin & _). apply (H _ Hin).
Qed.

Lemma cjust_kernel acc : forall K, (forall it, In it K -> ~ dot0 it) -> cjust_list g an false acc K = true.
Proof.
  intros K. revert acc. induction K as [|[[p k] la] K IH]; intros acc H; [reflexivity|].
  cbn [cjust_list]. rewrite IH by (intros it Hi; apply H; now right).
  destruct k; [|reflexivity]. exfalso. apply (H (p, 0, la)); [now left|reflexivity].
Qed.

Lemma goto_kernel_dot X I it : In it (goto_kernel X I) -> ~ dot0 it.
Proof.
  destruct it as [[p k] la]. intros Hin. apply goto_kernel_In in Hin. destruct Hin as (k' & -> & _). discriminate.
Qed.

Definition closed (St : list item) : Prop := forall it, In it St -> incl (new_items it) St.

(** a finished state *)
Definition state_ok (is0 : bool) (St : list item) : Prop :=
  Forall la_lt St /\ closed St /\ cjust_list g an is0 [] St = true /\
  (if is0 then In (0, 0, EOFT) St /\ Forall dot0 St else exists it, In it St /\ ~ dot0 it).

Definition states_ok (sts : list (list item)) : Prop :=
  forall j St, nth_error sts j = Some St -> state_ok (Nat.eqb j 0) St.

(** what a successful Goto gives *)
Lemma goto_spec X I J : goto X I = Some J -> Forall la_lt I ->
  (exists rest, J = goto_kernel X I ++ rest /\ Forall dot0 rest) /\
  Forall la_lt J /\ closed J /\ cjust_list g an false [] J = true.
Proof.
  intros H HI. unfold Gen.goto in H.
  destruct (closure_spec g la_order an ntm TOK FOK false [] _ _ H) as ((H1 & H2 & H3) & H4).
  - now apply goto_kernel_la.
  - apply cjust_kernel. intros it. apply goto_kernel_dot.
  - auto.
Qed.

Lemma goto_nonempty X I J : goto X I = Some J -> Forall la_lt I -> J <> [] ->
  state_ok false J /\ exists it, In it I /\ expects X it = true.
Proof.
  intros H HI HJ. destruct (goto_spec _ _ _ H HI) as ((rest & E & Hr) & H1 & H2 & H3).
  destruct (goto_kernel X I) as [|[[p k] la] K] eqn:EK.
  - exfalso. unfold Gen.goto in H. rewrite EK, closure_nil in H. inversion H. congruence.
  - assert (Hin : In (p, k, la) (goto_kernel X I)) by (rewrite EK; now left).
    split.
    + split; [assumption|]. split; [assumption|]. split; [assumption|].
      exists (p, k, la). split; [rewrite E; now left|]. eapply goto_kernel_dot; eauto.
    + apply goto_kernel_In in Hin. destruct Hin as (k' & _ & Hin & He). eauto.
Qed.

(** kernel items of a Goto are exactly the advanced items *)
Lemma goto_items X I J p k la : goto X I = Some J -> Forall la_lt I ->
  (In (p, S k, la) J <-> In (p, k, la) I /\ expects X (p, k, la) = true).
Proof.
  intros H HI. destruct (goto_spec _ _ _ H HI) as ((rest & E & Hr) & _). rewrite E. split.
  - intros Hin. apply in_app_or in Hin. destruct Hin as [Hin|Hin].
    + apply goto_kernel_In in Hin. destruct Hin as (k' & Ek & Hin). inversion Ek; subst. assumption.
    + rewrite Forall_forall in Hr. specialize (Hr _ Hin). discriminate.
  - intros [Hin He]. apply in_or_app. left. apply goto_kernel_In. eauto.
Qed.

Lemma set_eqb_spec I J : set_eqb I J = true -> forall i, In i I <-> In i J.
Proof.
  unfold set_eqb. rewrite !andb_true_iff, !forallb_forall. intros [H1 H2] i. split; intros H.
  - apply mem_item_In. now apply H1.
  - apply mem_item_In. now apply H2.
Qed.

Lemma set_eqb_refl I : set_eqb I I = true.
Proof.
  unfold set_eqb. apply andb_true_iff.
  split; apply forallb_forall; intros i Hi; now apply mem_item_In.
Qed.

Lemma find_index_from_Some J : forall sts i t, find_index_from J sts i = Some t ->
  i <= t /\ t - i < length sts /\ set_eqb (nth (t - i) sts []) J = true.
Proof.
  induction sts as [|I1 sts IH]; intros i t H; simpl in H; [discriminate|].
  destruct (set_eqb I1 J) eqn:E.
  - inversion H; subst. rewrite Nat.sub_diag. simpl. split; [lia|]. split; [lia|assumption].
  - destruct (IH _ _ H) as (H1 & H2 & H3). split; [lia|]. split; [simpl; lia|].
    replace (t - i) with (S (t - S i)) by lia. exact H3.
Qed.

Lemma find_index_from_None J : forall sts i, find_index_from J sts i = None ->
  forall t, t < length sts -> set_eqb (nth t sts []) J = false.
Proof.
  induction sts as [|I1 sts IH]; intros i H t Ht; simpl in *; [lia|].
  destruct (set_eqb I1 J) eqn:E; [discriminate|]. destruct t; [assumption|]. apply (IH _ H). lia.
Qed.

(** an entry (X, t) of the transition row of state I *)
Definition entry_ok (sts : list (list item)) (I : list item) (X : sym) (t : nat) : Prop :=
  t < length sts /\ t <> 0 /\ exists J, goto X I = Some J /\ J <> [] /\ set_eqb (nth t sts []) J = true.

Lemma entry_ok_mono sts ext I X t : entry_ok sts I X t -> entry_ok (sts ++ ext) I X t.
Proof.
  intros (H1 & H2 & J & H3 & H4 & H5). split; [rewrite app_length; lia|]. split; [assumption|].
  exists J. split; [assumption|]. split; [assumption|]. now rewrite app_nth1.
Qed.

Lemma states_ok_snoc sts J : states_ok sts -> 0 < length sts -> state_ok false J -> states_ok (sts ++ [J]).
Proof.
  intros H Hl HJ j St Hn. destruct (Nat.lt_ge_cases j (length sts)) as [Hlt|Hge].
  - rewrite nth_error_app1 in Hn by assumption. now apply H.
  - rewrite nth_error_app2 in Hn by assumption. destruct (j - length sts) as [|d] eqn:Ed.
    + simpl in Hn. inversion Hn; subst. replace (Nat.eqb j 0) with false; [assumption|].
      symmetry. apply Nat.eqb_neq. lia.
    + simpl in Hn. destruct d; discriminate.
Qed.

Lemma process_syms_spec I : Forall la_lt I -> forall syms sts row sts' row',
  process_syms I syms sts row = Some (sts', row') ->
  states_ok sts -> 0 < length sts -> (forall X t, In (X, t) row -> entry_ok sts I X t) ->
  (exists ext, sts' = sts ++ ext) /\ states_ok sts' /\
  (forall X t, In (X, t) row' -> entry_ok sts' I X t) /\
  (forall X t, assoc X row = Some t -> assoc X row' = Some t) /\
  (forall X, In X syms -> goto_kernel X I <> [] -> assoc X row' <> None) /\
  (forall j, length sts <= j < length sts' -> exists X, assoc X row' = Some j).
Proof.
  intros HI. induction syms as [|X syms IH]; intros sts row sts' row' H Hok Hpos Hrow; simpl in H.
  - inversion H; subst. split; [exists []; now rewrite app_nil_r|]. split; [assumption|]. split; [assumption|].
    split; [auto|]. split; [intros X []|]. intros j Hj. lia.
  - destruct (goto X I) as [J|] eqn:EJ; [|discriminate].
    destruct J as [|i0 J0].
    + (* empty Goto *)
      destruct (IH _ _ _ _ H Hok Hpos Hrow) as (H1 & H2 & H3 & H4 & H5 & H6).
      split; [assumption|]. split; [assumption|]. split; [assumption|]. split; [assumption|]. split; [|assumption].
      intros Y [<-|HY]; [|now apply H5]. intros Hne. exfalso. apply Hne.
      destruct (goto_spec _ _ _ EJ HI) as ((rest & E & _) & _).
      symmetry in E. apply app_eq_nil in E. apply E.
    + set (J := i0 :: J0) in *.
      assert (HJne : J <> []) by discriminate.
      destruct (goto_nonempty _ _ _ EJ HI HJne) as [HJok (it & Hit & Hex)].
      assert (Hk : goto_kernel X I <> []).
      { destruct it as [[p k] la]. intros E.
        assert (Hin : In (p, S k, la) (goto_kernel X I)) by (apply goto_kernel_In; eauto).
        rewrite E in Hin. destruct Hin. }
      destruct (find_index J sts) as [idx|] eqn:EF.
      * (* an existing state *)
        unfold find_index in EF. apply find_index_from_Some in EF. rewrite Nat.sub_0_r in EF.
        destruct EF as (_ & Hlt & Hse).
        assert (Hent : entry_ok sts I X idx).
        { split; [assumption|]. split; [|exists J; auto].
          intros ->. destruct sts as [|St0 sts0]; [simpl in Hpos; lia|]. simpl in Hse.
          destruct (Hok 0 St0 eq_refl) as (_ & _ & _ & _ & Hd0). simpl in Hd0.
          destruct HJok as (_ & _ & _ & (it' & Hi' & Hnd)). apply Hnd.
          rewrite Forall_forall in Hd0. apply Hd0. apply (set_eqb_spec _ _ Hse). exact Hi'. }
        destruct (IH _ _ _ _ H Hok Hpos) as (H1 & H2 & H3 & H4 & H5 & H6).
        { intros Y t Hin. apply in_app_or in Hin. destruct Hin as [Hin|[E|[]]]; [now apply Hrow|].
          inversion E; subst. assumption. }
        split; [assumption|]. split; [assumption|]. split; [assumption|]. split; [|split; [|assumption]].
        -- intros Y t Ha. apply H4. rewrite assoc_snoc, Ha. reflexivity.
        -- intros Y [<-|HY]; [|now apply H5]. intros _.
           destruct (assoc X (row ++ [(X, idx)])) as [t|] eqn:Ea.
           ++ rewrite (H4 _ _ Ea). discriminate.
           ++ rewrite assoc_snoc in Ea. destruct (assoc X row); [discriminate|].
              replace (sym_eqb X X) with true in Ea by (symmetry; now apply sym_eqb_eq). discriminate.
      * (* a new state *)
        unfold find_index in EF.
        assert (Hnone : assoc X row = None).
        { destruct (assoc X row) as [t|] eqn:Ea; [|reflexivity]. exfalso.
          apply assoc_In in Ea. destruct (Hrow _ _ Ea) as (Hlt & _ & J' & HJ' & _ & Hse).
          rewrite EJ in HJ'. inversion HJ'; subst J'.
          rewrite (find_index_from_None _ _ _ EF _ Hlt) in Hse. discriminate. }
        destruct (IH _ _ _ _ H) as (H1 & H2 & H3 & H4 & H5 & H6).
        { now apply states_ok_snoc. }
        { rewrite app_length. lia. }
        { intros Y t Hin. apply in_app_or in Hin. destruct Hin as [Hin|[E|[]]].
          - apply entry_ok_mono. now apply Hrow.
          - inversion E; subst. split; [rewrite app_length; simpl; lia|]. split; [lia|].
            exists J. split; [assumption|]. split; [assumption|].
            rewrite app_nth2, Nat.sub_diag by lia. simpl. apply set_eqb_refl. }
        assert (Hnew : assoc X row' = Some (length sts)).
        { apply H4. rewrite assoc_snoc, Hnone.
          replace (sym_eqb X X) with true by (symmetry; now apply sym_eqb_eq). reflexivity. }
        split; [|split; [assumption|]; split; [assumption|]; split; [|split]].
        -- destruct H1 as [ext ->]. exists ([J] ++ ext). now rewrite app_assoc.
        -- intros Y t Ha. apply H4. rewrite assoc_snoc, Ha. reflexivity.
        -- intros Y [<-|HY]; [|now apply H5]. intros _. rewrite Hnew. discriminate.
        -- intros j Hj. destruct (Nat.eq_dec j (length sts)) as [->|Hne]; [eauto|].
           apply H6. rewrite app_length. simpl. lia.
Qed.

(** the transition row of a processed state *)
Definition row_ok (sts : list (list item)) (I : list item) (row : list (sym * nat)) : Prop :=
  (forall X t, In (X, t) row -> entry_ok sts I X t) /\
  (forall X, In X symbols -> goto_kernel X I <> [] -> assoc X row <> None).

Definition linv (sts : list (list item)) (trs : transitions) : Prop :=
  states_ok sts /\ 0 < length sts /\ length trs <= length sts /\
  (forall s row, nth_error trs s = Some row -> row_ok sts (nth s sts []) row) /\
  (forall j, 0 < j < length sts -> exists s X, s < j /\ assoc X (nth s trs []) = Some j).

Lemma states_loop_spec : forall fuel sts trs S TR,
  states_loop fuel sts trs = Some (S, TR) -> linv sts trs -> linv S TR /\ length TR = length S.
Proof.
  induction fuel as [|f IH]; intros sts trs S TR H (H1 & H2 & H3 & H4 & H5); simpl in H; [discriminate|].
  destruct (nth_error sts (length trs)) as [I1|] eqn:EI.
  - destruct (process_syms I1 symbols sts []) as [[sts' row]|] eqn:EP; [|discriminate].
    assert (HI : Forall la_lt I1).
    { destruct (H1 _ _ EI) as (HI & _). exact HI. }
    destruct (process_syms_spec I1 HI _ _ _ _ _ EP H1 H2) as ((ext & ->) & P2 & P3 & _ & P5 & P6).
    { intros X t []. }
    assert (Hlt : length trs < length sts) by (apply nth_error_Some; congruence).
    apply (IH _ _ _ _ H). split; [assumption|]. split; [rewrite app_length; lia|].
    split; [rewrite !app_length; simpl; lia|]. split.
    + intros s row' Hn. destruct (Nat.lt_ge_cases s (length trs)) as [Hs|Hs].
      * rewrite nth_error_app1 in Hn by assumption. destruct (H4 _ _ Hn) as [R1 R2].
        rewrite app_nth1 by lia. split; [|assumption].
        intros X t Hin. apply entry_ok_mono. now apply R1.
      * rewrite nth_error_app2 in Hn by assumption. destruct (s - length trs) as [|d] eqn:Ed.
        -- simpl in Hn. inversion Hn; subst row'. assert (s = length trs) by lia. subst s.
           rewrite app_nth1 by lia. rewrite (nth_error_nth _ _ _ EI). split; assumption.
        -- simpl in Hn. destruct d; discriminate.
    + intros j Hj. destruct (Nat.lt_ge_cases j (length sts)) as [Hjl|Hjl].
      * destruct (H5 j) as (s & X & Hs & Ha); [lia|]. exists s, X. split; [assumption|].
        destruct (Nat.lt_ge_cases s (length trs)) as [Hs'|Hs'].
        -- now rewrite app_nth1.
        -- rewrite nth_overflow in Ha by assumption. discriminate.
      * destruct (P6 j) as [X HX]; [lia|]. exists (length trs), X. split; [lia|].
        now rewrite app_nth2, Nat.sub_diag by lia.
  - inversion H; subst S TR. split; [unfold linv; tauto|]. apply nth_error_None in EI. lia.
Qed.

(** the initial state *)
Lemma init_state I0 : closure [(0, 0, EOFT)] = Some I0 -> linv [I0] [].
Proof.
  intros H.
  destruct (closure_spec g la_order an ntm TOK FOK true [] _ _ H) as ((C1 & (rest & E & C2) & C3) & C4).
  { constructor; [exact EOK|constructor]. }
  { reflexivity. }
  split; [|split; [simpl; lia|split; [simpl; lia|split]]].
  - intros [|j] St Hn; simpl in Hn; [|destruct j; discriminate]. inversion Hn; subst St. simpl.
    split; [assumption|]. split; [assumption|]. split; [assumption|]. split.
    + rewrite E. now left.
    + rewrite E. constructor; [reflexivity|assumption].
  - intros [|s] row Hn; discriminate.
  - intros j Hj. simpl in Hj. lia.
Qed.

Lemma gen_states_spec fuel S TR : gen_states_an g symbols la_order an fuel = Some (S, TR) ->
  linv S TR /\ length TR = length S.
Proof.
  unfold gen_states_an. destruct (closure [(0, 0, EOFT)]) as [I0|] eqn:E; [|discriminate].
  intros H. apply (states_loop_spec _ _ _ _ _ H). now apply init_state.
Qed.

End StatesP.

(** * 4. The generated automaton passes [auto_valid] *)

(** only the nullable flags and FIRST sets of the annotation matter to the generator *)
Section Ext.
Variable g : grammar.
Variable symbols : list sym.
Variable la_order : list nat.
Variables an an' : annot.
Hypothesis EN : a_nullable an = a_nullable an'.
Hypothesis EF : a_first an = a_first an'.

Lemma first_seq_ext : forall beta la, first_seq an beta la = first_seq an' beta la.
Proof.
  induction beta as [|X beta IH]; intros la; simpl; [reflexivity|]. rewrite IH.
  destruct X as [a|n]; simpl; [reflexivity|]. unfold first_nt, nullable_nt. now rewrite EN, EF.
Qed.

Lemma new_items_ext it : new_items g la_order an it = new_items g la_order an' it.
Proof.
  destruct it as [[p k] la]. unfold new_items, las.
  destruct (nth_error g p) as [pr|]; [|reflexivity].
  destruct (nth_error (rhs pr) k) as [[a|B]|]; try reflexivity. now rewrite first_seq_ext.
Qed.

Lemma closure_loop_ext : forall fuel I idx, closure_loop g la_order an fuel I idx = closure_loop g la_order an' fuel I idx.
Proof.
  induction fuel as [|f IH]; intros I idx; simpl; [reflexivity|].
  destruct (nth_error I idx) as [it|]; [|reflexivity]. now rewrite new_items_ext, IH.
Qed.

Lemma goto_ext X I : goto g la_order an X I = goto g la_order an' X I.
Proof. unfold goto, closure. apply closure_loop_ext. Qed.

Lemma process_syms_ext I : forall syms sts row,
  process_syms g la_order an I syms sts row = process_syms g la_order an' I syms sts row.
Proof.
  induction syms as [|X syms IH]; intros sts row; simpl; [reflexivity|].
  rewrite goto_ext. destruct (goto g la_order an' X I) as [[|i J]|]; auto.
  destruct (find_index (i :: J) sts); auto.
Qed.

Lemma gen_states_an_ext fuel : gen_states_an g symbols la_order an fuel = gen_states_an g symbols la_order an' fuel.
Proof.
  unfold gen_states_an, closure. rewrite closure_loop_ext.
  destruct (closure_loop g la_order an' (closure_fuel g la_order [(0, 0, EOFT)]) [(0, 0, EOFT)] 0) as [I0|]; [|reflexivity].
  generalize [I0] as sts. generalize (@nil (list (sym * nat))) as trs.
  induction fuel as [|f IH]; intros trs sts; simpl; [reflexivity|].
  destruct (nth_error sts (length trs)) as [I1|]; [|reflexivity].
  rewrite process_syms_ext. destruct (process_syms g la_order an' I1 symbols sts []) as [[sts' row]|]; auto.
Qed.
End Ext.

(** the terminals of FIRST sets occur in bodies *)
Lemma first_s_body g :
  (forall X b, first_s g X b -> X = T b \/ exists pr, In pr g /\ In (T b) (rhs pr)) /\
  (forall beta b, first_ss g beta b -> In (T b) beta \/ exists pr, In pr g /\ In (T b) (rhs pr)).
Proof.
  apply first_s_ss_min.
  - intros a. now left.
  - intros p pr b Hp _ [IH|IH]; right; [|assumption]. exists pr. split; [eapply nth_error_In; eauto|assumption].
  - intros X beta b _ [->|IH]; [left; now left|now right].
  - intros X beta b _ _ [IH|IH]; [left; now right|now right].
Qed.

(** ** what [gen_wf] says *)
Section Wf.
Variable g : grammar.
Variables nn ntm : nat.
Variable symbols : list sym.
Variable la_order : list nat.
Variable terr : nat.
Hypothesis WF : gen_wf g nn ntm symbols la_order terr = true.

Lemma wf_parts :
  1 < ntm /\ terr < ntm /\
  (exists pr0, nth_error g 0 = Some pr0 /\ length (rhs pr0) = 1 /\
               forall pr, In pr g -> ~ In (NT (lhs pr0)) (rhs pr)) /\
  (forall pr, In pr g -> lhs pr < nn) /\
  (forall pr a, In pr g -> In (T a) (rhs pr) -> 1 < a /\ a < ntm) /\
  (forall pr n, In pr g -> In (NT n) (rhs pr) -> n < nn) /\
  (forall a, a < ntm -> In a la_order) /\
  (forall pr X, In pr g -> In X (rhs pr) -> In X symbols).
Proof.
  pose proof WF as H. unfold gen_wf in H. rewrite !andb_true_iff in H.
  destruct H as [[[[[H1 H2] H3] H4] H5] H6].
  apply Nat.ltb_lt in H1, H2. rewrite forallb_forall in H4, H6. rewrite forallb_seq in H5.
  split; [assumption|]. split; [assumption|]. split; [|split; [|split; [|split; [|split]]]].
  - destruct g as [|pr0 g']; [discriminate|]. apply andb_true_iff in H3. destruct H3 as [H3 H3'].
    apply Nat.eqb_eq in H3. exists pr0. split; [reflexivity|]. split; [assumption|].
    intros pr Hpr Hin. rewrite forallb_forall in H3'. specialize (H3' _ Hpr). rewrite forallb_forall in H3'.
    specialize (H3' _ Hin). simpl in H3'. rewrite Nat.eqb_refl in H3'. discriminate.
  - intros pr Hpr. specialize (H4 _ Hpr). apply andb_true_iff in H4. now apply Nat.ltb_lt.
  - intros pr a Hpr Ha. specialize (H4 _ Hpr). apply andb_true_iff in H4. destruct H4 as [_ H4].
    rewrite forallb_forall in H4. specialize (H4 _ Ha). simpl in H4. apply andb_true_iff in H4.
    destruct H4 as [Ha1 Ha2]. apply Nat.ltb_lt in Ha1, Ha2. auto.
  - intros pr n Hpr Hn. specialize (H4 _ Hpr). apply andb_true_iff in H4. destruct H4 as [_ H4].
    rewrite forallb_forall in H4. specialize (H4 _ Hn). simpl in H4. now apply Nat.ltb_lt.
  - intros a Ha. apply mem_nat_In. now apply H5.
  - intros pr X Hpr HX. specialize (H6 _ Hpr). rewrite forallb_forall in H6. apply mem_sym_In. now apply H6.
Qed.
End Wf.

Section AutoP.
Variable g : grammar.
Variables nn ntm : nat.
Variable symbols : list sym.
Variable la_order : list nat.
Variable terr : nat.
Variable N : list bool.
Variable F : list (list nat).
Variable STS : list (list item).
Variable TR : transitions.
Variable fuel : nat.
Hypothesis WF : gen_wf g nn ntm symbols la_order terr = true.
Hypothesis GF : gen_first g nn = Some (N, F).
Hypothesis GS : gen_states_an g symbols la_order {| a_items := []; a_nullable := N; a_first := F |} fuel = Some (STS, TR).

Definition gan : annot := {| a_items := STS; a_nullable := N; a_first := F |}.
Notation an := gan.
Notation items := (items_of an).

Lemma g_ne : g <> [].
Proof. destruct (wf_parts _ _ _ _ _ _ WF) as (_ & _ & (pr0 & H & _) & _). intros E. rewrite E in H. discriminate. Qed.

Lemma LHSlt : forall pr, In pr g -> lhs pr < nn.
Proof. apply (wf_parts _ _ _ _ _ _ WF). Qed.

Lemma a_f_first : f_first g an = true.
Proof. apply (gen_f_first g nn N F GF LHSlt); reflexivity. Qed.
Lemma a_x_null : x_null g an = true.
Proof. apply (gen_x_null g nn N F GF g_ne LHSlt); reflexivity. Qed.
Lemma a_c_first : c_first g an = true.
Proof. apply (gen_c_first g nn N F GF g_ne LHSlt); reflexivity. Qed.

Lemma LAO : forall a, a < ntm -> In a la_order.
Proof. apply (wf_parts _ _ _ _ _ _ WF). Qed.
Lemma TOK : forall pr a, In pr g -> In (T a) (rhs pr) -> a < ntm.
Proof. intros pr a H1 H2. destruct (wf_parts _ _ _ _ _ _ WF) as (_ & _ & _ & _ & H & _). now apply (H pr a). Qed.
Lemma EOK : EOFT < ntm.
Proof. apply (wf_parts _ _ _ _ _ _ WF). Qed.

Lemma FIRST_body n a : In a (first_nt an n) -> exists pr, In pr g /\ In (T a) (rhs pr).
Proof.
  intros H. apply (c_first_P g an (x_null_P g an a_x_null) a_c_first) in H.
  apply (proj1 (first_s_body g)) in H. destruct H as [H|H]; [discriminate|assumption].
Qed.

Lemma FOK : forall n a, In a (first_nt an n) -> a < ntm.
Proof. intros n a H. destruct (FIRST_body _ _ H) as (pr & H1 & H2). eapply TOK; eauto. Qed.

Lemma GS' : gen_states_an g symbols la_order an fuel = Some (STS, TR).
Proof. rewrite <- GS. apply gen_states_an_ext; reflexivity. Qed.

Lemma LINV : linv g symbols la_order an ntm STS TR /\ length TR = length STS.
Proof. apply (gen_states_spec g symbols la_order an ntm TOK FOK EOK fuel). exact GS'. Qed.

Lemma nst_S : nst an = length STS.
Proof. reflexivity. Qed.

Lemma st_ok s : s < length STS -> state_ok g la_order an ntm (Nat.eqb s 0) (items s).
Proof.
  intros Hs. destruct LINV as ((H & _) & _). apply H. unfold items_of. simpl.
  apply nth_error_nth'. assumption.
Qed.

Lemma rw_ok s : s < length STS -> row_ok g symbols la_order an STS (items s) (nth s TR []).
Proof.
  intros Hs. destruct LINV as ((_ & _ & _ & H & _) & HL). apply H.
  apply nth_error_nth'. lia.
Qed.

Lemma items_la s it : In it (items s) -> s < length STS /\ la_of it < ntm.
Proof.
  intros Hin. assert (Hs : s < length STS) by (apply (items_lt an _ _ Hin)).
  split; [assumption|]. destruct (st_ok s Hs) as (H & _). rewrite Forall_forall in H. now apply H.
Qed.

Lemma a_c_shape : c_shape g ntm an TR = true.
Proof.
  unfold c_shape. rewrite !andb_true_iff. destruct LINV as ((_ & Hpos & _) & HL).
  split; [split; [split; [split|]|]|].
  - now apply Nat.ltb_lt.
  - now apply Nat.eqb_eq.
  - apply Nat.ltb_lt. exact EOK.
  - apply forallb_forall. intros pr Hpr. apply forallb_forall. intros [a|n] HX; [|reflexivity].
    apply Nat.ltb_lt. eapply TOK; eauto.
  - unfold forall_items, forall_st. apply forallb_seq. intros s Hs. apply forallb_forall.
    intros [[p k] la] Hin. apply Nat.ltb_lt. apply (items_la _ _ Hin).
Qed.

Lemma a_c_state0 : c_state0 an = true.
Proof.
  destruct LINV as ((_ & Hpos & _) & _). destruct (st_ok 0 Hpos) as (_ & _ & _ & H1 & H2). simpl in *.
  unfold c_state0. apply andb_true_iff. split; [now apply mem_item_In|].
  apply forallb_forall. intros [[p k] la] Hin. rewrite Forall_forall in H2. specialize (H2 _ Hin).
  simpl in H2. now apply Nat.eqb_eq.
Qed.

Lemma a_c_closed : c_closed g an = true.
Proof.
  unfold c_closed, forall_items, forall_st. apply forallb_seq. intros s Hs. apply forallb_forall.
  intros [[p k] la] Hin. destruct (nth_error g p) as [pr|] eqn:Hp; [|reflexivity].
  destruct (nth_error (rhs pr) k) as [[a|B]|] eqn:Hk; try reflexivity.
  apply forallb_forall. intros q Hq. apply forallb_forall. intros b Hb. apply mem_item_In.
  destruct (prods_of_inv _ _ _ Hq) as (prq & Hq' & HB).
  destruct (st_ok s Hs) as (H1 & H2 & _).
  eapply (closed_first g la_order an ntm LAO TOK FOK); eauto.
Qed.

Lemma a_c_just : c_just g an = true.
Proof.
  unfold c_just, forall_st. apply forallb_seq. intros s Hs. apply (st_ok s Hs).
Qed.

Lemma SYM : forall pr X, In pr g -> In X (rhs pr) -> In X symbols.
Proof. apply (wf_parts _ _ _ _ _ _ WF). Qed.

Lemma la_all s : s < length STS -> Forall (fun it => la_of it < ntm) (items s).
Proof. intros Hs. apply (st_ok s Hs). Qed.

Lemma a_goto_fwd s p k la pr X : In (p, k, la) (items s) -> nth_error g p = Some pr -> nth_error (rhs pr) k = Some X ->
  exists s', tr_at TR s X = Some s' /\ s' < length STS /\ In (p, S k, la) (items s').
Proof.
  intros Hin Hp Hk. assert (Hs : s < length STS) by (apply (items_lt an _ _ Hin)).
  destruct (rw_ok s Hs) as [R1 R2].
  assert (He : expects g X (p, k, la) = true) by (apply expects_spec; eauto).
  destruct (assoc X (nth s TR [])) as [t|] eqn:Ea.
  - exists t. split; [exact Ea|]. apply assoc_In in Ea.
    destruct (R1 _ _ Ea) as (Ht & _ & J & HJ & _ & Hse). split; [assumption|].
    apply (set_eqb_spec _ _ Hse).
    apply (goto_items g la_order an ntm TOK FOK _ _ _ _ _ _ HJ (la_all s Hs)). auto.
  - exfalso. apply (R2 X); [| |assumption].
    + apply (SYM pr); [eapply nth_error_In; eauto|eapply nth_error_In; eauto].
    + intros E. assert (Hi : In (p, S k, la) (goto_kernel g X (items s))) by (apply goto_kernel_In; eauto).
      rewrite E in Hi. destruct Hi.
Qed.

Lemma a_c_goto_fwd : c_goto_fwd g an TR = true.
Proof.
  unfold c_goto_fwd, forall_items, forall_st. apply forallb_seq. intros s Hs. apply forallb_forall.
  intros [[p k] la] Hin. destruct (nth_error g p) as [pr|] eqn:Hp; [|reflexivity].
  destruct (nth_error (rhs pr) k) as [X|] eqn:Hk; [|reflexivity].
  destruct (a_goto_fwd _ _ _ _ _ _ Hin Hp Hk) as (s' & -> & H1 & H2).
  apply andb_true_iff. split; [now apply Nat.ltb_lt|now apply mem_item_In].
Qed.

Lemma a_c_goto_bwd : c_goto_bwd g an TR = true.
Proof.
  unfold c_goto_bwd, forall_st. apply forallb_seq. intros s Hs. apply forallb_forall.
  intros [X s'] Hin. destruct (rw_ok s Hs) as [R1 _].
  destruct (R1 _ _ Hin) as (Ht & _ & J & HJ & HJne & Hse).
  destruct (goto_nonempty g la_order an ntm TOK FOK _ _ _ HJ (la_all s Hs) HJne) as [_ (it & Hit & Hex)].
  rewrite !andb_true_iff. split; [split|].
  - now apply Nat.ltb_lt.
  - apply existsb_exists. exists it. split; [assumption|]. destruct it as [[p k] la]. exact Hex.
  - apply forallb_forall. intros [[p [|k]] la] Hi; [reflexivity|].
    apply (set_eqb_spec _ _ Hse) in Hi.
    apply (goto_items g la_order an ntm TOK FOK _ _ _ _ _ _ HJ (la_all s Hs)) in Hi. destruct Hi as [Hi He].
    apply expects_spec in He. destruct He as (pr & Hp & Hk). rewrite Hp, Hk.
    apply andb_true_iff. split; [now apply sym_eqb_eq|now apply mem_item_In].
Qed.

Lemma a_c_reach : c_reach an TR = true.
Proof.
  unfold c_reach. apply forallb_forall. intros s Hs. apply in_seq in Hs.
  destruct LINV as ((_ & _ & _ & _ & H) & _). destruct (H s) as (s' & X & Hlt & Ha); [rewrite nst_S in Hs; lia|].
  apply existsb_exists. exists s'. split; [apply in_seq; lia|].
  apply existsb_exists. exists (X, s). split; [now apply assoc_In|]. simpl.
  rewrite Nat.eqb_refl. unfold tr_at. rewrite Ha. simpl. apply Nat.eqb_refl.
Qed.

(** (b) the generated automaton passes the certificate check of Canonical.v *)
Theorem gen_auto_valid_an : auto_valid g ntm an TR = true.
Proof.
  unfold auto_valid. rewrite a_c_shape, a_c_state0, a_f_first, a_x_null, a_c_first, a_c_closed, a_c_just,
    a_c_goto_fwd, a_c_goto_bwd, a_c_reach. reflexivity.
Qed.

End AutoP.

(** * 5. Tables built from a canonical automaton pass the LR validator
    (for ANY automaton passing [auto_valid], e.g. gocc's own dump) *)
Lemma row_free cs w : row_action cs = Some (w, []) -> forall x, w = Some x <-> In (Some x) cs.
Proof.
  intros E. destruct (row_action_winner _ _ _ E) as (WS & WR & WA & WN).
  assert (NC : forall a b, In (Some a) cs -> In (Some b) cs -> a = b).
  { intros a b Ha Hb. destruct (act_eq_dec a b) as [|Hne]; [assumption|]. exfalso.
    assert (Hc : @nil act <> []) by (apply (row_action_conflicts_nonempty _ _ _ E); exists a, b; auto).
    congruence. }
  assert (FW : forall x, w = Some x -> In (Some x) cs).
  { intros x ->. destruct x as [s|p|]; [now apply WS|now apply WR|now apply WA]. }
  intros x. split; [apply FW|]. intros Hin. destruct w as [y|].
  - f_equal. apply NC; [now apply FW|assumption].
  - exfalso. apply (proj1 WN eq_refl x Hin).
Qed.

Lemma combine_map_fst {A B C} (f : A * B -> C) : forall (l : list B) (js : list A) c b,
  length js = length l -> In (c, b) (combine (map f (combine js l)) l) -> exists j, c = f (j, b) /\ In b l.
Proof.
  induction l as [|y l IH]; intros js c b Hl Hin.
  - destruct js; simpl in Hin; destruct Hin.
  - destruct js as [|j js]; [discriminate|]. simpl in Hin. destruct Hin as [E|Hin].
    + inversion E; subst. exists j. split; [reflexivity|now left].
    + destruct (IH js c b) as (j' & H1 & H2); [simpl in Hl; lia|assumption|].
      exists j'. split; [assumption|now right].
Qed.

(** canonical items are well-formed *)
Section CIfacts.
Variable g : grammar.
Variables nn ntm : nat.
Variable symbols : list sym.
Variable la_order : list nat.
Variable terr : nat.
Hypothesis WF : gen_wf g nn ntm symbols la_order terr = true.

Lemma FIRST_sem_ok pr k la b : In pr g -> 0 < la < ntm ->
  FIRST_sem g (skipn k (rhs pr)) la b -> 0 < b < ntm.
Proof.
  intros Hpr Hla [H|[_ ->]]; [|assumption].
  destruct (wf_parts _ _ _ _ _ _ WF) as (_ & _ & _ & _ & HT & _).
  apply (proj2 (first_s_body g)) in H. destruct H as [H|(pr' & Hpr' & H)].
  - apply skipn_In in H. destruct (HT _ _ Hpr H). lia.
  - destruct (HT _ _ Hpr' H). lia.
Qed.

Lemma CI_facts gamma p k la : CI g gamma (p, k, la) ->
  exists pr, nth_error g p = Some pr /\ k <= length (rhs pr) /\ 0 < la < ntm /\
             (p = 0 -> la = EOFT /\ (k = 0 -> gamma = [])).
Proof.
  destruct (wf_parts _ _ _ _ _ _ WF) as (Hntm & _ & (pr0 & Hp0 & Hl0 & HS0) & _).
  intros H. remember (p, k, la) as it eqn:E. revert p k la E.
  induction H as [|gamma p' k' la' pr' B q prq b _ IH Hp Hk Hq HB Hf|gamma p' k' la' pr' X _ IH Hp Hk];
    intros p k la E; inversion E; subst; clear E.
  - exists pr0. split; [assumption|]. split; [lia|]. split; [unfold EOFT; lia|]. auto.
  - destruct (IH _ _ _ eq_refl) as (pr1 & Hp1 & Hk1 & Hla & _). rewrite Hp in Hp1. inversion Hp1; subst pr1.
    exists prq. split; [assumption|]. split; [lia|]. split.
    + eapply FIRST_sem_ok; eauto. eapply nth_error_In; eauto.
    + intros ->. exfalso. rewrite Hp0 in Hq. inversion Hq; subst prq.
      apply (HS0 pr'); [eapply nth_error_In; eauto|eapply nth_error_In; eauto].
  - destruct (IH _ _ _ eq_refl) as (pr1 & Hp1 & Hk1 & Hla & H0). rewrite Hp in Hp1. inversion Hp1; subst pr1.
    exists pr'. split; [assumption|]. split.
    + assert (k' < length (rhs pr')) by (apply nth_error_Some; congruence). lia.
    + split; [assumption|]. intros E0. destruct (H0 E0) as [-> _]. split; [reflexivity|discriminate].
Qed.

Lemma CI_dot0_inv gamma q b : CI g gamma (q, 0, b) -> q <> 0 ->
  exists p k la pr prq, CI g gamma (p, k, la) /\ nth_error g p = Some pr /\ nth_error g q = Some prq /\
                        nth_error (rhs pr) k = Some (NT (lhs prq)).
Proof.
  intros H Hq. inversion H; subst; [congruence|]. eauto 10.
Qed.
End CIfacts.

Section TablesP.
Variable g : grammar.
Variables nn ntm : nat.
Variable symbols : list sym.
Variable la_order : list nat.
Variable p_acts : list bool.
Variable terr : nat.
Variable an : annot.
Variable tr : transitions.
Variable rows : list srow.
Hypothesis WF : gen_wf g nn ntm symbols la_order terr = true.
Hypothesis AV : auto_valid g ntm an tr = true.
Hypothesis ROWS : all_some (map (gen_row g nn ntm terr an tr) (seq 0 (nst an))) = Some rows.

Definition gtb : tables := {| t_states := rows; t_prods := gen_prods g p_acts; t_err := terr; t_gate := false |}.
Notation tb := gtb.
Notation items := (items_of an).
Notation nst := (nst an).
Notation cell := (cell g an tr).

Lemma item_facts s p k la : In (p, k, la) (items s) ->
  s < nst /\ exists pr, nth_error g p = Some pr /\ k <= length (rhs pr) /\ 0 < la < ntm /\
                        (p = 0 -> la = EOFT /\ (k = 0 -> s = 0)).
Proof.
  intros Hin. pose proof (items_lt an _ _ Hin) as Hs. split; [assumption|].
  destruct (auto_canonical _ _ _ _ AV) as (A1 & A2 & _). destruct (A2 s Hs) as [gamma Hg].
  destruct (A1 _ _ Hg) as (_ & A3). apply A3 in Hin.
  destruct (CI_facts _ _ _ _ _ _ WF _ _ _ _ Hin) as (pr & H1 & H2 & H3 & H4).
  exists pr. split; [assumption|]. split; [assumption|]. split; [assumption|].
  intros E. destruct (H4 E) as [H5 H6]. split; [assumption|]. intros Ek. rewrite (H6 Ek) in Hg.
  unfold path in Hg. simpl in Hg. now inversion Hg.
Qed.

Lemma items_kwf s : forall p k la pr, In (p, k, la) (items s) -> nth_error g p = Some pr -> k <= length (rhs pr).
Proof.
  intros p k la pr Hin Hp. destruct (item_facts _ _ _ _ Hin) as (_ & pr' & Hp' & Hk & _).
  rewrite Hp in Hp'. inversion Hp'; subst. assumption.
Qed.

(** ** the rows *)
Lemma acts_spec s acts : action_row g ntm an tr s = Some acts ->
  length acts = ntm /\ forall a, a < ntm -> exists w, cell s a = Some (w, []) /\ nth_error acts a = Some w.
Proof.
  unfold action_row. intros H. destruct (all_some_map_seq _ _ _ H) as [H1 H2]. split; [assumption|].
  intros a Ha. destruct (H2 a Ha) as (w & Hw & Hn). exists w. split; [|assumption].
  unfold action_cell in Hw. destruct (cell s a) as [[w' [|c cf]]|]; try discriminate. now inversion Hw.
Qed.

Lemma rows_spec : length rows = nst /\ forall s, s < nst ->
  exists acts, action_row g ntm an tr s = Some acts /\
    nth_error rows s = Some {| s_actions := acts; s_recover := can_recover g terr (items s); s_gotos := goto_row nn tr s |}.
Proof.
  destruct (all_some_map_seq _ _ _ ROWS) as [H1 H2]. split; [assumption|]. intros s Hs.
  destruct (H2 s Hs) as (r & Hr & Hn). unfold gen_row in Hr.
  destruct (action_row g ntm an tr s) as [acts|]; [|discriminate]. exists acts. split; [reflexivity|].
  inversion Hr; subst r. exact Hn.
Qed.

Lemma nstates_eq : nstates tb = nst.
Proof. apply rows_spec. Qed.

Lemma nterms_eq : Validate.nterms tb = ntm.
Proof.
  destruct rows_spec as [H1 H2]. destruct (H2 0 (nst_pos _ _ _ _ AV)) as (acts & Ha & Hn).
  unfold Validate.nterms. simpl. destruct rows as [|r rs]; [discriminate|]. simpl in Hn. inversion Hn; subst r.
  simpl. apply (acts_spec _ _ Ha).
Qed.

Lemma goto_row_length s : length (goto_row nn tr s) = nn.
Proof. unfold goto_row. now rewrite map_length, seq_length. Qed.

Lemma nnts_eq : nnts tb = nn.
Proof.
  destruct rows_spec as [H1 H2]. destruct (H2 0 (nst_pos _ _ _ _ AV)) as (acts & Ha & Hn).
  unfold nnts. simpl. destruct rows as [|r rs]; [discriminate|]. simpl in Hn. inversion Hn; subst r.
  simpl. apply goto_row_length.
Qed.

Lemma action_at_spec s a x : action_at tb s a = Some x <-> s < nst /\ a < ntm /\ cell s a = Some (x, []).
Proof.
  destruct rows_spec as [H1 H2]. unfold action_at. simpl. split.
  - destruct (nth_error rows s) as [r|] eqn:Er; [|discriminate]. intros Hx.
    assert (Hs : s < nst) by (rewrite <- H1; apply nth_error_Some; congruence).
    destruct (H2 s Hs) as (acts & Ha & Hn). rewrite Er in Hn. inversion Hn; subst r. simpl in Hx.
    destruct (acts_spec _ _ Ha) as [L1 L2].
    assert (Hlt : a < ntm) by (rewrite <- L1; apply nth_error_Some; congruence).
    destruct (L2 a Hlt) as (w & Hc & Hw). rewrite Hx in Hw. inversion Hw; subst w. auto.
  - intros (Hs & Hlt & Hc). destruct (H2 s Hs) as (acts & Ha & Hn). rewrite Hn. simpl.
    destruct (acts_spec _ _ Ha) as [L1 L2]. destruct (L2 a Hlt) as (w & Hc' & Hw).
    rewrite Hc in Hc'. inversion Hc'; subst w. assumption.
Qed.

Lemma cell_total s a : s < nst -> a < ntm -> exists w, cell s a = Some (w, []).
Proof.
  intros Hs Ha. destruct rows_spec as [_ H2]. destruct (H2 s Hs) as (acts & Hr & _).
  destruct (acts_spec _ _ Hr) as [_ L2]. destruct (L2 a Ha) as (w & Hc & _). eauto.
Qed.

Lemma goto_nat_spec s n : s < nst -> n < nn -> goto_nat tb s n = tr_at tr s (NT n).
Proof.
  intros Hs Hn. destruct rows_spec as [_ H2]. destruct (H2 s Hs) as (acts & _ & Hr).
  unfold goto_nat, goto_at. simpl. rewrite Hr. simpl. unfold goto_row.
  rewrite nth_error_map, (nth_error_seq0 _ _ Hn). simpl.
  destruct (tr_at tr s (NT n)) as [t|]; [|reflexivity].
  destruct (Z.of_nat t <? 0)%Z eqn:E; [apply Z.ltb_lt in E; lia|]. now rewrite Nat2Z.id.
Qed.

(** ** cells without conflict *)
Lemma cell_in s a w x : cell s a = Some (w, []) ->
  (w = Some x <-> exists it, In it (items s) /\ cand g it a (target tr s a) = Some x).
Proof. intros H. rewrite <- in_cands. now apply row_free. Qed.

Lemma cand_spec s it a x : In it (items s) -> cand g it a (target tr s a) = Some x ->
  spec_cand g (fun i => In i (items s)) a (kind x) /\ (forall t, x = Shift t -> t = target tr s a).
Proof. intros Hin. apply cand_sound; [apply items_kwf|assumption]. Qed.

Lemma wf_T pr a : In pr g -> In (T a) (rhs pr) -> 1 < a /\ a < ntm.
Proof. destruct (wf_parts _ _ _ _ _ _ WF) as (_ & _ & _ & _ & H & _). apply H. Qed.

Lemma shift_tr s a t : action_at tb s a = Some (Some (Shift t)) ->
  s < nst /\ 1 < a /\ tr_at tr s (T a) = Some t.
Proof.
  intros H. apply action_at_spec in H. destruct H as (Hs & Ha & Hc). split; [assumption|].
  destruct (proj1 (cell_in _ _ _ _ Hc) eq_refl) as (it & Hin & Hcd).
  destruct (cand_spec _ _ _ _ Hin Hcd) as [[_ Hsp] Ht]. simpl in Hsp.
  destruct Hsp as (p & k & la & pr & Hi & Hp & Hk).
  split; [apply (wf_T pr); eapply nth_error_In; eauto|].
  destruct (goto_fwd_P _ _ _ _ AV _ _ _ _ _ _ Hi Hp Hk) as (s' & Htr & _).
  rewrite (Ht t eq_refl). unfold target. now rewrite Htr.
Qed.

Lemma tr_shift s a t p k la pr : In (p, k, la) (items s) -> nth_error g p = Some pr ->
  nth_error (rhs pr) k = Some (T a) -> tr_at tr s (T a) = Some t ->
  action_at tb s a = Some (Some (Shift t)).
Proof.
  intros Hin Hp Hk Htr. pose proof (items_lt an _ _ Hin) as Hs.
  destruct (wf_T pr a) as [Ha1 Ha2]; [eapply nth_error_In; eauto|eapply nth_error_In; eauto|].
  destruct (cell_total s a Hs Ha2) as [w Hc]. apply action_at_spec. split; [assumption|]. split; [assumption|].
  rewrite Hc. f_equal. f_equal. apply (cell_in _ _ _ _ Hc).
  destruct (cand_complete g (fun i => In i (items s)) a (target tr s a) SShift) as (it & y & Hi & Hy & Hkd).
  { split; [unfold INVALIDT; lia|]. simpl. exists p, k, la, pr. auto. }
  exists it. split; [assumption|]. destruct y as [u| |]; try discriminate.
  destruct (cand_spec _ _ _ _ Hi Hy) as [_ Hu]. rewrite (Hu u eq_refl) in Hy. rewrite Hy.
  unfold target. now rewrite Htr.
Qed.

Lemma reduce_item s a p : action_at tb s a = Some (Some (Reduce p)) ->
  p <> 0 /\ exists pr, nth_error g p = Some pr /\ In (p, length (rhs pr), a) (items s).
Proof.
  intros H. apply action_at_spec in H. destruct H as (Hs & Ha & Hc).
  destruct (proj1 (cell_in _ _ _ _ Hc) eq_refl) as (it & Hin & Hcd).
  destruct (cand_spec _ _ _ _ Hin Hcd) as [[_ Hsp] _]. simpl in Hsp.
  destruct Hsp as (Hne & pr & Hp & Hi). split; [|eauto].
  intros ->. destruct (item_facts _ _ _ _ Hi) as (_ & _ & _ & _ & _ & H0). destruct (H0 eq_refl) as [-> _]. auto.
Qed.

Lemma accept_item s a : action_at tb s a = Some (Some Accept) ->
  a = EOFT /\ exists pr0, nth_error g 0 = Some pr0 /\ length (rhs pr0) = 1 /\ In (0, 1, EOFT) (items s).
Proof.
  intros H. apply action_at_spec in H. destruct H as (Hs & Ha & Hc).
  destruct (proj1 (cell_in _ _ _ _ Hc) eq_refl) as (it & Hin & Hcd).
  destruct (cand_spec _ _ _ _ Hin Hcd) as [[_ Hsp] _]. simpl in Hsp.
  destruct Hsp as (-> & pr0 & Hp & Hi). split; [reflexivity|]. exists pr0.
  destruct (wf_parts _ _ _ _ _ _ WF) as (_ & _ & (pr0' & Hp0 & Hl0 & _) & _).
  assert (E0 : Some pr0 = Some pr0') by (transitivity (nth_error g 0); [symmetry; exact Hp|exact Hp0]).
  inversion E0; subst pr0'. rewrite Hl0 in Hi. auto.
Qed.

Lemma complete_action s p la pr : In (p, length (rhs pr), la) (items s) -> nth_error g p = Some pr ->
  action_at tb s la = Some (Some (if Nat.eqb p 0 then Accept else Reduce p)) /\ (p = 0 -> la = EOFT).
Proof.
  intros Hin Hp. destruct (item_facts _ _ _ _ Hin) as (Hs & _ & _ & _ & Hla & H0).
  destruct (cell_total s la Hs (proj2 Hla)) as [w Hc]. split.
  - apply action_at_spec. split; [assumption|]. split; [apply Hla|]. rewrite Hc. f_equal. f_equal.
    apply (cell_in _ _ _ _ Hc). exists (p, length (rhs pr), la). split; [assumption|].
    unfold cand. replace (Nat.eqb la INVALIDT) with false by (symmetry; apply Nat.eqb_neq; unfold INVALIDT; lia).
    rewrite Hp, Nat.leb_refl, Nat.eqb_refl. destruct (Nat.eqb p 0) eqn:E0; simpl.
    + apply Nat.eqb_eq in E0. destruct (H0 E0) as [-> _]. reflexivity.
    + reflexivity.
  - intros E0. apply (H0 E0).
Qed.

(** ** transitions of the tables = transitions of the automaton *)
Lemma wf_NT pr n : In pr g -> In (NT n) (rhs pr) -> n < nn.
Proof. destruct (wf_parts _ _ _ _ _ _ WF) as (_ & _ & _ & _ & _ & H & _). apply H. Qed.

Lemma trans_tr s X s' : s < nst -> trans tb s X = Some s' -> tr_at tr s X = Some s'.
Proof.
  intros Hs. destruct X as [a|n]; simpl.
  - destruct (action_at tb s a) as [[[t|q|]|]|] eqn:E; try discriminate. intros H; inversion H; subst t.
    apply (shift_tr _ _ _ E).
  - intros H. assert (Hn : n < nn).
    { rewrite <- nnts_eq. unfold goto_nat, goto_at in H.
      destruct (nth_error (t_states tb) s) as [r|] eqn:Er; [|discriminate].
      destruct (nth_error (s_gotos r) n) eqn:En; [|discriminate].
      destruct rows_spec as [_ H2]. destruct (H2 s Hs) as (acts & _ & Hr). simpl in Er. rewrite Hr in Er.
      inversion Er; subst r. simpl in En. rewrite nnts_eq, <- (goto_row_length s). apply nth_error_Some. congruence. }
    now rewrite goto_nat_spec in H.
Qed.

Lemma tr_trans s p k la pr X s' : In (p, k, la) (items s) -> nth_error g p = Some pr ->
  nth_error (rhs pr) k = Some X -> tr_at tr s X = Some s' -> trans tb s X = Some s'.
Proof.
  intros Hin Hp Hk Htr. destruct X as [a|n]; simpl.
  - now rewrite (tr_shift _ _ _ _ _ _ _ Hin Hp Hk Htr).
  - rewrite goto_nat_spec; [assumption|apply (items_lt an _ _ Hin)|].
    apply (wf_NT pr); eapply nth_error_In; eauto.
Qed.

Lemma kernel_ok_tr s X s' : s < nst -> tr_at tr s X = Some s' -> kernel_ok g an s X s' = true.
Proof.
  intros Hs Htr. destruct (goto_bwd_P _ _ _ _ AV _ _ _ Hs Htr) as (Hs' & (p & k & la & pr & Hi & Hp & Hk) & Hb).
  unfold kernel_ok. rewrite !andb_true_iff. split; [split|].
  - apply negb_true_iff. apply Nat.eqb_neq. apply (target_not_0 _ _ _ _ AV s X s' Hs Htr).
  - destruct (goto_fwd_P _ _ _ _ AV _ _ _ _ _ _ Hi Hp Hk) as (s2 & Htr2 & _ & Hi2).
    rewrite Htr in Htr2. inversion Htr2; subst s2. apply existsb_exists. exists (p, S k, la). auto.
  - apply forallb_forall. intros [[q [|j]] b] Hq; [reflexivity|].
    destruct (Hb _ _ _ Hq) as (prq & Hpq & Hkq & Hiq). rewrite Hpq, Hkq.
    apply andb_true_iff. split; [now apply sym_eqb_eq|now apply mem_item_In].
Qed.

(** ** the conditions of the validator *)
Lemma t_shape_ok : shape_ok g tb an = true.
Proof.
  destruct (wf_parts _ _ _ _ _ _ WF) as (Hntm & Herr & _ & Hlhs & HT & HN & _).
  destruct rows_spec as [R1 R2].
  unfold shape_ok. rewrite nstates_eq, nterms_eq, nnts_eq. rewrite !andb_true_iff.
  split; [split; [split; [split; [split; [split|]|]|]|]|].
  - apply Nat.ltb_lt. apply (nst_pos _ _ _ _ AV).
  - apply Nat.eqb_refl.
  - apply forallb_forall. intros r Hr. apply In_nth_error in Hr. destruct Hr as [s Hr].
    assert (Hs : s < nst) by (rewrite <- R1; apply nth_error_Some; simpl in Hr; congruence).
    destruct (R2 s Hs) as (acts & Ha & Hn). simpl in Hr. rewrite Hr in Hn. inversion Hn; subst r. simpl.
    destruct (acts_spec _ _ Ha) as [L1 L2]. rewrite L1, goto_row_length, !Nat.eqb_refl. simpl.
    apply andb_true_iff. split.
    + apply forallb_forall. intros w Hw. apply In_nth_error in Hw. destruct Hw as [a Hw].
      assert (Hact : action_at tb s a = Some w).
      { unfold action_at. simpl. rewrite Hr. exact Hw. }
      destruct w as [[t|q|]|]; auto.
      * destruct (shift_tr _ _ _ Hact) as (_ & _ & Htr).
        apply Nat.ltb_lt. apply (goto_bwd_P _ _ _ _ AV _ _ _ Hs Htr).
      * destruct (reduce_item _ _ _ Hact) as (_ & pr & Hp & _). apply Nat.ltb_lt.
        apply nth_error_Some. congruence.
    + apply forallb_forall. intros z Hz. unfold goto_row in Hz. apply in_map_iff in Hz.
      destruct Hz as (n & <- & _). apply Z.ltb_lt.
      destruct (tr_at tr s (NT n)) as [t|] eqn:Et; [|lia].
      pose proof (proj1 (goto_bwd_P _ _ _ _ AV _ _ _ Hs Et)). lia.
  - apply Nat.eqb_eq. simpl. unfold gen_prods. rewrite map_length, combine_length, seq_length. lia.
  - apply forallb_forall. intros [pw pr] Hin. simpl in Hin. unfold gen_prods in Hin.
    apply combine_map_fst in Hin; [|apply seq_length]. destruct Hin as (j & -> & Hpr). simpl.
    rewrite !Nat.eqb_refl. simpl. apply andb_true_iff. split; [apply Nat.ltb_lt; auto|].
    apply forallb_forall. intros [a|n] HX; apply Nat.ltb_lt.
    + apply (HT pr a Hpr HX).
    + apply (HN pr n Hpr HX).
  - now apply Nat.ltb_lt.
  - now apply Nat.ltb_lt.
Qed.

Lemma t_items_wf : items_wf g tb an = true.
Proof.
  unfold items_wf, forall_states. apply forallb_seq. intros s Hs. apply forallb_forall.
  intros [[p k] la] Hin. destruct (item_facts _ _ _ _ Hin) as (_ & pr & Hp & Hk & Hla & _).
  rewrite Hp, nterms_eq. apply andb_true_iff. split; [now apply Nat.leb_le|apply Nat.ltb_lt; lia].
Qed.

Lemma t_b_init : b_init an = true.
Proof.
  unfold b_init. apply forallb_forall. intros [[p k] la] Hin. apply Nat.eqb_eq.
  eapply (state0_dot0 _ _ _ _ AV); eauto.
Qed.

Lemma t_b_trans : b_trans g tb an = true.
Proof.
  unfold b_trans, forall_states. apply forallb_seq. intros s Hs. rewrite nstates_eq in Hs.
  apply andb_true_iff. split.
  - unfold forall_terms. apply forallb_seq. intros a _.
    destruct (trans tb s (T a)) as [s'|] eqn:E; [|reflexivity]. apply kernel_ok_tr; [assumption|].
    now apply trans_tr.
  - unfold forall_nts. apply forallb_seq. intros n _.
    destruct (trans tb s (NT n)) as [s'|] eqn:E; [|reflexivity]. apply kernel_ok_tr; [assumption|].
    now apply trans_tr.
Qed.

Lemma t_b_actions : b_actions g tb an = true.
Proof.
  unfold b_actions, forall_states. apply forallb_seq. intros s Hs.
  unfold forall_terms. apply forallb_seq. intros a Ha.
  destruct (action_at tb s a) as [[[t|p|]|]|] eqn:E; try reflexivity.
  - destruct (shift_tr _ _ _ E) as (_ & H1 & _). apply negb_true_iff. apply Nat.eqb_neq. unfold EOFT. lia.
  - destruct (reduce_item _ _ _ E) as (Hne & pr & Hp & Hi). rewrite Hp.
    apply andb_true_iff. split; [now apply mem_item_In|]. apply negb_true_iff. now apply Nat.eqb_neq.
  - destruct (accept_item _ _ E) as (-> & pr0 & Hp & Hl & Hi). rewrite Hp, Hl. simpl.
    now apply mem_item_In.
Qed.

Lemma t_b_demand : b_demand g tb an = true.
Proof.
  unfold b_demand, forall_states. apply forallb_seq. intros s Hs. rewrite nstates_eq in Hs.
  apply forallb_forall. intros [[p [|k]] la] Hin; [|reflexivity].
  destruct (item_facts _ _ _ _ Hin) as (_ & pr & Hp & _ & _ & H0).
  destruct (Nat.eqb p 0) eqn:E0.
  - apply Nat.eqb_eq in E0. apply Nat.eqb_eq. now apply H0.
  - apply Nat.eqb_neq in E0. rewrite Hp.
    destruct (auto_canonical _ _ _ _ AV) as (A1 & A2 & _). destruct (A2 s Hs) as [gamma Hg].
    destruct (A1 _ _ Hg) as (_ & A3). apply A3 in Hin.
    destruct (CI_dot0_inv _ _ _ _ Hin E0) as (p' & k' & la' & pr' & prq & Hc & Hp' & Hq & Hk').
    rewrite Hp in Hq. inversion Hq; subst prq. apply A3 in Hc.
    destruct (goto_fwd_P _ _ _ _ AV _ _ _ _ _ _ Hc Hp' Hk') as (s' & Htr & _).
    rewrite goto_nat_spec; [now rewrite Htr|assumption|].
    apply (wf_NT pr'); eapply nth_error_In; eauto.
Qed.

Theorem tables_valid_backward : valid_backward g tb an = true.
Proof.
  unfold valid_backward. now rewrite t_shape_ok, t_items_wf, t_b_init, t_b_trans, t_b_actions, t_b_demand.
Qed.

Lemma t_f_closure : f_closure g tb an = true.
Proof.
  unfold f_closure, forall_states. apply forallb_seq. intros s Hs. apply forallb_forall.
  intros [[p k] la] Hin. destruct (item_facts _ _ _ _ Hin) as (_ & pr & Hp & _). rewrite Hp.
  destruct (nth_error (rhs pr) k) as [[a|B]|] eqn:Hk; try reflexivity.
  apply forallb_forall. intros q Hq. apply forallb_forall. intros b Hb. apply mem_item_In.
  destruct (prods_of_inv _ _ _ Hq) as (prq & Hq' & HB).
  eapply (closed_P _ _ _ _ AV); eauto.
Qed.

Lemma t_f_goto : f_goto g tb an = true.
Proof.
  unfold f_goto, forall_states. apply forallb_seq. intros s Hs. apply forallb_forall.
  intros [[p k] la] Hin. destruct (item_facts _ _ _ _ Hin) as (_ & pr & Hp & Hkl & _). rewrite Hp.
  destruct (nth_error (rhs pr) k) as [X|] eqn:Hk.
  - destruct (goto_fwd_P _ _ _ _ AV _ _ _ _ _ _ Hin Hp Hk) as (s' & Htr & _ & Hi).
    rewrite (tr_trans _ _ _ _ _ _ _ Hin Hp Hk Htr). now apply mem_item_In.
  - apply nth_error_None in Hk. assert (k = length (rhs pr)) by lia. subst k.
    destruct (complete_action _ _ _ _ Hin Hp) as [Ha H0]. rewrite Ha.
    destruct (Nat.eqb p 0) eqn:E0.
    + apply Nat.eqb_eq in E0. rewrite (H0 E0). reflexivity.
    + rewrite Nat.eqb_refl. reflexivity.
Qed.

Theorem tables_valid_forward : valid_forward g tb an = true.
Proof.
  unfold valid_forward. rewrite t_shape_ok, t_items_wf, t_f_closure, t_f_goto.
  destruct (AV_parts _ _ _ _ AV) as (_ & H0 & H1 & _). rewrite H1. simpl.
  unfold f_start. rewrite !andb_true_r. apply mem_item_In. apply (state0_start _ _ _ _ AV).
Qed.

(** no shift on the error terminal when it occurs in no body (in particular when there is none: terr = 0) *)
Theorem tables_no_error_shift : (forall pr, In pr g -> ~ In (T terr) (rhs pr)) -> no_error_shift tb = true.
Proof.
  intros NE. unfold no_error_shift, forall_states. apply forallb_seq. intros s Hs. simpl.
  destruct (action_at tb s terr) as [[[t|p|]|]|] eqn:E; try reflexivity. exfalso.
  apply action_at_spec in E. destruct E as (_ & _ & Hc).
  destruct (proj1 (cell_in _ _ _ _ Hc) eq_refl) as (it & Hin & Hcd).
  destruct (cand_spec _ _ _ _ Hin Hcd) as [[_ Hsp] _]. simpl in Hsp.
  destruct Hsp as (p & k & la & pr & Hi & Hp & Hk).
  apply (NE pr); eapply nth_error_In; eauto.
Qed.

(** ** (c) the canonicity checks of Exact.v, when every production is productive *)
Lemma cjust_just is0 : forall rest acc, cjust_list g an is0 acc rest = true -> just_list g an acc rest = true.
Proof.
  induction rest as [|[[q [|k]] b] rest IH]; intros acc H; [reflexivity| |]; cbn [cjust_list just_list] in *;
    apply andb_true_iff in H; destruct H as [H1 H2]; rewrite (IH _ H2), andb_true_r; [|reflexivity].
  apply orb_true_iff in H1. apply orb_true_iff. destruct H1 as [H1|H1]; [left|now right].
  rewrite !andb_true_iff in H1. tauto.
Qed.

Lemma t_x_closure : x_closure g tb an = true.
Proof.
  unfold x_closure, forall_states. apply forallb_seq. intros s Hs. rewrite nstates_eq in Hs.
  destruct (AV_parts _ _ _ _ AV) as (_ & _ & _ & _ & _ & _ & H & _).
  apply (cjust_just (Nat.eqb s 0)). apply (forall_st_P _ _ H s Hs).
Qed.

Lemma t_x_noeof : x_noeof g = true.
Proof.
  unfold x_noeof. apply forallb_forall. intros pr Hpr. apply forallb_forall. intros [a|n] HX; [|reflexivity].
  apply negb_true_iff. apply Nat.eqb_neq. destruct (wf_T pr a Hpr HX). unfold EOFT. lia.
Qed.

Lemma t_x_recover : x_recover tb = true.
Proof.
  unfold x_recover. apply forallb_forall. intros r Hr. simpl in Hr. apply In_nth_error in Hr. destruct Hr as [s Hr].
  destruct rows_spec as [R1 R2].
  assert (Hs : s < nst) by (rewrite <- R1; apply nth_error_Some; congruence).
  destruct (R2 s Hs) as (acts & Ha & Hn). rewrite Hr in Hn. inversion Hn; subst r. simpl.
  destruct (can_recover g terr (items s)) eqn:E; [|reflexivity]. simpl.
  unfold can_recover in E. apply existsb_exists in E. destruct E as ([[p k] la] & Hin & E).
  apply andb_true_iff in E. destruct E as [Ek E]. apply Nat.eqb_eq in Ek. subst k.
  destruct (nth_error g p) as [pr|] eqn:Hp; [|discriminate].
  destruct (rhs pr) as [|[t|n] rest] eqn:Er; try discriminate. apply Nat.eqb_eq in E. subst t.
  assert (Hk : nth_error (rhs pr) 0 = Some (T terr)) by now rewrite Er.
  destruct (goto_fwd_P _ _ _ _ AV _ _ _ _ _ _ Hin Hp Hk) as (s' & Htr & _).
  pose proof (tr_shift _ _ _ _ _ _ _ Hin Hp Hk Htr) as Hact.
  unfold action_at in Hact. simpl in Hact. rewrite Hr in Hact. simpl in Hact. now rewrite Hact.
Qed.

Definition all_productive : bool :=
  forallb (fun pr => flag_rhs true (flag_iter g true nn (length g)) (rhs pr)) g.
Hypothesis PROD : all_productive = true.

Lemma prod_flags_eq : prod_flags g tb = flag_iter g true nn (length g).
Proof. unfold prod_flags. now rewrite nnts_eq. Qed.

Lemma forall_item_prods_intro f : (forall pr, In pr g -> f pr = true) -> forall_item_prods g tb an f = true.
Proof.
  intros H. unfold forall_item_prods, forall_states. apply forallb_seq. intros s Hs. apply forallb_forall.
  intros [[p k] la] Hin. destruct (item_facts _ _ _ _ Hin) as (_ & pr & Hp & _). rewrite Hp.
  apply H. eapply nth_error_In; eauto.
Qed.

Lemma t_x_prod : x_prod g tb an = true.
Proof.
  unfold x_prod. apply forall_item_prods_intro. intros pr Hpr. rewrite prod_flags_eq.
  unfold all_productive in PROD. rewrite forallb_forall in PROD. now apply PROD.
Qed.

Lemma flat_map_ext_in {A B} (f h : A -> list B) l : (forall x, In x l -> f x = h x) -> flat_map f l = flat_map h l.
Proof.
  induction l as [|x l IH]; intros H; simpl; [reflexivity|]. rewrite (H x) by now left.
  rewrite IH; [reflexivity|]. intros y Hy. apply H. now right.
Qed.

Lemma first_iter_cfirst m : forall k, first_iter g an (prod_flags g tb) m k = cfirst_iter g an m k.
Proof.
  induction k as [|k IH]; [reflexivity|]. simpl. rewrite IH. unfold first_step, cfirst_step.
  apply map_ext. intros n. f_equal. apply flat_map_ext_in. intros pr Hpr.
  rewrite prod_flags_eq. unfold all_productive in PROD. rewrite forallb_forall in PROD.
  rewrite (PROD _ Hpr). now rewrite andb_true_r.
Qed.

Lemma t_x_first : x_first g tb an = true.
Proof.
  unfold x_first. apply forall_item_prods_intro. intros pr Hpr. apply forallb_forall.
  intros [a|n] HX; [reflexivity|]. apply forallb_forall. intros a Ha. apply mem_nat_In.
  unfold first_sets. rewrite first_iter_cfirst.
  destruct (AV_parts _ _ _ _ AV) as (_ & _ & _ & _ & H & _). unfold c_first in H.
  rewrite forallb_forall in H.
  assert (Hlt : n < length (a_first an)).
  { destruct (Nat.lt_ge_cases n (length (a_first an))) as [|Hge]; [assumption|].
    unfold first_nt in Ha. rewrite nth_overflow in Ha by assumption. destruct Ha. }
  specialize (H n). rewrite forallb_forall in H. apply mem_nat_In. apply H; [apply in_seq; lia|assumption].
Qed.

Theorem tables_x_checks : x_checks g tb an = true.
Proof.
  unfold x_checks. destruct (AV_parts _ _ _ _ AV) as (_ & _ & _ & H & _).
  now rewrite H, t_x_first, t_x_prod, t_x_noeof, t_x_recover, t_x_closure.
Qed.

End TablesP.

(** * 6. The generator: whatever it outputs passes the validators *)
Definition no_err_in_bodies (g : grammar) (terr : nat) : bool :=
  forallb (fun pr => forallb (fun X => negb (sym_eqb X (T terr))) (rhs pr)) g.

Lemma no_err_in_bodies_P g terr : no_err_in_bodies g terr = true -> forall pr, In pr g -> ~ In (T terr) (rhs pr).
Proof.
  unfold no_err_in_bodies. rewrite forallb_forall. intros H pr Hpr Hin. specialize (H _ Hpr).
  rewrite forallb_forall in H. specialize (H _ Hin). simpl in H. rewrite Nat.eqb_refl in H. discriminate.
Qed.

Section Top.
Variable g : grammar.
Variables nn ntm : nat.
Variable symbols : list sym.
Variable la_order : list nat.
Variable p_acts : list bool.
Variable terr : nat.
Variable fuel : nat.
Variable tb : tables.
Variable an : annot.
Variable tr : transitions.
Hypothesis GEN : gen_all g nn ntm symbols la_order p_acts terr fuel = Some (tb, an, tr).

Lemma gen_all_inv : exists N F rows,
  gen_wf g nn ntm symbols la_order terr = true /\ gen_first g nn = Some (N, F) /\
  gen_states_an g symbols la_order {| a_items := []; a_nullable := N; a_first := F |} fuel = Some (a_items an, tr) /\
  an = {| a_items := a_items an; a_nullable := N; a_first := F |} /\
  all_some (map (gen_row g nn ntm terr an tr) (seq 0 (nst an))) = Some rows /\
  tb = gtb g p_acts terr rows.
Proof.
  pose proof GEN as H. unfold gen_all, gen_run in H.
  destruct (gen_wf g nn ntm symbols la_order terr) eqn:EW; simpl in H; [|discriminate].
  destruct (gen_first g nn) as [[N F]|] eqn:EF; [|discriminate].
  destruct (gen_states_an g symbols la_order {| a_items := []; a_nullable := N; a_first := F |} fuel)
    as [[sts trs]|] eqn:ES; [|discriminate].
  destruct (all_some (map (gen_row g nn ntm terr {| a_items := sts; a_nullable := N; a_first := F |} trs)
                          (seq 0 (length sts)))) as [rows|] eqn:ER; [|discriminate].
  inversion H; subst. exists N, F, rows. simpl. auto 10.
Qed.

Theorem gen_wf_true : gen_wf g nn ntm symbols la_order terr = true.
Proof. destruct gen_all_inv as (N & F & rows & H & _). exact H. Qed.

(** (b) the generated automaton passes the certificate check ... *)
Theorem gen_auto_valid : auto_valid g ntm an tr = true.
Proof.
  destruct gen_all_inv as (N & F & rows & H1 & H2 & H3 & H4 & _). rewrite H4.
  exact (gen_auto_valid_an g nn ntm symbols la_order terr N F (a_items an) tr fuel H1 H2 H3).
Qed.

(** ... hence it IS the canonical LR(1) collection: the items of the state reached along [gamma]
    are exactly the canonical items [CI g gamma]; every state is reachable; every non-empty
    canonical set is a state *)
Theorem gen_canonical :
  (forall gamma s, path tr gamma = Some s -> s < nst an /\ forall it, In it (items_of an s) <-> CI g gamma it) /\
  (forall s, s < nst an -> exists gamma, path tr gamma = Some s) /\
  (forall gamma, canonical_state g gamma -> exists s, path tr gamma = Some s).
Proof. exact (auto_canonical g ntm an tr gen_auto_valid). Qed.

(** the generator succeeds only on conflict-free canonical collections *)
Theorem gen_no_conflict : ~ canonical_conflict g.
Proof.
  destruct gen_all_inv as (N & F & rows & H1 & _ & _ & _ & H5 & _).
  intros HC. apply (dump_conflict_canonical g ntm an tr gen_auto_valid) in HC.
  destruct HC as (s & a & Hs & Ha & x & y & Hxy & Hx & Hy).
  destruct (cell_total g nn ntm terr an tr rows H5 s a Hs Ha) as [w Hc].
  assert (Hne : @nil act <> []).
  { apply (row_action_conflicts_nonempty _ _ _ Hc). exists x, y. auto. }
  congruence.
Qed.

(** (a) the generated tables pass the LR validator *)
Theorem gen_valid_backward : valid_backward g tb an = true.
Proof.
  pose proof gen_auto_valid as AV. destruct gen_all_inv as (N & F & rows & H1 & _ & _ & _ & H5 & ->).
  exact (tables_valid_backward g nn ntm symbols la_order p_acts terr an tr rows H1 AV H5).
Qed.

Theorem gen_valid_forward : valid_forward g tb an = true.
Proof.
  pose proof gen_auto_valid as AV. destruct gen_all_inv as (N & F & rows & H1 & _ & _ & _ & H5 & ->).
  exact (tables_valid_forward g nn ntm symbols la_order p_acts terr an tr rows H1 AV H5).
Qed.

Theorem gen_no_error_shift : no_err_in_bodies g terr = true -> no_error_shift tb = true.
Proof.
  intros NE. pose proof gen_auto_valid as AV. destruct gen_all_inv as (N & F & rows & H1 & _ & _ & _ & H5 & ->).
  apply (tables_no_error_shift g nn ntm symbols la_order p_acts terr an tr rows H1 AV H5).
  now apply no_err_in_bodies_P.
Qed.

(** a grammar without error terminal ([terr = 0]) has no error symbol in its bodies *)
Lemma no_err_terr0 : terr = 0 -> no_err_in_bodies g terr = true.
Proof.
  intros E0. unfold no_err_in_bodies. apply forallb_forall. intros pr Hpr. apply forallb_forall.
  intros [a|n] HX; [|reflexivity]. simpl. apply negb_true_iff. apply Nat.eqb_neq.
  destruct (wf_parts _ _ _ _ _ _ gen_wf_true) as (_ & _ & _ & _ & H & _). destruct (H _ _ Hpr HX). lia.
Qed.

Theorem gen_lr_valid : no_err_in_bodies g terr = true -> lr_valid g tb an = true.
Proof.
  intros NE. unfold lr_valid. now rewrite gen_valid_backward, gen_valid_forward, gen_no_error_shift.
Qed.

(** (c) and the canonicity checks, when every production is productive *)
Theorem gen_x_checks : all_productive g nn = true -> x_checks g tb an = true.
Proof.
  intros PR. pose proof gen_auto_valid as AV. destruct gen_all_inv as (N & F & rows & H1 & _ & _ & _ & H5 & ->).
  exact (tables_x_checks g nn ntm symbols la_order p_acts terr an tr rows H1 AV H5 PR).
Qed.

Lemma gen_nterms : Validate.nterms tb = ntm.
Proof.
  pose proof gen_auto_valid as AV. destruct gen_all_inv as (N & F & rows & H1 & _ & _ & _ & H5 & ->).
  exact (nterms_eq g nn ntm p_acts terr an tr rows AV H5).
Qed.

Lemma gen_t_err : t_err tb = terr /\ t_gate tb = false.
Proof. destruct gen_all_inv as (N & F & rows & _ & _ & _ & _ & _ & ->). split; reflexivity. Qed.

(** ** C02 for every generated parser, without any per-grammar evaluation *)

(** accepted => sentence, never a panic (for every fuel, every semantic actions) *)
Corollary gen_parse_sound sem input fuel' :
  no_err_in_bodies g terr = true ->
  Forall (fun t => ttype t <> EOFT) input -> Forall (fun t => ttype t < ntm) input ->
  Sound.good_result g tb sem input (parse tb sem input fuel').
Proof.
  intros NE HI HR. apply (SoundTop.parse_sound_valid g tb an); auto.
  - exact gen_valid_backward.
  - now apply gen_no_error_shift.
  - now rewrite gen_nterms.
Qed.

Corollary gen_accept_implies_sentence sem input fuel' v :
  no_err_in_bodies g terr = true ->
  Forall (fun t => ttype t <> EOFT) input -> Forall (fun t => ttype t < ntm) input ->
  r_out (parse tb sem input fuel') = POk v ->
  exists pr0 X0 t, nth_error g 0 = Some pr0 /\ rhs pr0 = [X0] /\ Trees.wt g X0 t input.
Proof.
  intros NE HI HR Hok. pose proof (gen_parse_sound sem input fuel' NE HI HR) as H.
  unfold Sound.good_result in H. rewrite Hok in H. destruct H as (t & pr0 & X0 & c & H0 & H1 & H2 & _).
  exists pr0, X0, t. auto.
Qed.

Corollary gen_no_panic sem input fuel' c :
  no_err_in_bodies g terr = true ->
  Forall (fun t => ttype t <> EOFT) input -> Forall (fun t => ttype t < ntm) input ->
  r_out (parse tb sem input fuel') <> PPanic c.
Proof.
  intros NE HI HR Hp. pose proof (gen_parse_sound sem input fuel' NE HI HR) as H.
  unfold Sound.good_result in H. now rewrite Hp in H.
Qed.

(** sentence => accepted, within tree size + 1 steps *)
Corollary gen_sentence_implies_accept sem input :
  (forall i p kids, sem i p kids <> None) ->
  forall pr0 X0 t, nth_error g 0 = Some pr0 -> rhs pr0 = [X0] -> Trees.wt g X0 t input ->
  forall fuel', Complete.size t + 1 <= fuel' -> exists v, r_out (parse tb sem input fuel') = POk v.
Proof. intros Hsem. apply (lr_complete g tb an); [exact gen_valid_forward|exact Hsem]. Qed.

(** termination on every input, when every production is productive *)
Corollary gen_terminates sem :
  no_err_in_bodies g terr = true -> all_productive g nn = true ->
  (forall i p kids, sem i p kids <> None) ->
  forall pr0 X0, nth_error g 0 = Some pr0 -> rhs pr0 = [X0] ->
  forall input, Forall (fun t => ttype t <> EOFT) input ->
  exists fuel0, forall fuel', fuel0 <= fuel' -> r_out (parse tb sem input fuel') <> PFuel.
Proof.
  intros NE PR. apply (ErrorPos.C02_terminates g tb an); [now apply gen_lr_valid|now apply gen_x_checks].
Qed.

End Top.

(** * 7. Fuel: the closure worklist never runs out *)
Lemma flat_map_const_length {A B} (f : A -> list B) n l :
  (forall a, length (f a) = n) -> length (flat_map f l) = length l * n.
Proof. intros H. induction l as [|a l IH]; simpl; [reflexivity|]. now rewrite app_length, H, IH. Qed.

Lemma NoDup_snoc {A} (l : list A) a : NoDup l -> ~ In a l -> NoDup (l ++ [a]).
Proof.
  induction l as [|x l IH]; simpl; intros H Hn; [constructor; [intros []|constructor]|].
  inversion H; subst. constructor.
  - intros Hin. apply in_app_or in Hin. destruct Hin as [Hin|[E|[]]]; [contradiction|]. subst. apply Hn. now left.
  - apply IH; [assumption|]. intros Hin. apply Hn. now right.
Qed.

Section ClosureFuel.
Variable g : grammar.
Variable la_order : list nat.
Variable an : annot.

(** the dot-0 items the closure can ever add *)
Definition dot0_universe : list item :=
  flat_map (fun q => map (fun b => (q, 0, b)) la_order) (seq 0 (length g)).

Lemma dot0_universe_length : length dot0_universe = length g * length la_order.
Proof.
  unfold dot0_universe. rewrite (flat_map_const_length _ (length la_order)); [now rewrite seq_length|].
  intros q. apply map_length.
Qed.

Lemma new_items_universe it i : In i (new_items g la_order an it) -> In i dot0_universe.
Proof.
  destruct it as [[p k] la]. intros H.
  destruct (new_items_inv _ _ _ _ _ _ _ H) as (pr & B & q & prq & b & -> & _ & _ & Hq & _ & _ & Hb).
  unfold dot0_universe. apply in_flat_map. exists q. split.
  - apply in_seq. split; [lia|]. simpl. apply nth_error_Some. congruence.
  - apply in_map_iff. eauto.
Qed.

Definition finv (K I : list item) : Prop := exists E, I = K ++ E /\ NoDup E /\ incl E dot0_universe.

Lemma finv_length K I : finv K I -> length I <= length K + length g * length la_order.
Proof.
  intros (E & -> & H1 & H2). rewrite app_length, <- dot0_universe_length.
  pose proof (NoDup_incl_length H1 H2). lia.
Qed.

Lemma closure_loop_fuel K : forall fuel I idx, finv K I -> idx <= length I ->
  length K + length g * length la_order < fuel + idx ->
  closure_loop g la_order an fuel I idx <> None.
Proof.
  induction fuel as [|f IH]; intros I idx HF Hidx Hfuel.
  - pose proof (finv_length _ _ HF). lia.
  - simpl. destruct (nth_error I idx) as [it|] eqn:E; [|discriminate].
    assert (Hlt : idx < length I) by (apply nth_error_Some; congruence).
    destruct (add_items_spec (new_items g la_order an it) I) as (extra & E1 & _ & _).
    apply IH.
    + apply add_items_ind; [assumption|].
      intros I' i (E' & -> & N1 & N2) _ Hi Hni. exists (E' ++ [i]). rewrite app_assoc. split; [reflexivity|]. split.
      * apply NoDup_snoc; [assumption|]. intros Hin. apply Hni. apply in_or_app. now right.
      * intros x Hx. apply in_app_or in Hx. destruct Hx as [Hx|[<-|[]]]; [now apply N2|].
        eapply new_items_universe; eauto.
    + rewrite E1, app_length. lia.
    + lia.
Qed.

(** (d, closure) Closure always returns: its internal fuel is adequate *)
Theorem closure_fuel_ok K : closure g la_order an K <> None.
Proof.
  unfold closure, closure_fuel. apply (closure_loop_fuel K).
  - exists []. rewrite app_nil_r. split; [reflexivity|]. split; [constructor|intros x []].
  - lia.
  - lia.
Qed.

End ClosureFuel.

(** * 8. FIRST: [length g] rounds always reach the fixed point *)
Lemma filter_length_mono {A} (f f' : A -> bool) l :
  (forall x, In x l -> f x = true -> f' x = true) -> length (filter f l) <= length (filter f' l).
Proof.
  induction l as [|x l IH]; intros H; simpl; [lia|].
  assert (IH' : length (filter f l) <= length (filter f' l)) by (apply IH; intros y Hy; apply H; now right).
  destruct (f x) eqn:E.
  - rewrite (H x (or_introl eq_refl) E). simpl. lia.
  - destruct (f' x); simpl; lia.
Qed.

Lemma filter_length_strict {A} (f f' : A -> bool) l x :
  (forall y, In y l -> f y = true -> f' y = true) -> In x l -> f x = false -> f' x = true ->
  length (filter f l) < length (filter f' l).
Proof.
  induction l as [|y l IH]; intros H Hin Hf Hf'; [destruct Hin|]. simpl.
  assert (Hm : length (filter f l) <= length (filter f' l)) by (apply filter_length_mono; intros z Hz; apply H; now right).
  destruct Hin as [->|Hin].
  - rewrite Hf, Hf'. simpl. lia.
  - assert (IH' : length (filter f l) < length (filter f' l)) by (apply IH; auto; intros z Hz; apply H; now right).
    destruct (f y) eqn:E.
    + rewrite (H y (or_introl eq_refl) E). simpl. lia.
    + destruct (f' y); simpl; lia.
Qed.

Lemma filter_length_all {A} (f : A -> bool) l : length (filter f l) = length l -> forall x, In x l -> f x = true.
Proof.
  induction l as [|y l IH]; intros H x Hin; [destruct Hin|]. simpl in H.
  pose proof (filter_length_mono f (fun _ => true) l (fun _ _ _ => eq_refl)) as Hle.
  assert (El : length (filter (fun _ : A => true) l) = length l).
  { clear. induction l; simpl; auto. }
  destruct (f y) eqn:E; simpl in H.
  - destruct Hin as [<-|Hin]; [assumption|]. apply IH; [lia|assumption].
  - lia.
Qed.

Lemma forallb_false_ex {A} (f : A -> bool) l : forallb f l = false -> exists x, In x l /\ f x = false.
Proof.
  induction l as [|y l IH]; simpl; [discriminate|]. destruct (f y) eqn:E; simpl.
  - intros H. destruct (IH H) as (x & H1 & H2). exists x. auto.
  - intros _. exists y. auto.
Qed.

Section Stab.
Variable g : grammar.
Variable nn : nat.
Variable Phi : (nat -> bool) -> prod -> bool.
Hypothesis Phi_mono : forall Y Y' pr, (forall n, Y n = true -> Y' n = true) -> Phi Y pr = true -> Phi Y' pr = true.
Variable X : nat -> nat -> bool.
Hypothesis X0 : forall n, X 0 n = false.
Hypothesis XS : forall k n, X (S k) n = true <-> n < nn /\ exists pr, In pr g /\ lhs pr = n /\ Phi (X k) pr = true.

Lemma X_mono : forall k n, X k n = true -> X (S k) n = true.
Proof.
  induction k as [|k IH]; intros n H; [rewrite X0 in H; discriminate|].
  apply XS in H. destruct H as (Hn & pr & Hpr & Hl & Hp). apply XS. split; [assumption|].
  exists pr. split; [assumption|]. split; [assumption|]. eapply Phi_mono; eauto.
Qed.

Definition dcount (k : nat) : nat := length (filter (fun pr => X k (lhs pr)) g).
Definition stable (k : nat) : Prop := forall n, X (S k) n = true -> X k n = true.

Lemma stable_next k : stable k -> stable (S k).
Proof.
  intros Hs n H. apply XS in H. destruct H as (Hn & pr & Hpr & Hl & Hp). apply XS. split; [assumption|].
  exists pr. split; [assumption|]. split; [assumption|]. eapply Phi_mono; [|exact Hp]. exact Hs.
Qed.

Lemma stable_from j : stable j -> forall k, j <= k -> stable k.
Proof. intros Hj k Hk. induction Hk; [assumption|now apply stable_next]. Qed.

Lemma stable_dec k : stable k \/ exists n, X (S k) n = true /\ X k n = false.
Proof.
  destruct (forallb (fun n => implb (X (S k) n) (X k n)) (seq 0 nn)) eqn:E.
  - left. intros n H. rewrite forallb_forall in E.
    assert (Hn : n < nn) by (apply XS in H; apply H).
    specialize (E n). rewrite H in E. simpl in E. apply E. apply in_seq. lia.
  - right. apply forallb_false_ex in E. destruct E as (n & _ & E). exists n.
    destruct (X (S k) n), (X k n); simpl in E; try discriminate. auto.
Qed.

Lemma progress : forall k, (exists j, j < k /\ stable j) \/ k <= dcount k.
Proof.
  induction k as [|k IH]; [right; lia|].
  destruct IH as [(j & Hj & Hs)|Hd]; [left; exists j; split; [lia|assumption]|].
  destruct (stable_dec k) as [Hs|(n & H1 & H2)]; [left; exists k; split; [lia|assumption]|].
  right. apply XS in H1 as H1'. destruct H1' as (_ & pr & Hpr & Hl & _). subst n.
  assert (dcount k < dcount (S k)); [|lia].
  unfold dcount. apply (filter_length_strict _ _ g pr); auto.
  intros y _. apply X_mono.
Qed.

Theorem stab_reached : stable (length g).
Proof.
  destruct (progress (length g)) as [(j & Hj & Hs)|Hd].
  - apply (stable_from j Hs). lia.
  - assert (E : dcount (length g) = length g).
    { pose proof (filter_length_mono (fun pr => X (length g) (lhs pr)) (fun _ => true) g (fun _ _ _ => eq_refl)) as Hle.
      assert (El : forall l : list prod, length (filter (fun _ => true) l) = length l) by (induction l; simpl; auto).
      rewrite El in Hle. unfold dcount in *. lia. }
    intros n H. apply XS in H. destruct H as (_ & pr & Hpr & <- & _).
    apply (filter_length_all _ _ E pr Hpr).
Qed.

Corollary stab_eq n : X (S (length g)) n = X (length g) n.
Proof.
  destruct (X (S (length g)) n) eqn:E1.
  - symmetry. now apply stab_reached.
  - destruct (X (length g) n) eqn:E2; [|reflexivity]. apply X_mono in E2. congruence.
Qed.
End Stab.

Lemma bools_eqb_refl a : bools_eqb a a = true.
Proof.
  unfold bools_eqb. rewrite Nat.eqb_refl. simpl. induction a as [|x a IH]; [reflexivity|].
  simpl. rewrite IH. now destruct x.
Qed.

Section FirstStable.
Variable g : grammar.
Variable nn : nat.
Hypothesis GNE : g <> [].

(** nullable flags *)
Definition phi_null (Y : nat -> bool) (pr : prod) : bool :=
  forallb (fun X => match X with T _ => false | NT m => Y m end) (rhs pr).

Lemma phi_null_mono Y Y' pr : (forall n, Y n = true -> Y' n = true) -> phi_null Y pr = true -> phi_null Y' pr = true.
Proof.
  unfold phi_null. rewrite !forallb_forall. intros H H1 [a|m] HX; specialize (H1 _ HX); simpl in *; auto.
Qed.

Definition xnull (k n : nat) : bool := nth n (flag_iter g false nn k) false.

Lemma xnull_S k n : xnull (S k) n = true <-> n < nn /\ exists pr, In pr g /\ lhs pr = n /\ phi_null (xnull k) pr = true.
Proof.
  unfold xnull. simpl. unfold flag_step. destruct (Nat.lt_ge_cases n nn) as [Hn|Hn].
  - rewrite nth_map_seq by assumption. rewrite existsb_exists. split.
    + intros (pr & Hpr & H). apply andb_true_iff in H. destruct H as [H1 H2]. apply Nat.eqb_eq in H1.
      split; [assumption|]. exists pr. auto.
    + intros (_ & pr & Hpr & Hl & H). exists pr. split; [assumption|]. apply andb_true_iff.
      split; [now apply Nat.eqb_eq|exact H].
  - rewrite nth_overflow by (now rewrite map_length, seq_length). split; [discriminate|]. intros [H _]. lia.
Qed.

Lemma xnull_0 n : xnull 0 n = false.
Proof. unfold xnull. simpl. now destruct n. Qed.

Lemma gen_nullable_stable : flag_step g false nn (gen_nullable g nn) = gen_nullable g nn.
Proof.
  unfold gen_nullable. destruct (length g) as [|L] eqn:EL; [destruct g; [congruence|discriminate]|].
  apply (nth_ext _ _ false false).
  - change (flag_step g false nn (flag_iter g false nn (S L))) with (flag_iter g false nn (S (S L))).
    now rewrite !flag_iter_length.
  - intros n _. rewrite <- EL.
    exact (stab_eq g nn phi_null phi_null_mono xnull xnull_0 xnull_S n).
Qed.

(** FIRST sets, one terminal at a time *)
Variable an : annot.

Fixpoint in_rhs (a : nat) (Y : nat -> bool) (gamma : list sym) : bool :=
  match gamma with
  | [] => false
  | T b :: _ => Nat.eqb b a
  | NT m :: rest => Y m || (nullable_nt an m && in_rhs a Y rest)
  end.

Lemma in_rhs_mono a Y Y' : (forall n, Y n = true -> Y' n = true) ->
  forall gamma, in_rhs a Y gamma = true -> in_rhs a Y' gamma = true.
Proof.
  intros H. induction gamma as [|[b|m] gamma IH]; simpl; auto.
  rewrite !orb_true_iff, !andb_true_iff. intros [H1|[H1 H2]]; auto.
Qed.

Lemma in_rhs_spec a F : forall gamma,
  In a (first_rhs an F gamma) <-> in_rhs a (fun m => mem_nat a (nth m F [])) gamma = true.
Proof.
  induction gamma as [|[b|m] gamma IH]; simpl.
  - split; [intros []|discriminate].
  - rewrite Nat.eqb_eq. split; [intros [H|[]]; assumption|intros H; now left].
  - rewrite in_app_iff, orb_true_iff, andb_true_iff, mem_nat_In.
    destruct (nullable_nt an m); simpl.
    + rewrite IH. tauto.
    + split; [intros [H|[]]; now left|intros [H|[H _]]; [now left|discriminate]].
Qed.

Definition xfirst (a k n : nat) : bool := mem_nat a (nth n (cfirst_iter g an nn k) []).

Lemma xfirst_0 a n : xfirst a 0 n = false.
Proof. unfold xfirst. simpl. now destruct n. Qed.

Lemma cfirst_step_In F a n : In a (nth n (cfirst_step g an nn F) []) <->
  n < nn /\ exists pr, In pr g /\ lhs pr = n /\ In a (first_rhs an F (rhs pr)).
Proof.
  unfold cfirst_step. destruct (Nat.lt_ge_cases n nn) as [Hn|Hn].
  - rewrite nth_map_seq by assumption. split.
    + intros H. apply dedup_In in H. apply in_flat_map in H. destruct H as (pr & Hpr & H).
      destruct (Nat.eqb (lhs pr) n) eqn:E; [|destruct H]. apply Nat.eqb_eq in E.
      split; [assumption|]. exists pr. auto.
    + intros (_ & pr & Hpr & Hl & H). apply In_dedup. apply in_flat_map. exists pr. split; [assumption|].
      subst n. now rewrite Nat.eqb_refl.
  - rewrite nth_overflow by (now rewrite map_length, seq_length). split; [intros []|]. intros [H _]. lia.
Qed.

Lemma xfirst_S a k n : xfirst a (S k) n = true <->
  n < nn /\ exists pr, In pr g /\ lhs pr = n /\ in_rhs a (xfirst a k) (rhs pr) = true.
Proof.
  unfold xfirst at 1. simpl. rewrite mem_nat_In, cfirst_step_In. split.
  - intros (Hn & pr & Hpr & Hl & H). split; [assumption|]. exists pr. split; [assumption|]. split; [assumption|].
    now apply in_rhs_spec in H.
  - intros (Hn & pr & Hpr & Hl & H). split; [assumption|]. exists pr. split; [assumption|]. split; [assumption|].
    now apply in_rhs_spec.
Qed.

Lemma cfirst_stable n a :
  In a (nth n (cfirst_step g an nn (cfirst_iter g an nn (length g))) []) -> In a (nth n (cfirst_iter g an nn (length g)) []).
Proof.
  intros H. apply mem_nat_In.
  change (xfirst a (length g) n = true).
  rewrite <- (stab_eq g nn (fun Y pr => in_rhs a Y (rhs pr)) (fun Y Y' pr HY => in_rhs_mono a Y Y' HY (rhs pr))
               (xfirst a) (xfirst_0 a) (xfirst_S a) n).
  unfold xfirst. simpl. now apply mem_nat_In.
Qed.

End FirstStable.

(** (d, FIRST) [gen_first] never fails: [GenFirstUnstable] is impossible *)
Theorem gen_first_ok g nn : g <> [] -> gen_first g nn <> None.
Proof.
  intros GNE. unfold gen_first. replace (gen_first_stable g nn) with true; [discriminate|]. symmetry.
  unfold gen_first_stable. rewrite (gen_nullable_stable g nn GNE), bools_eqb_refl. simpl.
  apply forallb_forall. intros n _. apply forallb_forall. intros a Ha. apply mem_nat_In.
  now apply cfirst_stable.
Qed.

(** * 9. Fuel: the worklist over the states terminates *)
Fixpoint all_bvecs (m : nat) : list (list bool) :=
  match m with
  | O => [[]]
  | S m' => map (cons true) (all_bvecs m') ++ map (cons false) (all_bvecs m')
  end.

Lemma all_bvecs_length m : length (all_bvecs m) = 2 ^ m.
Proof. induction m as [|m IH]; [reflexivity|]. simpl. rewrite app_length, !map_length, IH. lia. Qed.

Lemma all_bvecs_In : forall v, In v (all_bvecs (length v)).
Proof.
  induction v as [|b v IH]; [now left|]. simpl. apply in_or_app.
  destruct b; [left|right]; now apply in_map.
Qed.

Lemma map_eq_In {A B} (f h : A -> B) l : map f l = map h l -> forall x, In x l -> f x = h x.
Proof.
  induction l as [|y l IH]; intros E x Hin; [destruct Hin|]. simpl in E. inversion E.
  destruct Hin as [<-|Hin]; auto.
Qed.

Lemma find_index_from_None' J : forall sts i, find_index_from J sts i = None ->
  forall t, t < length sts -> set_eqb (nth t sts []) J = false.
Proof.
  induction sts as [|I1 sts IH]; intros i H t Ht; [simpl in Ht; lia|]. simpl in H.
  destruct (set_eqb I1 J) eqn:E; [discriminate|]. destruct t; [assumption|]. apply (IH _ H). simpl in Ht. lia.
Qed.

Section StatesFuel.
Variable g : grammar.
Variable symbols : list sym.
Variable la_order : list nat.
Variable an : annot.

(** every item the generator can ever build *)
Definition item_universe : list item :=
  flat_map (fun p => flat_map (fun k => map (fun la => (p, k, la)) (EOFT :: la_order))
                              (seq 0 (S (length (rhs (nth p g {| lhs := 0; rhs := [] |}))))))
           (seq 0 (length g)).

Definition inV (it : item) : Prop :=
  let '(p, k, la) := it in
  exists pr, nth_error g p = Some pr /\ k <= length (rhs pr) /\ In la (EOFT :: la_order).

Lemma inV_universe it : inV it -> In it item_universe.
Proof.
  destruct it as [[p k] la]. intros (pr & Hp & Hk & Hla). unfold item_universe.
  apply in_flat_map. exists p. split; [apply in_seq; split; [lia|]; simpl; apply nth_error_Some; congruence|].
  apply in_flat_map. exists k. split.
  - apply in_seq. rewrite (nth_error_nth _ _ _ Hp). lia.
  - apply in_map_iff. eauto.
Qed.

Notation closure := (closure g la_order an).
Notation goto := (goto g la_order an).
Notation process_syms := (process_syms g la_order an).

Lemma closure_inV K J : closure K = Some J -> Forall inV K -> Forall inV J.
Proof.
  unfold Gen.closure. intros H HK. apply (closure_loop_ind g la_order an (Forall inV)) in H; [assumption| |assumption].
  intros I [[p k] la] i HI _ Hi _. apply Forall_app. split; [assumption|]. constructor; [|constructor].
  destruct (new_items_inv _ _ _ _ _ _ _ Hi) as (pr & B & q & prq & b & -> & _ & _ & Hq & _ & _ & Hb).
  exists prq. split; [assumption|]. split; [lia|now right].
Qed.

Lemma goto_inV X I J : goto X I = Some J -> Forall inV I -> Forall inV J.
Proof.
  unfold Gen.goto. intros H HI. apply (closure_inV _ _ H). apply Forall_forall. intros [[p k] la] Hin.
  apply goto_kernel_In in Hin. destruct Hin as (k' & -> & Hin & He).
  rewrite Forall_forall in HI. destruct (HI _ Hin) as (pr & Hp & Hk & Hla).
  apply expects_spec in He. destruct He as (pr' & Hp' & Hk'). rewrite Hp in Hp'. inversion Hp'; subst pr'.
  exists pr. split; [assumption|]. split; [|assumption].
  assert (k' < length (rhs pr)) by (apply nth_error_Some; congruence). lia.
Qed.

(** the states are sets of items of the universe, pairwise different *)
Definition uinv (sts : list (list item)) : Prop :=
  Forall (Forall inV) sts /\
  forall i j, i < j -> j < length sts -> set_eqb (nth i sts []) (nth j sts []) = false.

Lemma uinv_snoc sts J : uinv sts -> Forall inV J -> find_index J sts = None -> uinv (sts ++ [J]).
Proof.
  intros [H1 H2] HJ HF. split.
  - apply Forall_app. split; [assumption|]. constructor; [assumption|constructor].
  - intros i j Hij Hj. rewrite app_length in Hj. simpl in Hj.
    destruct (Nat.lt_ge_cases j (length sts)) as [Hjl|Hjl].
    + rewrite !app_nth1 by lia. now apply H2.
    + assert (j = length sts) by lia. subst j. rewrite app_nth1 by lia.
      rewrite app_nth2, Nat.sub_diag by lia. simpl.
      unfold find_index in HF. eapply find_index_from_None'; [exact HF|assumption].
Qed.

Lemma process_syms_total I : Forall inV I -> forall syms sts row, uinv sts ->
  exists sts' row', process_syms I syms sts row = Some (sts', row') /\ uinv sts' /\ length sts <= length sts'.
Proof.
  intros HI. induction syms as [|X syms IH]; intros sts row HU; simpl.
  - exists sts, row. auto.
  - destruct (goto X I) as [J|] eqn:EJ.
    2:{ exfalso. revert EJ. apply closure_fuel_ok. }
    pose proof (goto_inV _ _ _ EJ HI) as HJ.
    destruct J as [|i0 J0]; [apply IH; assumption|].
    destruct (find_index (i0 :: J0) sts) as [idx|] eqn:EF; [apply IH; assumption|].
    destruct (IH (sts ++ [i0 :: J0]) (row ++ [(X, length sts)])) as (sts' & row' & H1 & H2 & H3).
    { now apply uinv_snoc. }
    exists sts', row'. split; [assumption|]. split; [assumption|]. rewrite app_length in H3. simpl in H3. lia.
Qed.

(** characteristic vectors over the universe *)
Definition chi (St : list item) : list bool := map (fun v => mem_item v St) item_universe.

Lemma chi_eq A B : Forall inV A -> Forall inV B -> chi A = chi B -> set_eqb A B = true.
Proof.
  intros HA HB E. unfold set_eqb. apply andb_true_iff. rewrite Forall_forall in HA, HB.
  split; apply forallb_forall; intros x Hx.
  - rewrite <- (map_eq_In _ _ _ E x (inV_universe _ (HA _ Hx))). now apply mem_item_In.
  - rewrite (map_eq_In _ _ _ E x (inV_universe _ (HB _ Hx))). now apply mem_item_In.
Qed.

Lemma set_eqb_sym A B : set_eqb A B = set_eqb B A.
Proof. unfold set_eqb. apply andb_comm. Qed.

Lemma uinv_bound sts : uinv sts -> length sts <= 2 ^ length item_universe.
Proof.
  intros [H1 H2]. rewrite <- all_bvecs_length, <- (map_length chi sts).
  apply NoDup_incl_length.
  - apply (proj2 (NoDup_nth (map chi sts) (chi []))). intros i j Hi Hj E.
    rewrite map_length in Hi, Hj. rewrite !map_nth in E.
    rewrite Forall_forall in H1.
    assert (Hi' : Forall inV (nth i sts [])) by (apply H1; now apply nth_In).
    assert (Hj' : Forall inV (nth j sts [])) by (apply H1; now apply nth_In).
    destruct (Nat.lt_trichotomy i j) as [Hlt|[Heq|Hgt]]; [|assumption|]; exfalso.
    + pose proof (chi_eq _ _ Hi' Hj' E) as Hs. rewrite (H2 i j Hlt Hj) in Hs. discriminate.
    + pose proof (chi_eq _ _ Hi' Hj' E) as Hs. rewrite set_eqb_sym, (H2 j i Hgt Hi) in Hs. discriminate.
  - intros v Hv. apply in_map_iff in Hv. destruct Hv as (St & <- & _).
    replace (length item_universe) with (length (chi St)) by (unfold chi; apply map_length).
    apply all_bvecs_In.
Qed.

Lemma states_loop_total : forall fuel sts trs, uinv sts -> length trs <= length sts ->
  2 ^ length item_universe < fuel + length trs ->
  states_loop g symbols la_order an fuel sts trs <> None.
Proof.
  induction fuel as [|f IH]; intros sts trs HU Hl Hf.
  - pose proof (uinv_bound _ HU). lia.
  - simpl. destruct (nth_error sts (length trs)) as [I1|] eqn:E; [|discriminate].
    assert (HI : Forall inV I1).
    { destruct HU as [H1 _]. rewrite Forall_forall in H1. apply H1. eapply nth_error_In; eauto. }
    destruct (process_syms_total I1 HI symbols sts [] HU) as (sts' & row & -> & HU' & Hlen).
    assert (length trs < length sts) by (apply nth_error_Some; congruence).
    apply IH; [assumption|rewrite app_length; simpl; lia|rewrite app_length; simpl; lia].
Qed.

(** (d, states) with more than 2^(number of possible items) units of fuel, [gen_states_an] returns *)
Theorem gen_states_fuel_ok fuel : g <> [] -> 2 ^ length item_universe < fuel ->
  gen_states_an g symbols la_order an fuel <> None.
Proof.
  intros GNE Hf. unfold gen_states_an. destruct (closure [(0, 0, EOFT)]) as [I0|] eqn:E.
  2:{ exfalso. revert E. apply closure_fuel_ok. }
  apply states_loop_total; [|simpl; lia|simpl; lia]. split.
  - constructor; [|constructor]. apply (closure_inV _ _ E). constructor; [|constructor].
    destruct (nth_error g 0) as [pr0|] eqn:E0.
    + exists pr0. split; [assumption|]. split; [lia|now left].
    + exfalso. apply nth_error_None in E0. apply GNE. apply length_zero_iff_nil. lia.
  - intros i j Hij Hj. simpl in Hj. lia.
Qed.
End StatesFuel.

(** * 10. The model generator succeeds exactly on the LR(1) grammars *)
Lemma all_some_None_ex {A} : forall (l : list (option A)), all_some l = None -> In None l.
Proof.
  induction l as [|[x|] l IH]; simpl; intros H; [discriminate| |now left].
  destruct (all_some l); [discriminate|]. right. now apply IH.
Qed.

Section Total.
Variable g : grammar.
Variables nn ntm : nat.
Variable symbols : list sym.
Variable la_order : list nat.
Variable p_acts : list bool.
Variable terr : nat.
Variable fuel : nat.
Hypothesis WF : gen_wf g nn ntm symbols la_order terr = true.
Hypothesis FUEL : 2 ^ length (item_universe g la_order) < fuel.

Notation run := (gen_run g nn ntm symbols la_order p_acts terr fuel).

(** with enough fuel a well-formed input always gives tables or a conflict report *)
Theorem gen_run_total :
  (exists tb an tr, run = GenOk tb an tr) \/ (exists an tr cells, run = GenConflict an tr cells).
Proof.
  assert (GNE : g <> []) by (eapply g_ne; eauto).
  unfold gen_run. rewrite WF. simpl.
  destruct (gen_first g nn) as [[N F]|] eqn:EF; [|exfalso; revert EF; now apply gen_first_ok].
  destruct (gen_states_an g symbols la_order {| a_items := []; a_nullable := N; a_first := F |} fuel)
    as [[sts trs]|] eqn:ES; [|exfalso; revert ES; now apply gen_states_fuel_ok].
  destruct (all_some _); [left|right]; eauto.
Qed.

(** a conflict report means a conflict in the canonical LR(1) collection *)
Theorem gen_conflict_canonical an tr cells : run = GenConflict an tr cells -> canonical_conflict g.
Proof.
  unfold gen_run. rewrite WF. simpl.
  destruct (gen_first g nn) as [[N F]|] eqn:EF; [|discriminate].
  destruct (gen_states_an g symbols la_order {| a_items := []; a_nullable := N; a_first := F |} fuel)
    as [[sts trs]|] eqn:ES; [|discriminate].
  pose proof (gen_auto_valid_an g nn ntm symbols la_order terr N F sts trs fuel WF EF ES) as AV.
  change {| a_items := sts; a_nullable := N; a_first := F |} with (gan N F sts). set (an' := gan N F sts) in *.
  destruct (all_some (map (gen_row g nn ntm terr an' trs) (seq 0 (length sts)))) eqn:ER; [discriminate|]. intros _.
  apply all_some_None_ex in ER. apply in_map_iff in ER. destruct ER as (s & Hr & Hs). apply in_seq in Hs.
  unfold gen_row in Hr. destruct (action_row g ntm an' trs s) eqn:EA; [discriminate|].
  unfold action_row in EA. apply all_some_None_ex in EA. apply in_map_iff in EA. destruct EA as (a & Hc & Ha).
  apply in_seq in Ha. apply (dump_conflict_canonical g ntm an' trs AV). exists s, a.
  split; [unfold nst, an'; simpl; lia|]. split; [lia|].
  unfold action_cell in Hc. destruct (cell g an' trs s a) as [[w [|c cf]]|] eqn:EC; try discriminate.
  - apply (row_action_conflicts_nonempty _ _ _ EC). discriminate.
  - assert (HP : cell_panics g an' trs s a = true) by (unfold cell_panics; now rewrite EC).
    apply cell_panics_P in HP. destruct HP as (H1 & x & Hx & H2).
    exists Accept, x. auto.
Qed.

(** the model generator produces tables iff the grammar has no LR(1) conflict *)
Corollary gen_succeeds_iff_lr1 : (exists tb an tr, run = GenOk tb an tr) <-> ~ canonical_conflict g.
Proof.
  split.
  - intros (tb & an & tr & H). apply (gen_no_conflict g nn ntm symbols la_order p_acts terr fuel tb an tr).
    unfold gen_all. now rewrite H.
  - intros NC. destruct gen_run_total as [H|(an & tr & cells & H)]; [assumption|].
    exfalso. apply NC. eapply gen_conflict_canonical; eauto.
Qed.

End Total.

(** * 11. (c) refined: only the productions occurring in items need be productive *)
Lemma der_first_s g :
  (forall X u, der g X u -> forall a w, u = a :: w -> first_s g X a) /\
  (forall gamma u, ders g gamma u -> forall a w, u = a :: w -> first_ss g gamma a).
Proof.
  apply der_ders_min.
  - intros a b w E. inversion E; subst. constructor.
  - intros p pr u Hp _ IH a w E. econstructor; eauto.
  - intros a w E. discriminate.
  - intros X gamma u v HX IH1 _ IH2 a w E. destruct u as [|b u].
    + simpl in E. apply fss_skip; [assumption|eauto].
    + simpl in E. inversion E; subst b. apply fss_here. eapply IH1; eauto.
Qed.

Lemma first_seq_nonempty g an beta u la : f_first g an = true -> ders g beta u ->
  exists b, In b (first_seq an beta la).
Proof.
  intros FF H. destruct u as [|a w].
  - exists la. apply (FIRST_sem_closed g an FF). right. auto.
  - exists a. apply (FIRST_sem_closed g an FF). left. eapply (proj2 (der_first_s g)); eauto.
Qed.

Lemma CI_dot_back g : forall gamma p k la, CI g gamma (p, k, la) -> exists gamma0, CI g gamma0 (p, 0, la).
Proof.
  intros gamma p k la H. remember (p, k, la) as it eqn:E. revert p k la E.
  induction H as [|gamma p' k' la' pr' B q prq b H1 IH Hp Hk Hq HB Hf|gamma p' k' la' pr' X H1 IH Hp Hk];
    intros p k la E; inversion E; subst.
  - exists []. constructor.
  - exists gamma. eapply CI_closure; eauto.
  - eapply IH; eauto.
Qed.

Lemma CI_dot_fwd g gamma0 p la pr : CI g gamma0 (p, 0, la) -> nth_error g p = Some pr ->
  forall j, j <= length (rhs pr) -> CI g (gamma0 ++ firstn j (rhs pr)) (p, j, la).
Proof.
  intros H0 Hp. induction j as [|j IH]; intros Hj.
  - simpl. now rewrite app_nil_r.
  - destruct (nth_error (rhs pr) j) as [X|] eqn:EX; [|apply nth_error_None in EX; lia].
    rewrite (firstn_S_nth j (rhs pr) X) by lia. rewrite app_assoc.
    rewrite (nth_error_nth _ _ X EX). eapply CI_goto; eauto. apply IH. lia.
Qed.

Lemma first_rhs_mono an F F' : forall gamma a,
  (forall m b, In (NT m) gamma -> In b (nth m F []) -> In b (nth m F' [])) ->
  In a (first_rhs an F gamma) -> In a (first_rhs an F' gamma).
Proof.
  induction gamma as [|[b|m] gamma IH]; intros a H Hin; simpl in *; auto.
  apply in_app_or in Hin. apply in_or_app. destruct Hin as [Hin|Hin].
  - left. apply H; auto.
  - right. destruct (nullable_nt an m); [|assumption]. apply IH; auto.
Qed.

Section TablesX.
Variable g : grammar.
Variables nn ntm : nat.
Variable symbols : list sym.
Variable la_order : list nat.
Variable p_acts : list bool.
Variable terr : nat.
Variable an : annot.
Variable tr : transitions.
Variable rows : list srow.
Hypothesis WF : gen_wf g nn ntm symbols la_order terr = true.
Hypothesis AV : auto_valid g ntm an tr = true.
Hypothesis ROWS : all_some (map (gen_row g nn ntm terr an tr) (seq 0 (nst an))) = Some rows.
Notation tb := (gtb g p_acts terr rows).
Hypothesis XP : x_prod g tb an = true.

(** the productions occurring in some item *)
Definition in_items (pr : prod) : Prop :=
  exists s p k la, In (p, k, la) (items_of an s) /\ nth_error g p = Some pr.

Lemma in_items_productive pr : in_items pr -> flag_rhs true (prod_flags g tb) (rhs pr) = true.
Proof.
  intros (s & p & k & la & Hin & Hp).
  apply (forall_item_prods_P g tb an _ XP s p k la pr); auto.
  rewrite (nstates_eq g nn ntm p_acts terr an tr rows ROWS). apply (items_lt an _ _ Hin).
Qed.

Lemma in_items_closed pr m : in_items pr -> In (NT m) (rhs pr) ->
  forall q prq, nth_error g q = Some prq -> lhs prq = m -> in_items prq.
Proof.
  intros (s & p & k & la & Hin & Hp) Hm q prq Hq Hl.
  destruct (auto_canonical _ _ _ _ AV) as (A1 & A2 & _).
  destruct (A2 s (items_lt an _ _ Hin)) as [gamma Hg]. destruct (A1 _ _ Hg) as (_ & A3). apply A3 in Hin.
  destruct (CI_dot_back _ _ _ _ _ Hin) as [gamma0 H0].
  apply In_nth_error in Hm. destruct Hm as [j Hj].
  assert (Hjl : j < length (rhs pr)) by (apply nth_error_Some; congruence).
  pose proof (CI_dot_fwd _ _ _ _ _ H0 Hp j (Nat.lt_le_incl _ _ Hjl)) as Hc.
  destruct (items_sup _ _ _ _ AV _ _ Hc) as (s' & _ & Hin').
  (* a look-ahead exists because the rest of the body is productive *)
  assert (Hprod : exists u, ders g (skipn (S j) (rhs pr)) u).
  { apply ders_all. intros X HX. apply skipn_In in HX.
    apply (flag_rhs_prod_P g tb (rhs pr)); [|assumption].
    apply in_items_productive. exists s', p, j, la. auto. }
  destruct Hprod as [u Hu].
  destruct (AV_parts _ _ _ _ AV) as (_ & _ & FF & _).
  destruct (first_seq_nonempty g an _ _ la FF Hu) as [b Hb].
  exists s', q, 0, b. split; [|assumption].
  exact (closed_P _ _ _ _ AV s' p j la pr m q prq b Hin' Hp Hj Hq Hl Hb).
Qed.

Lemma cfirst_sub_first m0 : forall k m,
  (forall q prq, nth_error g q = Some prq -> lhs prq = m -> in_items prq) ->
  forall a, In a (nth m (cfirst_iter g an m0 k) []) -> In a (nth m (first_iter g an (prod_flags g tb) m0 k) []).
Proof.
  induction k as [|k IH]; intros m Hm a Ha; [exact Ha|]. simpl in Ha |- *.
  apply cfirst_step_In in Ha. destruct Ha as (Hlt & pr & Hpr & Hl & Ha).
  apply In_nth_error in Hpr as Hq. destruct Hq as [q Hq]. pose proof (Hm _ _ Hq Hl) as HR.
  unfold first_step. rewrite nth_map_seq by assumption. apply In_dedup. apply in_flat_map.
  exists pr. split; [assumption|]. apply Nat.eqb_eq in Hl. rewrite Hl, (in_items_productive _ HR). simpl.
  apply (first_rhs_mono an (cfirst_iter g an m0 k)); [|assumption].
  intros m' b Hm' Hb. apply IH; [|assumption]. intros q' prq' Hq' Hl'. eapply in_items_closed; eauto.
Qed.

Lemma t_x_first' : x_first g tb an = true.
Proof.
  unfold x_first, forall_item_prods, forall_states. apply forallb_seq. intros s Hs. apply forallb_forall.
  intros [[p k] la] Hin.
  destruct (item_facts g nn ntm symbols la_order terr an tr WF AV _ _ _ _ Hin) as (_ & pr & Hp & _). rewrite Hp.
  apply forallb_forall. intros [a|n] HX; [reflexivity|]. apply forallb_forall. intros a Ha. apply mem_nat_In.
  unfold first_sets. apply cfirst_sub_first.
  - intros q prq Hq Hl. apply (in_items_closed pr n) with (q := q); auto. exists s, p, k, la. auto.
  - destruct (AV_parts _ _ _ _ AV) as (_ & _ & _ & _ & H & _). unfold c_first in H.
    rewrite forallb_forall in H.
    assert (Hlt : n < length (a_first an)).
    { destruct (Nat.lt_ge_cases n (length (a_first an))) as [|Hge]; [assumption|].
      unfold first_nt in Ha. rewrite nth_overflow in Ha by assumption. destruct Ha. }
    specialize (H n). rewrite forallb_forall in H. apply mem_nat_In. apply H; [apply in_seq; lia|assumption].
Qed.

(** the canonicity checks hold as soon as the productions occurring in items are productive ([x_prod]) *)
Theorem tables_x_checks_reach : x_checks g tb an = true.
Proof.
  unfold x_checks. destruct (AV_parts _ _ _ _ AV) as (_ & _ & _ & H & _).
  rewrite H, t_x_first', XP.
  rewrite (t_x_noeof g nn ntm symbols la_order terr WF).
  rewrite (t_x_recover g nn ntm symbols la_order p_acts terr an tr rows WF AV ROWS).
  rewrite (t_x_closure g nn ntm p_acts terr an tr rows AV ROWS). reflexivity.
Qed.
End TablesX.

Theorem gen_x_checks_reach g nn ntm symbols la_order p_acts terr fuel tb an tr :
  gen_all g nn ntm symbols la_order p_acts terr fuel = Some (tb, an, tr) ->
  x_prod g tb an = true -> x_checks g tb an = true.
Proof.
  intros GEN XP. pose proof (gen_auto_valid _ _ _ _ _ _ _ _ _ _ _ GEN) as AV.
  destruct (gen_all_inv _ _ _ _ _ _ _ _ _ _ _ GEN) as (N & F & rows & H1 & _ & _ & _ & H5 & ->).
  exact (tables_x_checks_reach g nn ntm symbols la_order p_acts terr an tr rows H1 AV H5 XP).
Qed.

(** termination of every generated parser whose reachable productions are productive *)
Corollary gen_terminates_reach g nn ntm symbols la_order p_acts terr fuel tb an tr sem :
  gen_all g nn ntm symbols la_order p_acts terr fuel = Some (tb, an, tr) ->
  no_err_in_bodies g terr = true -> x_prod g tb an = true ->
  (forall i p kids, sem i p kids <> None) ->
  forall pr0 X0, nth_error g 0 = Some pr0 -> rhs pr0 = [X0] ->
  forall input, Forall (fun t => ttype t <> EOFT) input ->
  exists fuel0, forall fuel', fuel0 <= fuel' -> r_out (parse tb sem input fuel') <> PFuel.
Proof.
  intros GEN NE XP. apply (ErrorPos.C02_terminates g tb an).
  - eapply gen_lr_valid; eauto.
  - eapply gen_x_checks_reach; eauto.
Qed.

(** * Examples: the generator evaluated by the kernel on two small grammars *)
Module GenExamples.

(** S' -> S ; S -> A b ; A -> a A | empty.
    gocc's terminals: 0 INVALID, 1 end of input, 2 "b", 3 "a", 4 "empty" (sorted names: INVALID a b empty ␚) *)
Definition g1 : grammar :=
  [ {| lhs := 0; rhs := [NT 1] |}; {| lhs := 1; rhs := [NT 2; T 2] |};
    {| lhs := 2; rhs := [T 3; NT 2] |}; {| lhs := 2; rhs := [] |} ].
Definition r1 := gen_all g1 3 5 (default_symbols g1) [0; 3; 2; 4; 1] [false; true; true; true] 0 20.

(** exactly gocc's output (verifdump lr): items in gocc's order, states in gocc's numbering *)
Example g1_items : option_map (fun r => a_items (snd (fst r))) r1 =
  Some [ [(0,0,1); (1,0,1); (2,0,2); (3,0,2)]; [(0,1,1)]; [(1,1,1)]; [(2,1,2); (2,0,2); (3,0,2)]; [(1,2,1)]; [(2,2,2)] ].
Proof. vm_compute. reflexivity. Qed.
Example g1_actions : option_map (fun r => map s_actions (t_states (fst (fst r)))) r1 =
  Some [ [None; None; Some (Reduce 3); Some (Shift 3); None]; [None; Some Accept; None; None; None];
         [None; None; Some (Shift 4); None; None]; [None; None; Some (Reduce 3); Some (Shift 3); None];
         [None; Some (Reduce 1); None; None; None]; [None; None; Some (Reduce 2); None; None] ].
Proof. vm_compute. reflexivity. Qed.
Example g1_first : gen_first g1 3 = Some ([false; false; true], [[3; 2]; [3; 2]; [3]]).
Proof. vm_compute. reflexivity. Qed.
Example g1_ok : exists tb an tr, r1 = Some (tb, an, tr).
Proof. vm_compute. eauto. Qed.
Example g1_productive : all_productive g1 3 = true.
Proof. vm_compute. reflexivity. Qed.

(** E' -> E ; E -> E + T | T ; T -> T * F | F ; F -> ( E ) | id
    terminals: 0 INVALID, 1 end of input, 2 "+", 3 "*", 4 "(", 5 ")", 6 id  (sorted names: ( ) * + INVALID id ␚) *)
Definition g2 : grammar :=
  [ {| lhs := 0; rhs := [NT 1] |};
    {| lhs := 1; rhs := [NT 1; T 2; NT 2] |}; {| lhs := 1; rhs := [NT 2] |};
    {| lhs := 2; rhs := [NT 2; T 3; NT 3] |}; {| lhs := 2; rhs := [NT 3] |};
    {| lhs := 3; rhs := [T 4; NT 1; T 5] |}; {| lhs := 3; rhs := [T 6] |} ].
Definition r2 := gen_all g2 4 7 (default_symbols g2) [4; 5; 3; 2; 0; 6; 1] [false; true; true; true; true; true; true] 0 30.

Example g2_states : option_map (fun r => length (a_items (snd (fst r)))) r2 = Some 22.
Proof. vm_compute. reflexivity. Qed.
Example g2_state0 : option_map (fun r => (nth 0 (a_items (snd (fst r))) [], nth 0 (snd r) [])) r2 =
  Some ([(0,0,1); (1,0,1); (2,0,1); (1,0,2); (2,0,2); (3,0,1); (4,0,1); (3,0,2); (4,0,2); (3,0,3); (4,0,3);
         (5,0,1); (6,0,1); (5,0,2); (6,0,2); (5,0,3); (6,0,3)],
        [(NT 1, 1); (NT 2, 2); (NT 3, 3); (T 4, 4); (T 6, 5)]).
Proof. vm_compute. reflexivity. Qed.
Example g2_row2 : option_map (fun r => s_actions (nth 2 (t_states (fst (fst r))) {| s_actions := []; s_recover := false; s_gotos := [] |})) r2 =
  Some [None; Some (Reduce 2); Some (Reduce 2); Some (Shift 7); None; None; None].
Proof. vm_compute. reflexivity. Qed.

(** the theorems apply without evaluating any validator: e.g. "id + id * id" is accepted *)
Example g2_accepts : forall tb an tr, r2 = Some (tb, an, tr) ->
  forall sem, (forall i p kids, sem i p kids <> None) ->
  forall input t, Trees.wt g2 (NT 1) t input ->
  exists v, r_out (parse tb sem input (Complete.size t + 1)) = POk v.
Proof.
  intros tb an tr H sem Hsem input t Ht.
  apply (gen_sentence_implies_accept _ _ _ _ _ _ _ _ _ _ _ H sem input Hsem _ (NT 1) t eq_refl eq_refl Ht). lia.
Qed.

(** an ambiguous grammar: the model reports the conflict (state 4, terminal 2) like gocc does *)
Definition g3 : grammar :=
  [ {| lhs := 0; rhs := [NT 1] |}; {| lhs := 1; rhs := [NT 1; T 2; NT 1] |}; {| lhs := 1; rhs := [T 3] |} ].
Example g3_conflict :
  match gen_run g3 2 4 (default_symbols g3) [0; 1; 2; 3] [] 0 20 with GenConflict _ _ c => c = [(4, 2)] | _ => False end.
Proof. vm_compute. reflexivity. Qed.

End GenExamples.

Print Assumptions gen_auto_valid.
Print Assumptions gen_canonical.
Print Assumptions gen_no_conflict.
Print Assumptions gen_valid_backward.
Print Assumptions gen_valid_forward.
Print Assumptions gen_lr_valid.
Print Assumptions gen_x_checks.
Print Assumptions tables_valid_backward.
Print Assumptions tables_valid_forward.
Print Assumptions tables_x_checks.
Print Assumptions gen_accept_implies_sentence.
Print Assumptions gen_sentence_implies_accept.
Print Assumptions gen_no_panic.
Print Assumptions gen_terminates.
Print Assumptions closure_fuel_ok.
Print Assumptions gen_first_ok.
Print Assumptions gen_states_fuel_ok.
Print Assumptions gen_run_total.
Print Assumptions gen_conflict_canonical.
Print Assumptions gen_succeeds_iff_lr1.
Print Assumptions tables_x_checks_reach.
Print Assumptions gen_x_checks_reach.
Print Assumptions gen_terminates_reach.
