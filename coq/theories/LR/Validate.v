(** Boolean validator for LR tables against a grammar, with untrusted annotations
    (the item sets, nullable flags and FIRST sets gocc itself computed).

    [valid_backward] : what soundness / "no panic" need.
    [valid_forward]  : what completeness needs (closure, goto, forced actions).
    Theorems (Sound.v, Complete.v) are proved once for every grammar, table and annotation;
    per grammar the check is discharged by [vm_compute] on gocc's actual output.

    Definitions only. *)
From Coq Require Import List ZArith Bool Arith.
From Gocc Require Import LR.Parse.
Import ListNotations.

Definition item := (nat * nat * nat)%type.        (* production, dot position, look-ahead terminal *)

Record annot := {
  a_items : list (list item);                      (* per state *)
  a_nullable : list bool;                          (* per nonterminal *)
  a_first : list (list nat)                        (* per nonterminal: terminals *)
}.

Definition item_eqb (a b : item) : bool :=
  let '(p1, k1, l1) := a in let '(p2, k2, l2) := b in
  Nat.eqb p1 p2 && Nat.eqb k1 k2 && Nat.eqb l1 l2.

Definition mem_item (i : item) (l : list item) : bool := existsb (item_eqb i) l.
Definition mem_nat (n : nat) (l : list nat) : bool := existsb (Nat.eqb n) l.

Section V.
Variable g : grammar.
Variable tb : tables.
Variable an : annot.

Definition items_of (s : nat) : list item := nth s (a_items an) [].
Definition nstates : nat := length (t_states tb).
Definition nterms : nat := match t_states tb with [] => 0 | r :: _ => length (s_actions r) end.
Definition nnts : nat := match t_states tb with [] => 0 | r :: _ => length (s_gotos r) end.

Definition goto_nat (s nt : nat) : option nat :=
  match goto_at tb s nt with
  | Some z => if (z <? 0)%Z then None else Some (Z.to_nat z)
  | None => None
  end.

(** the transition function of the automaton the tables encode *)
Definition trans (s : nat) (X : sym) : option nat :=
  match X with
  | T a => match action_at tb s a with Some (Some (Shift s')) => Some s' | _ => None end
  | NT n => goto_nat s n
  end.

Definition forall_states (f : nat -> bool) : bool := forallb f (seq 0 nstates).
Definition forall_terms (f : nat -> bool) : bool := forallb f (seq 0 nterms).
Definition forall_nts (f : nat -> bool) : bool := forallb f (seq 0 nnts).

(** *** shape: every row has the same widths, targets are states, productions table matches the grammar *)
Definition shape_ok : bool :=
  (0 <? nstates) &&
  Nat.eqb (length (a_items an)) nstates &&
  forallb (fun r => Nat.eqb (length (s_actions r)) nterms && Nat.eqb (length (s_gotos r)) nnts &&
                    forallb (fun a => match a with
                                      | Some (Shift s') => s' <? nstates
                                      | Some (Reduce p) => p <? length g
                                      | _ => true end) (s_actions r) &&
                    forallb (fun z => (z <? Z.of_nat nstates)%Z) (s_gotos r)) (t_states tb) &&
  Nat.eqb (length (t_prods tb)) (length g) &&
  forallb (fun pq => Nat.eqb (p_nt (fst pq)) (lhs (snd pq)) && Nat.eqb (p_len (fst pq)) (length (rhs (snd pq))) &&
                     (lhs (snd pq) <? nnts) &&
                     forallb (fun X => match X with T a => a <? nterms | NT n => n <? nnts end) (rhs (snd pq)))
          (combine (t_prods tb) g) &&
  (1 <? nterms) && (t_err tb <? nterms).

(** *** backward conditions *)
(** entry symbol of a state, read off the annotation: the symbol before the dot of any kernel item *)
Definition entry_sym (s : nat) : option sym :=
  match filter (fun i => match i with (_, k, _) => negb (Nat.eqb k 0) end) (items_of s) with
  | (p, k, _) :: _ => match nth_error g p with Some pr => nth_error (rhs pr) (k - 1) | None => None end
  | [] => None
  end.

Definition b_init : bool := forallb (fun i => match i with (_, k, _) => Nat.eqb k 0 end) (items_of 0).

(** every transition s -X-> s' : all kernel items of s' have X before the dot and their retreat is in s *)
Definition kernel_ok (s : nat) (X : sym) (s' : nat) : bool :=
  negb (Nat.eqb s' 0) &&
  existsb (fun i => match i with (_, k, _) => negb (Nat.eqb k 0) end) (items_of s') &&
  forallb (fun i => match i with
                    | (p, S k, la) =>
                      match nth_error g p with
                      | Some pr => match nth_error (rhs pr) k with
                                   | Some Y => sym_eqb X Y && mem_item (p, k, la) (items_of s)
                                   | None => false end
                      | None => false end
                    | (_, O, _) => true
                    end) (items_of s').

Definition b_trans : bool :=
  forall_states (fun s =>
    forall_terms (fun a => match trans s (T a) with Some s' => kernel_ok s (T a) s' | None => true end) &&
    forall_nts (fun n => match trans s (NT n) with Some s' => kernel_ok s (NT n) s' | None => true end)).

Definition b_actions : bool :=
  forall_states (fun s => forall_terms (fun a =>
    match action_at tb s a with
    | Some (Some (Reduce p)) =>
      match nth_error g p with Some pr => mem_item (p, length (rhs pr), a) (items_of s) && negb (Nat.eqb p 0) | None => false end
    | Some (Some Accept) =>
      Nat.eqb a EOFT &&
      match nth_error g 0 with Some pr => Nat.eqb (length (rhs pr)) 1 && mem_item (0, 1, EOFT) (items_of s) | None => false end
    | Some (Some (Shift _)) => negb (Nat.eqb a EOFT)
    | _ => true
    end)).

(** a dot-0 item's head has a goto (needed for "no panic"); the start item only in state 0 *)
Definition b_demand : bool :=
  forall_states (fun s => forallb (fun i => match i with
    | (p, O, _) => if Nat.eqb p 0 then Nat.eqb s 0
                   else match nth_error g p with
                        | Some pr => match goto_nat s (lhs pr) with Some _ => true | None => false end
                        | None => false end
    | _ => true end) (items_of s)).

Definition items_wf : bool :=
  forall_states (fun s => forallb (fun i => match i with (p, k, la) =>
    match nth_error g p with Some pr => (k <=? length (rhs pr)) && (la <? nterms) | None => false end end) (items_of s)).

Definition valid_backward : bool := shape_ok && items_wf && b_init && b_trans && b_actions && b_demand.

(** no state shifts the error terminal: recovery can never trigger (grammars without error alternatives) *)
Definition no_error_shift : bool :=
  forall_states (fun s => match action_at tb s (t_err tb) with Some (Some (Shift _)) => false | _ => true end).

(** *** forward conditions *)
Definition nullable_nt (n : nat) : bool := nth n (a_nullable an) false.
Definition first_nt (n : nat) : list nat := nth n (a_first an) [].
Definition nullable_sym (X : sym) : bool := match X with T _ => false | NT n => nullable_nt n end.
Definition first_sym (X : sym) : list nat := match X with T a => [a] | NT n => first_nt n end.

(** FIRST of a sentential suffix followed by the look-ahead [la] *)
Fixpoint first_seq (gamma : list sym) (la : nat) : list nat :=
  match gamma with
  | [] => [la]
  | X :: rest => first_sym X ++ (if nullable_sym X then first_seq rest la else [])
  end.

(** the annotated nullable flags and FIRST sets are closed under the grammar's rules
    (so they contain the true ones) *)
Fixpoint first_closed_rhs (n : nat) (gamma : list sym) : bool :=
  match gamma with
  | [] => true
  | X :: rest => forallb (fun a => mem_nat a (first_nt n)) (first_sym X) &&
                 (if nullable_sym X then first_closed_rhs n rest else true)
  end.
Definition f_first : bool :=
  forallb (fun pr => (if forallb nullable_sym (rhs pr) then nullable_nt (lhs pr) else true) &&
                     first_closed_rhs (lhs pr) (rhs pr)) g.

Definition f_start : bool := mem_item (0, 0, EOFT) (items_of 0).

Definition prods_of (n : nat) : list nat :=
  map fst (filter (fun ip => Nat.eqb (lhs (snd ip)) n) (combine (seq 0 (length g)) g)).

Definition f_closure : bool :=
  forall_states (fun s => forallb (fun i => match i with (p, k, la) =>
    match nth_error g p with
    | Some pr =>
      match nth_error (rhs pr) k with
      | Some (NT B) =>
        forallb (fun q => forallb (fun b => mem_item (q, 0, b) (items_of s))
                                  (first_seq (skipn (S k) (rhs pr)) la)) (prods_of B)
      | _ => true
      end
    | None => false
    end end) (items_of s)).

Definition f_goto : bool :=
  forall_states (fun s => forallb (fun i => match i with (p, k, la) =>
    match nth_error g p with
    | Some pr =>
      match nth_error (rhs pr) k with
      | Some X => match trans s X with
                  | Some s' => mem_item (p, S k, la) (items_of s')
                  | None => false end
      | None => (* complete item: the action is forced *)
        match action_at tb s la with
        | Some (Some (Reduce q)) => Nat.eqb q p && negb (Nat.eqb p 0)
        | Some (Some Accept) => Nat.eqb p 0 && Nat.eqb la EOFT
        | _ => false
        end
      end
    | None => false
    end end) (items_of s)).

Definition valid_forward : bool := shape_ok && items_wf && f_first && f_start && f_closure && f_goto.

Definition lr_valid : bool := valid_backward && valid_forward && no_error_shift.

End V.
