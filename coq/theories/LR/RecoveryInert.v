(** Property C07, part 4: inertness of error recovery on inputs without syntax errors.

    - [C07_inert]: for tables passing [valid_forward] (conflict-free tables of the FULL grammar,
      error alternatives included; nothing is assumed about recovery flags), on an input that has
      a parse tree the run is: [size t] Shift/Reduce moves, none through the nil-action branch
      (the only place where [error_step] is called), then Accept; result, log and number of
      scans are the post-order evaluation of the tree.
    - [C07_inert_compare]: "exactly as if those alternatives were absent": tables [tb2] of a
      grammar [g2] whose productions are embedded in [g1] by a renumbering [rho] (e.g. [g2] =
      [g1] without the alternatives beginning with the error symbol), the same user code
      ([sem2 i p = sem1 i (rho p)]): on every sentence of [g2] both parsers return the same
      value, the same number of scans and the same log of action calls up to [rho].
    - [teval_err_free]: no error attribute appears in the result or in any argument list when
      the user actions create none. *)
From Coq Require Import List Arith ZArith Lia Bool.
From Gocc Require Import LR.Parse LR.Validate LR.Trees LR.Complete LR.Steps LR.CompleteSteps.
Import ListNotations.

Theorem C07_inert :
  forall g tb an sem input,
    valid_forward g tb an = true -> start_fresh g = true ->
    (forall i p kids, sem i p kids <> None) ->
    forall pr0 X0 t, nth_error g 0 = Some pr0 -> rhs pr0 = [X0] -> wt g X0 t input ->
    (* the result is the post-order evaluation of the tree *)
    (forall fuel, size t + 1 <= fuel ->
       parse tb sem input fuel =
         let '(v, _, lg) := teval tb sem t 0 [] in
         {| r_out := POk v; r_log := rev lg; r_scans := S (length input) |}) /\
    (* in particular never an error, whatever the fuel *)
    (forall fuel e, r_out (parse tb sem input fuel) <> PErr e) /\
    (* and recovery is not even entered: every configuration of the run before the accepting
       one has a Shift or Reduce action for its look-ahead *)
    (exists cN, steps tb sem input (size t) cfg0 = Some cN /\ accepting tb input cN /\
       forall m c1, m < size t -> steps tb sem input m cfg0 = Some c1 ->
         exists s act, top (c_st c1) = Some s /\
           action_at tb s (ttype (tok_at input (c_i c1))) = Some (Some act) /\ act <> Accept).
Proof.
  intros g tb an sem input V Hf Hs pr0 X0 t H0 Hr Hwt.
  destruct (lr_complete_no_recovery g tb an sem input V Hf Hs pr0 X0 t H0 Hr Hwt)
    as (cN & Hst & Hacc & Hno & Hex).
  split; [exact Hex|]. split; [|exists cN; auto].
  intros fuel e He.
  (* run with fuel: follows the same path; it either runs out of fuel or accepts *)
  destruct (Nat.le_gt_cases (size t + 1) fuel) as [Hle|Hgt].
  - rewrite (Hex fuel Hle) in He. destruct (teval tb sem t 0 []) as [[v c] lg]. discriminate.
  - rewrite parse_crunc in He.
    assert (Hpre : exists c1, steps tb sem input fuel cfg0 = Some c1).
    { replace (size t) with (fuel + (size t - fuel)) in Hst by lia.
      destruct (steps_prefix tb sem input _ _ _ _ Hst) as (c1 & H1 & _). eauto. }
    destruct Hpre as [c1 H1].
    pose proof (crunc_steps tb sem input fuel 0 cfg0 c1 H1) as Hc. rewrite Nat.add_0_r in Hc.
    rewrite Hc in He. discriminate.
Qed.

(** * No error attribute without recovery *)
Fixpoint err_free (a : attr) : bool :=
  match a with
  | ATok _ => true
  | ANode _ kids => forallb err_free kids
  | ANil => true
  | AErr _ _ _ => false
  end.

Definition sem_err_free (sem : nat -> nat -> list attr -> option attr) : Prop :=
  forall i p kids a, forallb err_free kids = true -> sem i p kids = Some a -> err_free a = true.

Lemma sem_node_err_free fail : sem_err_free (sem_node fail).
Proof.
  intros i p kids a Hk H. unfold sem_node in H.
  assert (Ha : a = ANode p kids).
  { destruct fail as [k|]; [destruct (Nat.eqb i k); [discriminate|]|]; now inversion H. }
  subst a. exact Hk.
Qed.

Definition log_err_free (lg : alog) : Prop := Forall (fun e => forallb err_free (snd e) = true) lg.

Section ErrFree.
Variable tb : tables.
Variable sem : nat -> nat -> list attr -> option attr.
Hypothesis SEF : sem_err_free sem.

Lemma red_result_err_free p vs c lg v c' lg' :
  forallb err_free vs = true -> log_err_free lg ->
  red_result tb sem p vs c lg = (v, c', lg') -> err_free v = true /\ log_err_free lg'.
Proof.
  intros Hvs Hlg H. unfold red_result in H.
  destruct (nth_error (t_prods tb) p) as [pw|]; [|inversion H; subst; auto].
  destruct (p_act pw).
  - inversion H; subst. split; [|constructor; auto].
    destruct (sem c p vs) as [a|] eqn:E; [eapply SEF; eauto|reflexivity].
  - inversion H; subst. split; [|exact Hlg].
    destruct vs as [|k r]; [reflexivity|]. simpl in Hvs. apply andb_true_iff in Hvs. tauto.
Qed.

Lemma teval_err_free_both :
  forall t,
  (forall c lg v c' lg', log_err_free lg -> teval tb sem t c lg = (v, c', lg') ->
     err_free v = true /\ log_err_free lg').
Proof.
  fix IH 1. intros [tk|p kids] c lg v c' lg' Hlg H.
  - simpl in H. inversion H; subst. auto.
  - rewrite teval_node in H.
    assert (Hks : forall ks c lg vs c' lg', log_err_free lg -> tevals tb sem ks c lg = (vs, c', lg') ->
              forallb err_free vs = true /\ log_err_free lg').
    { clear - IH. induction ks as [|k ks IHks]; intros c lg vs c' lg' Hlg H.
      - simpl in H. inversion H; subst. auto.
      - rewrite tevals_cons in H.
        destruct (teval tb sem k c lg) as [[v1 c1] lg1] eqn:E1.
        destruct (tevals tb sem ks c1 lg1) as [[vs2 c2] lg2] eqn:E2.
        inversion H; subst.
        destruct (IH k _ _ _ _ _ Hlg E1) as [Hv1 Hl1].
        destruct (IHks _ _ _ _ _ Hl1 E2) as [Hv2 Hl2].
        split; [simpl; now rewrite Hv1, Hv2|exact Hl2]. }
    destruct (tevals tb sem kids c lg) as [[vs c1] lg1] eqn:Ev.
    destruct (Hks _ _ _ _ _ _ Hlg Ev) as [Hvs Hl1].
    eapply red_result_err_free; eauto.
Qed.

Theorem teval_err_free t v c' lg' :
  teval tb sem t 0 [] = (v, c', lg') -> err_free v = true /\ log_err_free lg'.
Proof. apply teval_err_free_both. constructor. Qed.

End ErrFree.

(** * Comparison with the tables of the grammar without the error alternatives *)
Fixpoint rename (rho : nat -> nat) (t : tree) : tree :=
  match t with
  | Leaf tk => Leaf tk
  | Node p kids => Node (rho p) (map (rename rho) kids)
  end.

Definition ren (rho : nat -> nat) (e : nat * list attr) : nat * list attr := (rho (fst e), snd e).

Section Compare.
Variables (g1 g2 : grammar) (tb1 tb2 : tables).
Variable sem1 : nat -> nat -> list attr -> option attr.
Variable rho : nat -> nat.

(** every production of [g2] is production [rho p] of [g1] ... *)
Hypothesis EMB : forall p pr, nth_error g2 p = Some pr -> nth_error g1 (rho p) = Some pr.
(** ... with the same kind of action (explicit or default) *)
Hypothesis ACT : forall p pr, nth_error g2 p = Some pr ->
  exists pw1 pw2, nth_error (t_prods tb1) (rho p) = Some pw1 /\ nth_error (t_prods tb2) p = Some pw2 /\
                  p_act pw1 = p_act pw2.

Definition sem2 : nat -> nat -> list attr -> option attr := fun i p kids => sem1 i (rho p) kids.

Lemma rename_wt :
  (forall X t w, wt g2 X t w -> wt g1 X (rename rho t) w) /\
  (forall gamma ts w, wts g2 gamma ts w -> wts g1 gamma (map (rename rho) ts) w).
Proof.
  apply wt_wts_min.
  - intros t. simpl. constructor.
  - intros p pr kids w Hp _ IH. cbn [rename]. econstructor; [apply EMB; exact Hp|exact IH].
  - constructor.
  - intros X ss t ts w1 w2 _ IH1 _ IH2. cbn [map]. constructor; assumption.
Qed.

Lemma rename_size : forall t, size (rename rho t) = size t.
Proof.
  fix IH 1. intros [tk|p kids]; [reflexivity|].
  cbn [rename]. change (size (Node (rho p) (map (rename rho) kids))) with (S (sizes (map (rename rho) kids))).
  change (size (Node p kids)) with (S (sizes kids)). f_equal.
  induction kids as [|k ks IHks]; [reflexivity|].
  cbn [map]. change (sizes (rename rho k :: map (rename rho) ks)) with (size (rename rho k) + sizes (map (rename rho) ks)).
  change (sizes (k :: ks)) with (size k + sizes ks). now rewrite IH, IHks.
Qed.

Lemma rename_teval :
  (forall X t w, wt g2 X t w -> forall c lg,
     teval tb1 sem1 (rename rho t) c (map (ren rho) lg) =
     let '(v, c', lg') := teval tb2 sem2 t c lg in (v, c', map (ren rho) lg')) /\
  (forall gamma ts w, wts g2 gamma ts w -> forall c lg,
     tevals tb1 sem1 (map (rename rho) ts) c (map (ren rho) lg) =
     let '(vs, c', lg') := tevals tb2 sem2 ts c lg in (vs, c', map (ren rho) lg')).
Proof.
  apply wt_wts_min.
  - intros t c lg. reflexivity.
  - intros p pr kids w Hp _ IH c lg. cbn [rename]. rewrite !teval_node, IH.
    destruct (tevals tb2 sem2 kids c lg) as [[vs c1] lg1].
    destruct (ACT _ _ Hp) as (pw1 & pw2 & H1 & H2 & Ha).
    unfold red_result. rewrite H1, H2, Ha. destruct (p_act pw2); reflexivity.
  - intros c lg. reflexivity.
  - intros X ss t ts w1 w2 _ IH1 _ IH2 c lg. cbn [map]. rewrite !tevals_cons, IH1.
    destruct (teval tb2 sem2 t c lg) as [[v c1] lg1]. rewrite IH2.
    destruct (tevals tb2 sem2 ts c1 lg1) as [[vs c2] lg2]. reflexivity.
Qed.

End Compare.

Theorem C07_inert_compare :
  forall g1 tb1 an1 g2 tb2 an2 sem1 rho input,
    valid_forward g1 tb1 an1 = true -> start_fresh g1 = true ->
    valid_forward g2 tb2 an2 = true -> start_fresh g2 = true ->
    (forall i p kids, sem1 i p kids <> None) ->
    (forall p pr, nth_error g2 p = Some pr -> nth_error g1 (rho p) = Some pr) ->
    (forall p pr, nth_error g2 p = Some pr ->
       exists pw1 pw2, nth_error (t_prods tb1) (rho p) = Some pw1 /\
                       nth_error (t_prods tb2) p = Some pw2 /\ p_act pw1 = p_act pw2) ->
    rho 0 = 0 ->
    forall pr0 X0 t, nth_error g2 0 = Some pr0 -> rhs pr0 = [X0] -> wt g2 X0 t input ->
    forall fuel, size t + 1 <= fuel ->
      let r1 := parse tb1 sem1 input fuel in
      let r2 := parse tb2 (sem2 sem1 rho) input fuel in
      r_out r1 = r_out r2 /\ (exists v, r_out r1 = POk v) /\
      r_log r1 = map (ren rho) (r_log r2) /\ r_scans r1 = r_scans r2.
Proof.
  intros g1 tb1 an1 g2 tb2 an2 sem1 rho input V1 F1 V2 F2 Hs EMB ACT R0 pr0 X0 t H0 Hr Hwt fuel Hfuel.
  assert (Hs2 : forall i p kids, sem2 sem1 rho i p kids <> None) by (intros i p kids; apply Hs).
  pose proof (lr_complete_exact g2 tb2 an2 _ input V2 F2 Hs2 pr0 X0 t H0 Hr Hwt fuel Hfuel) as E2.
  pose proof (proj1 (rename_wt g1 g2 rho EMB) _ _ _ Hwt) as Hwt1.
  assert (H01 : nth_error g1 0 = Some pr0) by (rewrite <- R0; apply EMB; exact H0).
  assert (Hfuel1 : size (rename rho t) + 1 <= fuel) by (now rewrite rename_size).
  pose proof (lr_complete_exact g1 tb1 an1 sem1 input V1 F1 Hs pr0 X0 _ H01 Hr Hwt1 fuel Hfuel1) as E1.
  pose proof (proj1 (rename_teval g2 tb1 tb2 sem1 rho ACT) _ _ _ Hwt 0 []) as Ht.
  cbn [map] in Ht. rewrite Ht in E1.
  destruct (teval tb2 (sem2 sem1 rho) t 0 []) as [[v c'] lg'].
  cbv zeta. rewrite E1, E2. cbn [r_out r_log r_scans].
  split; [reflexivity|]. split; [eauto|]. split; [symmetry; apply map_rev|reflexivity].
Qed.

Print Assumptions C07_inert.
Print Assumptions teval_err_free.
Print Assumptions C07_inert_compare.
