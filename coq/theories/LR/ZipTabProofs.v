(** Proofs for the compressed action table model: decoding an encoded row gives the row
    back ([decode_encode_row]), whole tables likewise ([decode_encode_table]), and decoding
    does not depend on the order of triples with pairwise distinct indices
    ([decode_row_perm], [decode_encode_row_perm]). *)
From Coq Require Import List Arith Lia Permutation.
From Gocc Require Import LR.Parse LR.ZipTab.
Import ListNotations.

Lemma decode_cell_code : forall a, decode_cell (act_code a) (act_amount a) = Some a.
Proof. intros [s|p|]; reflexivity. Qed.

Lemma set_nth_app : forall (A : Type) (pre : list A) x v rest,
  set_nth (length pre) v (pre ++ x :: rest) = pre ++ v :: rest.
Proof.
  induction pre as [|y pre IH]; intros x v rest; simpl; [reflexivity|].
  rewrite IH. reflexivity.
Qed.

Lemma decode_encode_from : forall r pre,
  fold_left decode_step (encode_from (length pre) r) (pre ++ repeat None (length r))
  = pre ++ r.
Proof.
  induction r as [|[a|] r IH]; intros pre.
  - reflexivity.
  - cbn [encode_from length repeat fold_left].
    unfold decode_step at 2. cbn [fst snd]. rewrite decode_cell_code.
    rewrite set_nth_app.
    replace (pre ++ Some a :: repeat None (length r))
      with ((pre ++ [Some a]) ++ repeat None (length r))
      by (rewrite <- app_assoc; reflexivity).
    replace (S (length pre)) with (length (pre ++ [Some a]))
      by (rewrite app_length; simpl; lia).
    rewrite IH. rewrite <- app_assoc. reflexivity.
  - cbn [encode_from length repeat].
    replace (pre ++ None :: repeat None (length r))
      with ((pre ++ [None]) ++ repeat None (length r))
      by (rewrite <- app_assoc; reflexivity).
    replace (S (length pre)) with (length (pre ++ [@None act]))
      by (rewrite app_length; simpl; lia).
    rewrite IH. rewrite <- app_assoc. reflexivity.
Qed.

(** C12 (action table): the table rebuilt by init() from the encoded triples is the table
    that the uncompressed generator would have emitted. *)
Theorem decode_encode_row : forall r, decode_row (length r) (encode_row r) = r.
Proof. intros r. exact (decode_encode_from r []). Qed.

Theorem decode_encode_table : forall n tab,
  Forall (fun r => length (snd r) = n) tab ->
  decode_table n (encode_table tab) = tab.
Proof.
  intros n tab H. unfold decode_table, encode_table. rewrite map_map.
  induction H as [|[b r] tab Hr H IH]; [reflexivity|].
  cbn [map]. rewrite IH. cbn [fst snd] in Hr |- *. subst n.
  rewrite decode_encode_row. reflexivity.
Qed.

(** the number of triples is the number of non-ERROR cells *)
Lemma encode_from_length : forall r j,
  length (encode_from j r) = length (filter (fun c => match c with Some _ => true | None => false end) r).
Proof.
  induction r as [|[a|] r IH]; intros j; simpl; [reflexivity| |]; rewrite IH; reflexivity.
Qed.

(* ------------------------------------------------------------------------- *)
(** * Indices of an encoded row: in range, strictly increasing, hence distinct *)

Definition idx (t : nat * nat * nat) : nat := fst (fst t).

Lemma encode_from_indices : forall r j t,
  In t (encode_from j r) -> j <= idx t < j + length r.
Proof.
  induction r as [|[a|] r IH]; intros j t H; simpl in H.
  - contradiction.
  - destruct H as [<-|H].
    + unfold idx. simpl. lia.
    + apply IH in H. simpl. lia.
  - apply IH in H. simpl. lia.
Qed.

Theorem encode_row_indices : forall r t, In t (encode_row r) -> idx t < length r.
Proof. intros r t H. apply encode_from_indices in H. lia. Qed.

Lemma encode_from_nodup : forall r j, NoDup (map idx (encode_from j r)).
Proof.
  induction r as [|[a|] r IH]; intros j; simpl.
  - constructor.
  - constructor; [|apply IH].
    intros H. apply in_map_iff in H. destruct H as [t [E H]].
    apply encode_from_indices in H. unfold idx in *. simpl in E. lia.
  - apply IH.
Qed.

Theorem encode_row_nodup : forall r, NoDup (map idx (encode_row r)).
Proof. intros r. apply encode_from_nodup. Qed.

(* ------------------------------------------------------------------------- *)
(** * Order independence of decoding *)

Lemma set_nth_comm : forall (A : Type) (l : list A) i j v w,
  i <> j -> set_nth i v (set_nth j w l) = set_nth j w (set_nth i v l).
Proof.
  induction l as [|x l IH]; intros i j v w H; [reflexivity|].
  destruct i as [|i], j as [|j]; simpl; try reflexivity.
  - congruence.
  - rewrite IH by congruence. reflexivity.
Qed.

Lemma decode_step_comm : forall row t1 t2,
  idx t1 <> idx t2 ->
  decode_step (decode_step row t1) t2 = decode_step (decode_step row t2) t1.
Proof.
  intros row [[i1 c1] n1] [[i2 c2] n2] H. unfold idx in H. simpl in H.
  unfold decode_step. cbn [fst snd].
  destruct (decode_cell c1 n1), (decode_cell c2 n2); try reflexivity.
  apply set_nth_comm. congruence.
Qed.

Lemma fold_decode_perm : forall ts ts',
  Permutation ts ts' -> NoDup (map idx ts) ->
  forall row, fold_left decode_step ts row = fold_left decode_step ts' row.
Proof.
  induction 1 as [|x l l' HP IH|x y l|l l' l'' H1 IH1 H2 IH2]; intros ND row.
  - reflexivity.
  - simpl. apply IH. inversion ND; assumption.
  - simpl. rewrite decode_step_comm; [reflexivity|].
    simpl in ND. inversion ND as [|? ? Hn _]; subst.
    intros E. apply Hn. left. symmetry. exact E.
  - rewrite IH1 by exact ND. apply IH2.
    apply (Permutation_NoDup (Permutation_map idx H1)). exact ND.
Qed.

Theorem decode_row_perm : forall n ts ts',
  Permutation ts ts' -> NoDup (map idx ts) -> decode_row n ts = decode_row n ts'.
Proof. intros n ts ts' H ND. unfold decode_row. apply fold_decode_perm; assumption. Qed.

(** the triples of an encoded row may be stored/transported in any order *)
Corollary decode_encode_row_perm : forall r ts,
  Permutation (encode_row r) ts -> decode_row (length r) ts = r.
Proof.
  intros r ts H. rewrite <- (decode_row_perm _ _ _ H (encode_row_nodup r)).
  apply decode_encode_row.
Qed.

(* ------------------------------------------------------------------------- *)
(** * Examples *)

Example ex_encode :
  encode_row [None; Some (Shift 4); None; Some (Reduce 7); Some Accept; None]
  = [(1, 2, 4); (3, 1, 7); (4, 0, 0)].
Proof. vm_compute. reflexivity. Qed.

Example ex_decode :
  decode_row 6 [(1, 2, 4); (3, 1, 7); (4, 0, 0)]
  = [None; Some (Shift 4); None; Some (Reduce 7); Some Accept; None].
Proof. vm_compute. reflexivity. Qed.

(** unknown action code: cell left nil; later triples with the same index overwrite *)
Example ex_decode_unknown_and_overwrite :
  decode_row 3 [(0, 5, 9); (1, 1, 2); (1, 2, 8)] = [None; Some (Shift 8); None].
Proof. vm_compute. reflexivity. Qed.

Example ex_roundtrip_empty : decode_row 0 (encode_row []) = [].
Proof. vm_compute. reflexivity. Qed.

Print Assumptions decode_encode_row.
Print Assumptions decode_encode_table.
Print Assumptions decode_row_perm.
Print Assumptions decode_encode_row_perm.
Print Assumptions encode_row_indices.
