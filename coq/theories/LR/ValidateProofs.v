(** Reflection of the boolean validator conditions into propositions. *)
From Coq Require Import List Arith ZArith Lia Bool.
From Gocc Require Import LR.Parse LR.Validate.
Import ListNotations.

Lemma sym_eqb_eq a b : sym_eqb a b = true <-> a = b.
Proof. destruct a, b; simpl; rewrite ?Nat.eqb_eq; split; intro H; try discriminate; try congruence. Qed.

Lemma item_eqb_eq a b : item_eqb a b = true <-> a = b.
Proof.
  destruct a as [[p1 k1] l1], b as [[p2 k2] l2]. unfold item_eqb.
  rewrite !andb_true_iff, !Nat.eqb_eq. split; [intros [[-> ->] ->]; reflexivity|intros H; inversion H; auto].
Qed.

Lemma mem_item_In i l : mem_item i l = true <-> In i l.
Proof.
  unfold mem_item. rewrite existsb_exists. split.
  - intros [x [Hin Hx]]. apply item_eqb_eq in Hx. subst. exact Hin.
  - intros H. exists i. split; [exact H|apply item_eqb_eq; reflexivity].
Qed.

Lemma mem_nat_In n l : mem_nat n l = true <-> In n l.
Proof.
  unfold mem_nat. rewrite existsb_exists. split.
  - intros [x [Hin Hx]]. apply Nat.eqb_eq in Hx. subst. exact Hin.
  - intros H. exists n. split; [exact H|apply Nat.eqb_refl].
Qed.

Lemma forallb_seq f n : forallb f (seq 0 n) = true <-> forall i, i < n -> f i = true.
Proof.
  rewrite forallb_forall. split.
  - intros H i Hi. apply H. apply in_seq. lia.
  - intros H i Hi. apply in_seq in Hi. apply H. lia.
Qed.

Section R.
Variable g : grammar.
Variable tb : tables.
Variable an : annot.

Notation items_of := (items_of an).
Notation nstates := (nstates tb).
Notation nterms := (nterms tb).
Notation nnts := (nnts tb).

(** ** shape *)
Record shape_P : Prop := {
  sh_pos : 0 < nstates;
  sh_items : length (a_items an) = nstates;
  sh_rows : forall s r, nth_error (t_states tb) s = Some r ->
            length (s_actions r) = nterms /\ length (s_gotos r) = nnts /\
            (forall a s', nth_error (s_actions r) a = Some (Some (Shift s')) -> s' < nstates) /\
            (forall a p, nth_error (s_actions r) a = Some (Some (Reduce p)) -> p < length g) /\
            (forall n z, nth_error (s_gotos r) n = Some z -> (z < Z.of_nat nstates)%Z);
  sh_prods : forall p, (exists pr, nth_error g p = Some pr) <-> (exists pw, nth_error (t_prods tb) p = Some pw);
  sh_prod : forall p pr pw, nth_error g p = Some pr -> nth_error (t_prods tb) p = Some pw ->
            p_nt pw = lhs pr /\ p_len pw = length (rhs pr) /\ lhs pr < nnts /\
            (forall X, In X (rhs pr) -> match X with T a => a < nterms | NT n => n < nnts end);
  sh_terms : 1 < nterms;
  sh_err : t_err tb < nterms
}.

Lemma shape_ok_P : shape_ok g tb an = true -> shape_P.
Proof.
  unfold shape_ok. rewrite !andb_true_iff.
  intros [[[[[[H1 H2] H3] H4] H5] H6] H7].
  apply Nat.ltb_lt in H1. apply Nat.eqb_eq in H2. apply Nat.eqb_eq in H4.
  apply Nat.ltb_lt in H6. apply Nat.ltb_lt in H7.
  rewrite forallb_forall in H3. rewrite forallb_forall in H5.
  constructor; auto.
  - intros s r Hr. specialize (H3 r (nth_error_In _ _ Hr)).
    rewrite !andb_true_iff in H3. destruct H3 as [[[Ha Hb] Hc] Hd].
    apply Nat.eqb_eq in Ha. apply Nat.eqb_eq in Hb.
    rewrite forallb_forall in Hc. rewrite forallb_forall in Hd.
    split; [exact Ha|]. split; [exact Hb|]. split; [|split].
    + intros a s' Hn. specialize (Hc _ (nth_error_In _ _ Hn)). simpl in Hc. apply Nat.ltb_lt in Hc. exact Hc.
    + intros a p Hn. specialize (Hc _ (nth_error_In _ _ Hn)). simpl in Hc. apply Nat.ltb_lt in Hc. exact Hc.
    + intros n z Hn. specialize (Hd _ (nth_error_In _ _ Hn)). apply Z.ltb_lt in Hd. exact Hd.
  - intros p. split; intros [x Hx].
    + assert (p < length (t_prods tb)) by (rewrite H4; apply nth_error_Some; congruence).
      destruct (nth_error (t_prods tb) p) eqn:E; [eauto|]. apply nth_error_None in E. lia.
    + assert (p < length g) by (rewrite <- H4; apply nth_error_Some; congruence).
      destruct (nth_error g p) eqn:E; [eauto|]. apply nth_error_None in E. lia.
  - intros p pr pw Hg Ht.
    assert (Hin : In (pw, pr) (combine (t_prods tb) g)).
    { clear - Hg Ht. revert p g Hg Ht. generalize (t_prods tb) as l.
      induction l as [|x l IH]; intros p g0 Hg Ht; destruct p; simpl in *; try discriminate.
      - destruct g0; simpl in *; [discriminate|]. inversion Hg; inversion Ht; subst. left; reflexivity.
      - destruct g0; simpl in *; [discriminate|]. right. eapply IH; eauto. }
    specialize (H5 _ Hin). simpl in H5. rewrite !andb_true_iff in H5. destruct H5 as [[[Ha Hb] Hc] Hd].
    apply Nat.eqb_eq in Ha. apply Nat.eqb_eq in Hb. apply Nat.ltb_lt in Hc.
    rewrite forallb_forall in Hd.
    repeat split; auto. intros X HX. specialize (Hd X HX). destruct X; apply Nat.ltb_lt in Hd; exact Hd.
Qed.

Hypothesis SH : shape_P.

Lemma items_of_range s i : In i (items_of s) -> s < nstates.
Proof.
  unfold Validate.items_of. intros H.
  destruct (Nat.lt_ge_cases s nstates) as [Hlt|Hge]; [exact Hlt|].
  rewrite nth_overflow in H by (rewrite (sh_items SH); exact Hge). destruct H.
Qed.

Lemma action_at_range s a x : action_at tb s a = Some x -> s < nstates /\ a < nterms.
Proof.
  unfold action_at. destruct (nth_error (t_states tb) s) as [r|] eqn:E; [|discriminate].
  intros H. split.
  - apply nth_error_Some. congruence.
  - destruct (sh_rows SH s r E) as (Ha & _). rewrite <- Ha. apply nth_error_Some. congruence.
Qed.

Lemma goto_nat_range s n s' : goto_nat tb s n = Some s' -> s < nstates /\ n < nnts /\ s' < nstates.
Proof.
  unfold goto_nat, goto_at. destruct (nth_error (t_states tb) s) as [r|] eqn:E; [|discriminate].
  destruct (nth_error (s_gotos r) n) as [z|] eqn:E2; [|discriminate].
  destruct (z <? 0)%Z eqn:Ez; [discriminate|]. intros H; inversion H; subst.
  destruct (sh_rows SH s r E) as (_ & Hb & _ & _ & Hz). apply Z.ltb_ge in Ez.
  split; [apply nth_error_Some; congruence|]. split.
  - rewrite <- Hb. apply nth_error_Some. congruence.
  - specialize (Hz _ _ E2). lia.
Qed.

Lemma trans_range s X s' : trans tb s X = Some s' ->
  s < nstates /\ s' < nstates /\ match X with T a => a < nterms | NT n => n < nnts end.
Proof.
  destruct X as [a|n]; simpl.
  - destruct (action_at tb s a) as [[[s2|p|]|]|] eqn:E; try discriminate. intros H; inversion H; subst.
    destruct (action_at_range _ _ _ E) as [H1 H2]. repeat split; auto.
    unfold action_at in E. destruct (nth_error (t_states tb) s) as [r|] eqn:Er; [|discriminate].
    destruct (sh_rows SH s r Er) as (_ & _ & Hs & _). eapply Hs; eauto.
  - intros H. destruct (goto_nat_range _ _ _ H) as (H1 & H2 & H3). auto.
Qed.

(** ** backward conditions *)
Record backward_P : Prop := {
  B_init : forall p k la, In (p, k, la) (items_of 0) -> k = 0;
  B_kernel : forall s X s', trans tb s X = Some s' ->
             s' <> 0 /\
             forall p k la, In (p, S k, la) (items_of s') ->
               exists pr, nth_error g p = Some pr /\ nth_error (rhs pr) k = Some X /\ In (p, k, la) (items_of s);
  B_reduce : forall s a p, action_at tb s a = Some (Some (Reduce p)) ->
             p <> 0 /\ exists pr, nth_error g p = Some pr /\ In (p, length (rhs pr), a) (items_of s);
  B_accept : forall s a, action_at tb s a = Some (Some Accept) ->
             a = EOFT /\ exists pr, nth_error g 0 = Some pr /\ length (rhs pr) = 1 /\ In (0, 1, EOFT) (items_of s);
  B_shift : forall s a s', action_at tb s a = Some (Some (Shift s')) -> a <> EOFT;
  B_start0 : forall s la, In (0, 0, la) (items_of s) -> s = 0;
  B_demand : forall s p la pr, In (p, 0, la) (items_of s) -> p <> 0 -> nth_error g p = Some pr ->
             exists s', goto_nat tb s (lhs pr) = Some s';
  B_items : forall s p k la, In (p, k, la) (items_of s) ->
            exists pr, nth_error g p = Some pr /\ k <= length (rhs pr) /\ la < nterms
}.

Lemma valid_backward_P : valid_backward g tb an = true -> backward_P.
Proof.
  unfold valid_backward. rewrite !andb_true_iff. intros [[[[[Hs Hiw] Hi] Ht] Ha] Hd].
  unfold items_wf, forall_states in Hiw. rewrite forallb_seq in Hiw.
  unfold b_init in Hi. rewrite forallb_forall in Hi.
  unfold b_trans, forall_states in Ht. rewrite forallb_seq in Ht.
  unfold b_actions, forall_states in Ha. rewrite forallb_seq in Ha.
  unfold b_demand, forall_states in Hd. rewrite forallb_seq in Hd.
  constructor.
  - intros p k la Hin. specialize (Hi _ Hin). simpl in Hi. apply Nat.eqb_eq in Hi. exact Hi.
  - intros s X s' Htr. destruct (trans_range _ _ _ Htr) as (Hs1 & Hs2 & HX).
    specialize (Ht s Hs1). rewrite andb_true_iff in Ht. destruct Ht as [Ht1 Ht2].
    assert (Hk : kernel_ok g an s X s' = true).
    { destruct X as [a|n].
      - unfold forall_terms in Ht1. rewrite forallb_seq in Ht1. specialize (Ht1 a HX). rewrite Htr in Ht1. exact Ht1.
      - unfold forall_nts in Ht2. rewrite forallb_seq in Ht2. specialize (Ht2 n HX). rewrite Htr in Ht2. exact Ht2. }
    unfold kernel_ok in Hk. rewrite !andb_true_iff in Hk. destruct Hk as [[Hk1 _] Hk3].
    split; [intros ->; simpl in Hk1; discriminate|].
    intros p k la Hin. rewrite forallb_forall in Hk3. specialize (Hk3 _ Hin). simpl in Hk3.
    destruct (nth_error g p) as [pr|]; [|discriminate].
    destruct (nth_error (rhs pr) k) as [Y|] eqn:EY; [|discriminate].
    rewrite andb_true_iff in Hk3. destruct Hk3 as [He Hm]. apply sym_eqb_eq in He. subst Y.
    apply mem_item_In in Hm. exists pr. auto.
  - intros s a p Hact. destruct (action_at_range _ _ _ Hact) as [Hs1 Ha1].
    specialize (Ha s Hs1). unfold forall_terms in Ha. rewrite forallb_seq in Ha. specialize (Ha a Ha1).
    rewrite Hact in Ha. destruct (nth_error g p) as [pr|]; [|discriminate].
    rewrite andb_true_iff in Ha. destruct Ha as [Hm Hp]. apply mem_item_In in Hm.
    split; [intros ->; discriminate|]. exists pr; auto.
  - intros s a Hact. destruct (action_at_range _ _ _ Hact) as [Hs1 Ha1].
    specialize (Ha s Hs1). unfold forall_terms in Ha. rewrite forallb_seq in Ha. specialize (Ha a Ha1).
    rewrite Hact in Ha. rewrite andb_true_iff in Ha. destruct Ha as [He Hr]. apply Nat.eqb_eq in He.
    split; [exact He|]. destruct (nth_error g 0) as [pr|]; [|discriminate].
    rewrite andb_true_iff in Hr. destruct Hr as [Hl Hm]. apply Nat.eqb_eq in Hl. apply mem_item_In in Hm.
    exists pr; auto.
  - intros s a s' Hact. destruct (action_at_range _ _ _ Hact) as [Hs1 Ha1].
    specialize (Ha s Hs1). unfold forall_terms in Ha. rewrite forallb_seq in Ha. specialize (Ha a Ha1).
    rewrite Hact in Ha. intros ->. discriminate.
  - intros s la Hin. pose proof (items_of_range _ _ Hin) as Hs1. specialize (Hd s Hs1).
    rewrite forallb_forall in Hd. specialize (Hd _ Hin). simpl in Hd. apply Nat.eqb_eq in Hd. exact Hd.
  - intros s p la pr Hin Hp Hg. pose proof (items_of_range _ _ Hin) as Hs1. specialize (Hd s Hs1).
    rewrite forallb_forall in Hd. specialize (Hd _ Hin). simpl in Hd.
    destruct (Nat.eqb p 0) eqn:E; [apply Nat.eqb_eq in E; contradiction|].
    rewrite Hg in Hd. destruct (goto_nat tb s (lhs pr)) as [s'|]; [eauto|discriminate].
  - intros s p k la Hin. pose proof (items_of_range _ _ Hin) as Hs1. specialize (Hiw s Hs1).
    rewrite forallb_forall in Hiw. specialize (Hiw _ Hin). simpl in Hiw.
    destruct (nth_error g p) as [pr|]; [|discriminate]. rewrite andb_true_iff in Hiw. destruct Hiw as [H1 H2].
    apply Nat.leb_le in H1. apply Nat.ltb_lt in H2. exists pr. auto.
Qed.

Lemma no_error_shift_P : no_error_shift tb = true ->
  forall s s', action_at tb s (t_err tb) <> Some (Some (Shift s')).
Proof.
  unfold no_error_shift, forall_states. rewrite forallb_seq. intros H s s' Hact.
  destruct (action_at_range _ _ _ Hact) as [Hs1 _]. specialize (H s Hs1). rewrite Hact in H. discriminate.
Qed.

End R.
