(** Post-order evaluation of the action expressions over a parse tree (the specification side
    of C03): each explicit action is called exactly once per node of its alternative, after all
    actions of the node's children, children left to right; the call counter and the log of
    calls are threaded through.  Definitions and basic lemmas. *)
From Coq Require Import List Arith Lia Bool.
From Gocc Require Import LR.Parse LR.Trees.
Import ListNotations.

Definition calllog := list (nat * list attr).

Inductive eres (A : Type) :=
| EOk (a : A) (c : nat) (log : calllog)       (* value, next call index, log of calls so far *)
| EFail (i : nat) (log : calllog).            (* the i-th call failed; log includes it as last entry *)
Arguments EOk {A}. Arguments EFail {A}.

Section Eval.
Variable tb : tables.
Variable sem : nat -> nat -> list attr -> option attr.

(** one reduction: explicit action, or the default (first attribute; nil for an empty body) *)
Definition apply_action (p : nat) (kids : list attr) (c : nat) (log : calllog) : eres attr :=
  match nth_error (t_prods tb) p with
  | None => EFail c log
  | Some pr =>
    if p_act pr then
      match sem c p kids with
      | Some a => EOk a (S c) (log ++ [(p, kids)])
      | None => EFail c (log ++ [(p, kids)])
      end
    else EOk (match kids with [] => ANil | k :: _ => k end) c log
  end.

Fixpoint eval (t : tree) (c : nat) (log : calllog) : eres attr :=
  match t with
  | Leaf tk => EOk (ATok tk) c log          (* a terminal's attribute is the token object itself *)
  | Node p kids =>
    match (fix evals (ks : list tree) (c : nat) (log : calllog) : eres (list attr) :=
             match ks with
             | [] => EOk [] c log
             | k :: ks' =>
               match eval k c log with
               | EFail i l => EFail i l
               | EOk a c' l' =>
                 match evals ks' c' l' with
                 | EFail i l => EFail i l
                 | EOk vs c'' l'' => EOk (a :: vs) c'' l''
                 end
               end
             end) kids c log with
    | EFail i l => EFail i l
    | EOk vs c' l' => apply_action p vs c' l'
    end
  end.

Fixpoint evals (ks : list tree) (c : nat) (log : calllog) : eres (list attr) :=
  match ks with
  | [] => EOk [] c log
  | k :: ks' =>
    match eval k c log with
    | EFail i l => EFail i l
    | EOk a c' l' =>
      match evals ks' c' l' with
      | EFail i l => EFail i l
      | EOk vs c'' l'' => EOk (a :: vs) c'' l''
      end
    end
  end.

Lemma eval_node p kids c log :
  eval (Node p kids) c log =
  match evals kids c log with
  | EFail i l => EFail i l
  | EOk vs c' l' => apply_action p vs c' l'
  end.
Proof.
  cbn [eval].
  assert (H : forall ks c log,
    (fix evals (ks : list tree) (c : nat) (log : calllog) : eres (list attr) :=
             match ks with
             | [] => EOk [] c log
             | k :: ks' =>
               match eval k c log with
               | EFail i l => EFail i l
               | EOk a c' l' =>
                 match evals ks' c' l' with
                 | EFail i l => EFail i l
                 | EOk vs c'' l'' => EOk (a :: vs) c'' l''
                 end
               end
             end) ks c log = evals ks c log).
  { induction ks as [|k ks IH]; intros c0 log0; [reflexivity|].
    cbn [evals]. destruct (eval k c0 log0); [|reflexivity]. rewrite IH. reflexivity. }
  rewrite H. reflexivity.
Qed.

Lemma evals_app a b c log :
  evals (a ++ b) c log =
  match evals a c log with
  | EFail i l => EFail i l
  | EOk va c' l' =>
    match evals b c' l' with
    | EFail i l => EFail i l
    | EOk vb c'' l'' => EOk (va ++ vb) c'' l''
    end
  end.
Proof.
  revert c log. induction a as [|k a IH]; intros c log; cbn [evals app].
  - destruct (evals b c log); reflexivity.
  - destruct (eval k c log) as [v c' l'|]; [|reflexivity]. rewrite IH.
    destruct (evals a c' l') as [va c'' l''|]; [|reflexivity].
    destruct (evals b c'' l''); reflexivity.
Qed.

Lemma evals_length ks : forall c log vs c' l', evals ks c log = EOk vs c' l' -> length vs = length ks.
Proof.
  induction ks as [|k ks IH]; intros c log vs c' l' H; cbn [evals] in H.
  - inversion H; reflexivity.
  - destruct (eval k c log) as [v c1 l1|]; [|discriminate].
    destruct (evals ks c1 l1) as [va c2 l2|] eqn:E; [|discriminate].
    inversion H; subst. simpl. f_equal. eapply IH; eauto.
Qed.

End Eval.
