(** Property C07: non-vacuity examples, and a non-canonical table on which the recovery loop
    of the generated parser runs for ever.

    Terminals: 0 INVALID, 1 end of input, 2 [a], 3 [;], 4 [error].
    Nonterminals: 0 S', 1 L, 2 St.
      0: S' -> L       1: L -> St      2: L -> L St      3: St -> a ;      4: St -> error ;      *)
From Coq Require Import List Arith ZArith Lia Bool.
From Gocc Require Import LR.Parse LR.Validate LR.Trees LR.Complete LR.Derive LR.Steps LR.Exact
  LR.CompleteSteps LR.Recovery LR.RecoveryToks LR.RecoveryInert LR.RecoveryTerm.
Import ListNotations.

Module RecoveryExample.

Definition rx_g : grammar :=
  [ {| lhs := 0; rhs := [NT 1] |};
    {| lhs := 1; rhs := [NT 2] |};
    {| lhs := 1; rhs := [NT 1; NT 2] |};
    {| lhs := 2; rhs := [T 2; T 3] |};
    {| lhs := 2; rhs := [T 4; T 3] |} ].

Definition red (p : nat) : list (option act) :=
  [None; Some (Reduce p); Some (Reduce p); None; Some (Reduce p)].
Definition nogo : list Z := [(-1)%Z; (-1)%Z; (-1)%Z].

(** canonical LR(1) tables, made by hand (the recovery flag = "shifts the error terminal") *)
Definition rx_tb : tables := {|
  t_states := [
    {| s_actions := [None; None; Some (Shift 3); None; Some (Shift 4)]; s_recover := true;
       s_gotos := [(-1)%Z; 1%Z; 2%Z] |};
    {| s_actions := [None; Some Accept; Some (Shift 3); None; Some (Shift 4)]; s_recover := true;
       s_gotos := [(-1)%Z; (-1)%Z; 5%Z] |};
    {| s_actions := red 1; s_recover := false; s_gotos := nogo |};
    {| s_actions := [None; None; None; Some (Shift 6); None]; s_recover := false; s_gotos := nogo |};
    {| s_actions := [None; None; None; Some (Shift 7); None]; s_recover := false; s_gotos := nogo |};
    {| s_actions := red 2; s_recover := false; s_gotos := nogo |};
    {| s_actions := red 3; s_recover := false; s_gotos := nogo |};
    {| s_actions := red 4; s_recover := false; s_gotos := nogo |} ];
  t_prods := [ {| p_nt := 0; p_len := 1; p_act := false |};
               {| p_nt := 1; p_len := 1; p_act := true |};
               {| p_nt := 1; p_len := 2; p_act := true |};
               {| p_nt := 2; p_len := 2; p_act := true |};
               {| p_nt := 2; p_len := 2; p_act := true |} ];
  t_err := 4; t_gate := false |}.

Definition las (p k : nat) : list item := [(p, k, 1); (p, k, 2); (p, k, 4)].

Definition rx_an : annot := {|
  a_items := [
    [(0,0,1); (1,0,1); (2,0,1); (1,0,2); (1,0,4); (2,0,2); (2,0,4)] ++ las 3 0 ++ las 4 0;
    [(0,1,1)] ++ las 2 1 ++ las 3 0 ++ las 4 0;
    las 1 1; las 3 1; las 4 1; las 2 2; las 3 2; las 4 2 ];
  a_nullable := [false; false; false];
  a_first := [[2; 4]; [2; 4]; [2; 4]] |}.

(** all the boolean checks used by the C07 theorems hold *)
Example rx_checks :
  valid_backward rx_g rx_tb rx_an && valid_forward rx_g rx_tb rx_an && x_canon rx_g rx_tb rx_an &&
  x_recover' rx_tb && x_recover_conv rx_tb && negb (t_gate rx_tb) && start_fresh rx_g &&
  x_checks rx_g rx_tb rx_an = true.
Proof. vm_compute. reflexivity. Qed.

Definition tk (ty i : nat) : token := {| ttype := ty; tid := i |}.

(** "a ; ; a ;" : the second [;] is the offending token.  The two cells above state 0 are
    discarded into the error attribute, the offending token itself is the first acceptable token
    after [error] (nothing is skipped) and is then shifted; the parse continues and accepts. *)
Example rx_recovers :
  parse rx_tb (sem_node None) (canon [2; 3; 3; 2; 3]) 30 =
  {| r_out := POk (ANode 2 [ANode 1 [ANode 4 [AErr (tk 3 2) [ATok (tk 2 0); ATok (tk 3 1)] [2; 4]; ATok (tk 3 2)]];
                            ANode 3 [ATok (tk 2 3); ATok (tk 3 4)]]);
     r_log := [(4, [AErr (tk 3 2) [ATok (tk 2 0); ATok (tk 3 1)] [2; 4]; ATok (tk 3 2)]);
               (1, [ANode 4 [AErr (tk 3 2) [ATok (tk 2 0); ATok (tk 3 1)] [2; 4]; ATok (tk 3 2)]]);
               (3, [ATok (tk 2 3); ATok (tk 3 4)]);
               (2, [ANode 1 [ANode 4 [AErr (tk 3 2) [ATok (tk 2 0); ATok (tk 3 1)] [2; 4]; ATok (tk 3 2)]];
                    ANode 3 [ATok (tk 2 3); ATok (tk 3 4)]])];
     r_scans := 6 |}.
Proof. vm_compute. reflexivity. Qed.

(** "a a ;" : the second [a] is the offending token; the first [a] is discarded, the offending
    token is skipped (it is not acceptable after [error]), [;] is the new look-ahead *)
Example rx_skips :
  parse rx_tb (sem_node None) (canon [2; 2; 3]) 30 =
  {| r_out := POk (ANode 1 [ANode 4 [AErr (tk 2 1) [ATok (tk 2 0)] [2; 4]; ATok (tk 3 2)]]);
     r_log := [(4, [AErr (tk 2 1) [ATok (tk 2 0)] [2; 4]; ATok (tk 3 2)]);
               (1, [ANode 4 [AErr (tk 2 1) [ATok (tk 2 0)] [2; 4]; ATok (tk 3 2)]])];
     r_scans := 4 |}.
Proof. vm_compute. reflexivity. Qed.

(** the same as a statement about [error_step] *)
Example rx_error_step :
  error_step rx_tb (canon [2; 2; 3]) 4 [(3, ATok (tk 2 0)); (0, ANil)] (tk 2 1) 2 =
  Recovered [(4, AErr (tk 2 1) [ATok (tk 2 0)] [2; 4]); (0, ANil)] (tk 3 2) 3.
Proof. vm_compute. reflexivity. Qed.

(** "a a" : the input ends before a token acceptable after [error] is found: the error is
    returned, with the offending token (number 1), the state reached by shifting [error] and its
    expected terminals; no action was called *)
Example rx_gives_up :
  parse rx_tb (sem_node None) (canon [2; 2]) 30 =
  {| r_out := PErr {| e_action := None; e_tok := tk 2 1; e_expected := [3]; e_top := 4 |};
     r_log := []; r_scans := 3 |}.
Proof. vm_compute. reflexivity. Qed.

(** three errors in one input: "a a ; ; a": the second [a], the second [;] (both recovered) and
    the end of the input (given up: the state shown is the one reached by shifting [error]) *)
Example rx_twice :
  r_out (parse rx_tb (sem_node None) (canon [2; 2; 3; 3; 2]) 40) =
  PErr {| e_action := None; e_tok := tk 1 5; e_expected := [3]; e_top := 4 |}.
Proof. vm_compute. reflexivity. Qed.

(** the general theorems instantiated *)
Lemma rx_parts :
  valid_backward rx_g rx_tb rx_an = true /\ valid_forward rx_g rx_tb rx_an = true /\
  x_canon rx_g rx_tb rx_an = true.
Proof. repeat split; vm_compute; reflexivity. Qed.

Lemma canon_from_lt n : forall tys i,
  Forall (fun ty => ty < n) tys -> Forall (fun t => ttype t < n) (canon_from i tys).
Proof.
  intros tys i H. revert i. induction H as [|ty r Hty Hr IH]; intros i; cbn [canon_from]; constructor; [exact Hty|apply IH].
Qed.

Corollary rx_total : forall sem tys,
  Forall (fun ty => ty < 5) tys ->
  exists fuel0, forall fuel, fuel0 <= fuel ->
    exists res, r_out (parse rx_tb sem (canon tys) fuel) = res /\
                ((exists v, res = POk v) \/ (exists e, res = PErr e)).
Proof.
  intros sem tys Hty. destruct rx_parts as (VB & VF & XC).
  apply (C07_terminates rx_g rx_tb rx_an sem (canon tys) VB VF XC).
  change (nterms rx_tb) with 5. apply canon_from_lt. exact Hty.
Qed.

End RecoveryExample.

(** * Why a validity hypothesis is needed for termination *)
Module LoopExample.
(** Terminals: 0 INVALID, 1 end of input, 2 [x], 3 [error].   0: S' -> A     1: A -> error

    The tables below are NOT canonical: state 1 (after [error]) reduces [A -> error] also on
    look-ahead [x], which can never follow [A].  They still pass [valid_backward] and
    [valid_forward] with an annotation that contains the unjustified item [A -> . error, x] in
    state 0; it is [x_closure] that rejects it.

    On the input "x": state 0 has no action on [x]: error; state 0 shifts [error] to state 1; [x]
    is acceptable there (the bogus Reduce): recovered, nothing skipped; reduce, goto state 2;
    state 2 has no action on [x]: error; pop to state 0, shift [error], [x] is acceptable ... for
    ever, the same look-ahead and the same states, the attributes nesting deeper and deeper. *)
Definition lp_g : grammar := [ {| lhs := 0; rhs := [NT 1] |}; {| lhs := 1; rhs := [T 3] |} ].

Definition lp_tb : tables := {|
  t_states := [
    {| s_actions := [None; None; None; Some (Shift 1)]; s_recover := true; s_gotos := [(-1)%Z; 2%Z] |};
    {| s_actions := [None; Some (Reduce 1); Some (Reduce 1); None]; s_recover := false;
       s_gotos := [(-1)%Z; (-1)%Z] |};
    {| s_actions := [None; Some Accept; None; None]; s_recover := false; s_gotos := [(-1)%Z; (-1)%Z] |} ];
  t_prods := [ {| p_nt := 0; p_len := 1; p_act := false |}; {| p_nt := 1; p_len := 1; p_act := true |} ];
  t_err := 3; t_gate := false |}.

Definition lp_an : annot := {|
  a_items := [ [(0,0,1); (1,0,1); (1,0,2)]; [(1,1,1); (1,1,2)]; [(0,1,1)] ];
  a_nullable := [false; false];
  a_first := [[3]; [3]] |}.

Example lp_checks :
  valid_backward lp_g lp_tb lp_an && valid_forward lp_g lp_tb lp_an &&
  x_recover' lp_tb && x_recover_conv lp_tb && start_fresh lp_g &&
  x_null lp_g lp_an && x_first lp_g lp_tb lp_an && x_prod lp_g lp_tb lp_an = true
  /\ x_closure lp_g lp_tb lp_an = false.
Proof. split; vm_compute; reflexivity. Qed.

Definition tx : token := {| ttype := 2; tid := 0 |}.
Definition is_fuel (r : result) : bool := match r_out r with PFuel => true | _ => false end.

(** out of fuel for every amount of fuel up to 200 ... *)
Example lp_loops_200 :
  forallb (fun fuel => is_fuel (parse lp_tb (sem_node None) [tx] fuel)) (seq 0 201) = true.
Proof. vm_compute. reflexivity. Qed.

(** ... and indeed for every amount: the configuration (state 2 over state 0, look-ahead [x],
    one scan done) repeats every two moves, with a bigger attribute *)
Lemma lp_cycle sem f a calls log :
  (forall i p kids, sem i p kids <> None) ->
  exists a' log',
    run lp_tb sem [tx] (S (S f)) [(2, a); (0, ANil)] tx 1 calls log =
    run lp_tb sem [tx] f [(2, a'); (0, ANil)] tx 1 (S calls) log'.
Proof.
  intros Hs. cbn [run top lp_tb action_at nth_error t_states s_actions ttype tx].
  change (error_step lp_tb [tx] (S (length [tx])) [(2, a); (0, ANil)] tx 1)
    with (Recovered [(1, AErr tx [a] [3]); (0, ANil)] tx 1).
  cbn [run top lp_tb action_at nth_error t_states s_actions ttype tx t_prods p_len p_act p_nt
       length Nat.ltb Nat.leb firstn skipn map snd rev app goto_at s_gotos Z.ltb Z.compare Z.to_nat Pos.to_nat Pos.iter_op Nat.add].
  destruct (sem calls 1 [AErr tx [a] [3]]) as [v|] eqn:E; [|exfalso; eapply Hs; eauto].
  eexists v, _. reflexivity.
Qed.

Theorem lp_loops_forever : forall fuel,
  r_out (parse lp_tb (sem_node None) [tx] fuel) = PFuel.
Proof.
  assert (Hs : forall i p kids, sem_node None i p kids <> None) by (intros; discriminate).
  assert (H : forall n fuel, fuel <= n -> forall a calls log,
            r_out (run lp_tb (sem_node None) [tx] fuel [(2, a); (0, ANil)] tx 1 calls log) = PFuel).
  { induction n as [|n IH]; intros fuel Hf a calls log.
    - replace fuel with 0 by lia. reflexivity.
    - destruct fuel as [|[|f]]; [reflexivity|reflexivity|].
      destruct (lp_cycle (sem_node None) f a calls log Hs) as (a' & log' & E). rewrite E.
      apply IH. lia. }
  intros fuel. destruct fuel as [|[|f]]; try reflexivity.
  (* two moves lead from the initial configuration to the cycle *)
  change (parse lp_tb (sem_node None) [tx] (S (S f)))
    with (run lp_tb (sem_node None) [tx] f [(2, ANode 1 [AErr tx [] [3]]); (0, ANil)] tx 1 1
              [(1, [AErr tx [] [3]])]).
  apply (H f f (le_n _)).
Qed.

End LoopExample.

Print Assumptions RecoveryExample.rx_total.
Print Assumptions LoopExample.lp_loops_forever.
