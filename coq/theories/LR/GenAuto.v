(** The generator of Gen.v in the mode [-a] (automatic conflict resolution): same FIRST sets, same item sets,
    same numbering; a cell of the action table is the WINNER of [Resolve.row_action] over the candidate
    actions of the state's items (ItemSet.Action), whatever the conflict set; generation is refused only when
    resolution itself is refused (an Accept competes: Go panics).  Definitions only (proofs: GenAutoProofs.v).

    Go sources modelled in addition to Gen.v:
      - internal/parser/lr1/items/itemset.go   ItemSet.Action (the fold, with conflicts recorded)   -> Canonical.cell
      - internal/parser/gen/golang/actiontable.go  (cells written whether or not a conflict was recorded)
      - main.go handleConflicts ("n LR-1 conflicts": the number of states with a recorded conflict) -> [a_conflicts] *)
From Coq Require Import List ZArith Bool Arith.
From Gocc Require Import LR.Parse LR.Validate LR.Derive LR.Exact LR.Resolve LR.Canonical LR.Gen.
Import ListNotations.

Section GenAuto.
Variable g : grammar.
Variable nn : nat.
Variable ntm : nat.
Variable symbols : list sym.
Variable la_order : list nat.
Variable p_acts : list bool.
Variable terr : nat.

Section Tables.
Variable an : annot.
Variable tr : transitions.

(** [None] = resolution refused (Go panics) *)
Definition action_cell_auto (s a : nat) : option (option act) :=
  match cell g an tr s a with
  | Some (w, _) => Some w
  | None => None
  end.

Definition action_row_auto (s : nat) : option (list (option act)) :=
  all_some (map (action_cell_auto s) (seq 0 ntm)).

Definition gen_row_auto (s : nat) : option srow :=
  match action_row_auto s with
  | None => None
  | Some acts => Some {| s_actions := acts; s_recover := can_recover g terr (items_of an s); s_gotos := goto_row nn tr s |}
  end.

(** the number gocc announces: states with at least one cell whose conflict set is not empty *)
Definition a_conflicts : nat := length (filter (state_conflict g ntm an tr) (seq 0 (length (a_items an)))).
End Tables.

Inductive gen_auto_result :=
| AutoOk (tb : tables) (an : annot) (tr : transitions) (nconf : nat)
| AutoRefused (an : annot) (tr : transitions)     (* some cell: Accept competes with another action *)
| AutoIllFormed
| AutoFirstUnstable
| AutoFuel.

Definition gen_run_auto (fuel : nat) : gen_auto_result :=
  if negb (gen_wf g nn ntm symbols la_order terr) then AutoIllFormed else
  match gen_first g nn with
  | None => AutoFirstUnstable
  | Some (N, F) =>
    match gen_states_an g symbols la_order {| a_items := []; a_nullable := N; a_first := F |} fuel with
    | None => AutoFuel
    | Some (sts, trs) =>
      let an := {| a_items := sts; a_nullable := N; a_first := F |} in
      match all_some (map (gen_row_auto an trs) (seq 0 (length sts))) with
      | None => AutoRefused an trs
      | Some rows =>
        AutoOk {| t_states := rows; t_prods := gen_prods g p_acts; t_err := terr; t_gate := false |} an trs
               (a_conflicts an trs)
      end
    end
  end.

End GenAuto.

(** The exit status of gocc as far as the syntax part decides it (main.go handleConflicts + the panic in
    ResolveConflict): [None] = the model could not decide (ill-formed input, out of fuel). *)
Definition gocc_exit (g : grammar) (nn ntm : nat) (symbols : list sym) (la_order : list nat) (p_acts : list bool)
                     (terr : nat) (auto : bool) (fuel : nat) : option nat :=
  match gen_run_auto g nn ntm symbols la_order p_acts terr fuel with
  | AutoOk _ _ _ n => Some (if auto then 0 else if Nat.eqb n 0 then 0 else 1)
  | AutoRefused _ _ => Some 2
  | _ => None
  end.
