(** Property C04, proofs: the automaton dumped by gocc, once it passes [auto_valid], IS the
    canonical LR(1) collection ([auto_canonical]); hence gocc announces conflicts exactly when
    the canonical collection has one ([C04_reports], [C04_panics], [C04_conflict_iff]). *)
From Coq Require Import List Arith Bool Lia.
From Gocc Require Import LR.Parse LR.Validate LR.ValidateProofs LR.Complete LR.Derive LR.Exact
                         LR.Resolve LR.ResolveProofs LR.Canonical.
Import ListNotations.

Scheme first_s_min := Minimality for first_s Sort Prop
  with first_ss_min := Minimality for first_ss Sort Prop.
Combined Scheme first_s_ss_min from first_s_min, first_ss_min.

(** * A. Nullable and FIRST: the annotations are exact *)
Section First.
Variable g : grammar.
Variable an : annot.

Notation der := (der g).
Notation ders := (ders g).

Section Closed.
Hypothesis FF : f_first g an = true.

Lemma f_first_rule pr : In pr g ->
  (forallb (nullable_sym an) (rhs pr) = true -> nullable_nt an (lhs pr) = true) /\
  first_closed_rhs an (lhs pr) (rhs pr) = true.
Proof.
  intros Hin. pose proof FF as Hf. unfold f_first in Hf.
  rewrite forallb_forall in Hf. specialize (Hf _ Hin). apply andb_true_iff in Hf.
  destruct Hf as [H1 H2]. split; [|assumption]. intros Hn. now rewrite Hn in H1.
Qed.

Lemma null_closed :
  (forall X u, der X u -> u = [] -> nullable_sym an X = true) /\
  (forall gamma u, ders gamma u -> u = [] -> forallb (nullable_sym an) gamma = true).
Proof.
  apply der_ders_min.
  - discriminate.
  - intros p pr u Hp _ IH Hu. simpl. apply (f_first_rule pr (nth_error_In _ _ Hp)). now apply IH.
  - reflexivity.
  - intros X gamma u v _ IH1 _ IH2 Huv. apply app_eq_nil in Huv. destruct Huv as [-> ->].
    simpl. now rewrite IH1, IH2.
Qed.

Lemma nullable_seq_la : forall beta la, forallb (nullable_sym an) beta = true -> In la (first_seq an beta la).
Proof.
  induction beta as [|X beta IH]; intros la H; simpl in *; [now left|].
  apply andb_true_iff in H. destruct H as [H1 H2]. rewrite H1. apply in_or_app. right. now apply IH.
Qed.

Lemma first_closed :
  (forall X b, first_s g X b -> In b (first_sym an X)) /\
  (forall beta b, first_ss g beta b ->
     (forall n, first_closed_rhs an n beta = true -> In b (first_nt an n)) /\
     (forall la, In b (first_seq an beta la))).
Proof.
  apply first_s_ss_min.
  - intros a. simpl. now left.
  - intros p pr b Hp _ [IH _]. simpl. apply IH. apply (f_first_rule pr (nth_error_In _ _ Hp)).
  - intros X beta b _ IH. split.
    + intros n Hc. simpl in Hc. apply andb_true_iff in Hc. destruct Hc as [Hc _].
      rewrite forallb_forall in Hc. apply mem_nat_In. now apply Hc.
    + intros la. simpl. apply in_or_app. now left.
  - intros X beta b HX _ [IH1 IH2]. pose proof (proj1 null_closed _ _ HX eq_refl) as Hn. split.
    + intros n Hc. simpl in Hc. apply andb_true_iff in Hc. destruct Hc as [_ Hc].
      rewrite Hn in Hc. now apply IH1.
    + intros la. simpl. rewrite Hn. apply in_or_app. right. apply IH2.
Qed.

(** semantic FIRST is contained in the annotated one *)
Lemma FIRST_sem_closed beta la b : FIRST_sem g beta la b -> In b (first_seq an beta la).
Proof.
  intros [H|[H ->]].
  - apply (proj2 first_closed _ _ H).
  - apply nullable_seq_la. apply (proj2 null_closed _ _ H eq_refl).
Qed.

End Closed.

Section Exactness.
Hypothesis NUL : forall n, nullable_nt an n = true -> der (NT n) [].

Lemma first_rhs_s F :
  (forall m a, In a (nth m F []) -> first_s g (NT m) a) ->
  forall gamma a, In a (first_rhs an F gamma) -> first_ss g gamma a.
Proof.
  intros HF. induction gamma as [|X gamma IH]; intros a Hin; simpl in Hin; [destruct Hin|].
  destruct X as [b|m].
  - destruct Hin as [->|[]]. apply fss_here. constructor.
  - apply in_app_or in Hin. destruct Hin as [Hin|Hin].
    + apply fss_here. now apply HF.
    + destruct (nullable_nt an m) eqn:Hn; [|destruct Hin].
      apply fss_skip; [now apply NUL|now apply IH].
Qed.

Lemma cfirst_iter_sound nn : forall k n a, In a (nth n (cfirst_iter g an nn k) []) -> first_s g (NT n) a.
Proof.
  induction k as [|k IH]; intros n a H; simpl in H.
  - destruct n; destruct H.
  - unfold cfirst_step in H. apply nth_map_seq_In in H. apply dedup_In in H.
    apply in_flat_map in H. destruct H as (pr & Hpr & H).
    destruct (Nat.eqb (lhs pr) n) eqn:E; [|destruct H]. apply Nat.eqb_eq in E. subst n.
    destruct (In_nth_error _ _ Hpr) as [p Hp]. econstructor; [exact Hp|].
    eapply first_rhs_s; eauto.
Qed.

Lemma c_first_P : c_first g an = true -> forall n a, In a (first_nt an n) -> first_s g (NT n) a.
Proof.
  unfold c_first. intros H n a Ha. rewrite forallb_forall in H.
  assert (Hlt : n < length (a_first an)).
  { destruct (Nat.lt_ge_cases n (length (a_first an))) as [|Hge]; [assumption|].
    unfold first_nt in Ha. rewrite nth_overflow in Ha by assumption. destruct Ha. }
  specialize (H n). rewrite forallb_forall in H.
  eapply cfirst_iter_sound. apply mem_nat_In. apply H; [apply in_seq; lia|exact Ha].
Qed.

(** annotated FIRST of a suffix followed by a look-ahead is contained in the semantic one *)
Lemma first_seq_sem :
  (forall n a, In a (first_nt an n) -> first_s g (NT n) a) ->
  forall beta la b, In b (first_seq an beta la) -> FIRST_sem g beta la b.
Proof.
  intros FX. induction beta as [|X beta IH]; intros la b Hin; simpl in Hin.
  - destruct Hin as [->|[]]. right. split; [constructor|reflexivity].
  - apply in_app_or in Hin. destruct Hin as [Hin|Hin].
    + left. apply fss_here. destruct X as [a|m]; simpl in Hin.
      * destruct Hin as [->|[]]. constructor.
      * now apply FX.
    + destruct (nullable_sym an X) eqn:Hn; [|destruct Hin].
      destruct X as [a|m]; [discriminate|]. simpl in Hn. apply NUL in Hn.
      destruct (IH _ _ Hin) as [H|[H ->]].
      * left. now apply fss_skip.
      * right. split; [|reflexivity]. change (@nil nat) with (@nil nat ++ []). now constructor.
Qed.

End Exactness.
End First.

(** ** Adequacy of [first_ss]: it is FIRST in the sentential-form sense *)
Section Adequacy.
Variable g : grammar.
Notation der := (der g).
Notation ders := (ders g).
Notation sder := (sder g).
Notation sstep := (sstep g).

Lemma sstep_ctx l r a b : sstep a b -> sstep (l ++ a ++ r) (l ++ b ++ r).
Proof.
  intros [alpha p pr rest Hp].
  replace (l ++ (alpha ++ NT (lhs pr) :: rest) ++ r) with ((l ++ alpha) ++ NT (lhs pr) :: (rest ++ r))
    by (rewrite <- !app_assoc; reflexivity).
  replace (l ++ (alpha ++ rhs pr ++ rest) ++ r) with ((l ++ alpha) ++ rhs pr ++ (rest ++ r))
    by (rewrite <- !app_assoc; reflexivity).
  now apply (sstep_intro g _ p).
Qed.

Lemma sder_ctx l r a b : sder a b -> sder (l ++ a ++ r) (l ++ b ++ r).
Proof.
  induction 1 as [a|a b c Hs _ IH]; [constructor|].
  econstructor; [apply sstep_ctx; exact Hs|exact IH].
Qed.

Lemma sder_trans a b c : sder a b -> sder b c -> sder a c.
Proof. induction 1 as [a|a b' c' Hs _ IH]; intros H; [exact H|]. econstructor; eauto. Qed.

Lemma sder_prod p pr : nth_error g p = Some pr -> sder [NT (lhs pr)] (rhs pr).
Proof.
  intros Hp. econstructor; [|constructor].
  pose proof (sstep_intro g [] p pr [] Hp) as H. simpl in H. now rewrite app_nil_r in H.
Qed.

Lemma der_sder :
  (forall X u, der X u -> sder [X] (map T u)) /\
  (forall gamma u, ders gamma u -> sder gamma (map T u)).
Proof.
  apply der_ders_min.
  - intros a. constructor.
  - intros p pr u Hp _ IH. eapply sder_trans; [apply (sder_prod p pr Hp)|exact IH].
  - constructor.
  - intros X gamma u v _ IH1 _ IH2. rewrite map_app.
    eapply sder_trans.
    + pose proof (sder_ctx [] gamma _ _ IH1) as H. simpl in H. exact H.
    + pose proof (sder_ctx (map T u) [] _ _ IH2) as H. now rewrite !app_nil_r in H.
Qed.

Lemma first_ss_to_sder :
  (forall X b, first_s g X b -> exists delta, sder [X] (T b :: delta)) /\
  (forall beta b, first_ss g beta b -> exists delta, sder beta (T b :: delta)).
Proof.
  apply first_s_ss_min.
  - intros a. exists []. constructor.
  - intros p pr b Hp _ [delta IH]. exists delta. eapply sder_trans; [apply (sder_prod p pr Hp)|exact IH].
  - intros X beta b _ [delta IH]. exists (delta ++ beta).
    pose proof (sder_ctx [] beta _ _ IH) as H. simpl in H. exact H.
  - intros X beta b HX _ [delta IH]. exists delta.
    eapply sder_trans; [|exact IH].
    pose proof (sder_ctx [] beta _ _ (proj1 der_sder _ _ HX)) as H. simpl in H. exact H.
Qed.

Lemma first_ss_app_inv : forall a b x, first_ss g (a ++ b) x ->
  first_ss g a x \/ (ders a [] /\ first_ss g b x).
Proof.
  induction a as [|Y a IH]; intros b x H; simpl in H.
  - right. split; [constructor|assumption].
  - inversion H as [? ? ? HY|? ? ? HY Hr]; subst.
    + left. now apply fss_here.
    + destruct (IH _ _ Hr) as [H1|[H1 H2]].
      * left. now apply fss_skip.
      * right. split; [|assumption]. change (@nil nat) with (@nil nat ++ []). now constructor.
Qed.

Lemma ders_nil_app_inv a b : ders (a ++ b) [] -> ders a [] /\ ders b [].
Proof.
  intros H. apply ders_app_inv in H. destruct H as (u & v & Huv & Ha & Hb).
  symmetry in Huv. apply app_eq_nil in Huv. destruct Huv as [-> ->]. split; assumption.
Qed.

Lemma sstep_null a b : sstep a b -> ders b [] -> ders a [].
Proof.
  intros [alpha p pr rest Hp] H.
  apply ders_nil_app_inv in H. destruct H as [H1 H]. apply ders_nil_app_inv in H. destruct H as [H2 H3].
  change (@nil nat) with (@nil nat ++ []). apply ders_app; [assumption|].
  change (@nil nat) with (@nil nat ++ []). constructor; [econstructor; eauto|assumption].
Qed.

Lemma sstep_first a b x : sstep a b -> first_ss g b x -> first_ss g a x.
Proof.
  intros [alpha p pr rest Hp]. induction alpha as [|Y alpha IH]; simpl; intros H.
  - destruct (first_ss_app_inv _ _ _ H) as [H1|[H1 H2]].
    + apply fss_here. econstructor; eauto.
    + apply fss_skip; [econstructor; eauto|assumption].
  - inversion H as [? ? ? HY|? ? ? HY Hr]; subst.
    + now apply fss_here.
    + apply fss_skip; [assumption|now apply IH].
Qed.

(** [first_ss beta b] iff [beta] derives a sentential form starting with terminal [b] *)
Theorem first_ss_sder beta b : first_ss g beta b <-> exists delta, sder beta (T b :: delta).
Proof.
  split; [apply (proj2 first_ss_to_sder)|].
  intros [delta H]. remember (T b :: delta) as c eqn:Hc.
  induction H as [a|a b' c Hs _ IH]; subst.
  - apply fss_here. constructor.
  - eapply sstep_first; [exact Hs|]. now apply IH.
Qed.

(** and nullability is derivability of the empty sentential form *)
Theorem ders_nil_sder beta : ders beta [] <-> sder beta [].
Proof.
  split; [intros H; apply (proj2 der_sder _ _ H)|].
  intros H. remember (@nil sym) as c eqn:Hc.
  induction H as [a|a b c Hs _ IH]; subst; [constructor|].
  eapply sstep_null; [exact Hs|]. now apply IH.
Qed.

End Adequacy.

(** * B. The dumped automaton is the canonical collection *)
Lemma assoc_In X l t : assoc X l = Some t -> In (X, t) l.
Proof.
  induction l as [|[Y u] l IH]; simpl; [discriminate|].
  destruct (sym_eqb X Y) eqn:E.
  - intros H. inversion H; subst. apply sym_eqb_eq in E. subst. now left.
  - intros H. right. now apply IH.
Qed.

Lemma path_from_snoc tr : forall gamma s X,
  path_from tr s (gamma ++ [X]) =
  match path_from tr s gamma with Some s1 => tr_at tr s1 X | None => None end.
Proof.
  induction gamma as [|Y gamma IH]; intros s X; simpl.
  - destruct (tr_at tr s X); reflexivity.
  - destruct (tr_at tr s Y) as [s'|]; [apply IH|reflexivity].
Qed.

Section Auto.
Variable g : grammar.
Variable nterms : nat.
Variable an : annot.
Variable tr : transitions.
Hypothesis AV : auto_valid g nterms an tr = true.

Notation items := (items_of an).
Notation nst := (nst an).

Lemma AV_parts :
  c_shape g nterms an tr = true /\ c_state0 an = true /\ f_first g an = true /\ x_null g an = true /\
  c_first g an = true /\ c_closed g an = true /\ c_just g an = true /\ c_goto_fwd g an tr = true /\
  c_goto_bwd g an tr = true /\ c_reach an tr = true.
Proof. pose proof AV as H. unfold auto_valid in H. rewrite !andb_true_iff in H. tauto. Qed.

Lemma forall_st_P f : forall_st an f = true -> forall s, s < nst -> f s = true.
Proof. unfold forall_st. rewrite forallb_seq. auto. Qed.

Lemma forall_items_P f : forall_items an f = true -> forall s it, s < nst -> In it (items s) -> f s it = true.
Proof.
  unfold forall_items. intros H s it Hs Hin. apply (forall_st_P _ H) in Hs.
  rewrite forallb_forall in Hs. now apply Hs.
Qed.

Lemma items_lt s it : In it (items s) -> s < nst.
Proof.
  intros H. destruct (Nat.lt_ge_cases s nst) as [|Hge]; [assumption|].
  unfold items_of in H. rewrite nth_overflow in H by assumption. destruct H.
Qed.

Lemma nst_pos : 0 < nst.
Proof.
  destruct AV_parts as (H & _). unfold c_shape in H. rewrite !andb_true_iff in H.
  destruct H as [[[[H _] _] _] _]. now apply Nat.ltb_lt in H.
Qed.

Lemma NULa : forall n, nullable_nt an n = true -> der g (NT n) [].
Proof. apply x_null_P. apply AV_parts. Qed.

Lemma FXa : forall n a, In a (first_nt an n) -> first_s g (NT n) a.
Proof. apply (c_first_P g an NULa). apply AV_parts. Qed.

(** state 0 *)
Lemma state0_start : In (0, 0, EOFT) (items 0).
Proof.
  destruct AV_parts as (_ & H & _). unfold c_state0 in H. apply andb_true_iff in H.
  apply mem_item_In. apply H.
Qed.

Lemma state0_dot0 p k la : In (p, k, la) (items 0) -> k = 0.
Proof.
  destruct AV_parts as (_ & H & _). unfold c_state0 in H. apply andb_true_iff in H.
  destruct H as [_ H]. rewrite forallb_forall in H. intros Hin. specialize (H _ Hin).
  simpl in H. now apply Nat.eqb_eq.
Qed.

(** closure *)
Lemma closed_P s p k la pr B q prq b :
  In (p, k, la) (items s) -> nth_error g p = Some pr -> nth_error (rhs pr) k = Some (NT B) ->
  nth_error g q = Some prq -> lhs prq = B -> In b (first_seq an (skipn (S k) (rhs pr)) la) ->
  In (q, 0, b) (items s).
Proof.
  intros Hin Hp Hk Hq HB Hb. destruct AV_parts as (_ & _ & _ & _ & _ & H & _).
  pose proof (forall_items_P _ H s _ (items_lt _ _ Hin) Hin) as Hc. cbv beta iota in Hc.
  rewrite Hp, Hk in Hc. rewrite forallb_forall in Hc. subst B.
  specialize (Hc _ (prods_of_spec g _ _ Hq)). rewrite forallb_forall in Hc.
  apply mem_item_In. now apply Hc.
Qed.

(** transitions, forward *)
Lemma goto_fwd_P s p k la pr X :
  In (p, k, la) (items s) -> nth_error g p = Some pr -> nth_error (rhs pr) k = Some X ->
  exists s', tr_at tr s X = Some s' /\ s' < nst /\ In (p, S k, la) (items s').
Proof.
  intros Hin Hp Hk. destruct AV_parts as (_ & _ & _ & _ & _ & _ & _ & H & _).
  pose proof (forall_items_P _ H s _ (items_lt _ _ Hin) Hin) as Hc. cbv beta iota in Hc.
  rewrite Hp, Hk in Hc. destruct (tr_at tr s X) as [s'|]; [|discriminate].
  apply andb_true_iff in Hc. destruct Hc as [H1 H2]. apply Nat.ltb_lt in H1. apply mem_item_In in H2.
  exists s'. auto.
Qed.

(** transitions, backward *)
Lemma goto_bwd_P s X s' : s < nst -> tr_at tr s X = Some s' ->
  s' < nst /\
  (exists p k la pr, In (p, k, la) (items s) /\ nth_error g p = Some pr /\ nth_error (rhs pr) k = Some X) /\
  (forall p k la, In (p, S k, la) (items s') ->
     exists pr, nth_error g p = Some pr /\ nth_error (rhs pr) k = Some X /\ In (p, k, la) (items s)).
Proof.
  intros Hs Htr. destruct AV_parts as (_ & _ & _ & _ & _ & _ & _ & _ & H & _).
  pose proof (forall_st_P _ H s Hs) as Hc. cbv beta in Hc. rewrite forallb_forall in Hc.
  unfold tr_at in Htr. apply assoc_In in Htr. specialize (Hc _ Htr). cbv beta iota in Hc.
  rewrite !andb_true_iff in Hc. destruct Hc as [[H1 H2] H3]. apply Nat.ltb_lt in H1.
  split; [assumption|]. split.
  - apply existsb_exists in H2. destruct H2 as ([[p k] la] & Hin & Hx).
    destruct (nth_error g p) as [pr|] eqn:Hp; [|discriminate].
    destruct (nth_error (rhs pr) k) as [Y|] eqn:Hk; [|discriminate].
    apply sym_eqb_eq in Hx. subst Y. exists p, k, la, pr. auto.
  - intros p k la Hin. rewrite forallb_forall in H3. specialize (H3 _ Hin). cbv beta iota in H3.
    destruct (nth_error g p) as [pr|] eqn:Hp; [|discriminate].
    destruct (nth_error (rhs pr) k) as [Y|] eqn:Hk; [|discriminate].
    apply andb_true_iff in H3. destruct H3 as [Hx Hm]. apply sym_eqb_eq in Hx. subst Y.
    apply mem_item_In in Hm. exists pr. auto.
Qed.

Lemma target_not_0 s X s' : s < nst -> tr_at tr s X = Some s' -> s' <> 0.
Proof.
  intros Hs Htr Hz. subst s'.
  destruct (goto_bwd_P _ _ _ Hs Htr) as (_ & (p & k & la & pr & Hin & Hp & Hk) & _).
  destruct (goto_fwd_P _ _ _ _ _ _ Hin Hp Hk) as (s'' & Htr' & _ & Hin').
  rewrite Htr in Htr'. inversion Htr'; subst s''. apply state0_dot0 in Hin'. discriminate.
Qed.

(** justification of dot-0 items *)
Lemma cjust_ind (P : item -> Prop) (is0 : bool) :
  (forall q b it, P it -> just_by g an q b it = true -> P (q, 0, b)) ->
  (is0 = true -> P (0, 0, EOFT)) ->
  forall rest acc, cjust_list g an is0 acc rest = true ->
    (forall it, In it acc -> P it) ->
    (forall p k la, In (p, S k, la) rest -> P (p, S k, la)) ->
    forall it, In it rest -> P it.
Proof.
  intros Hj Hs. induction rest as [|[[q k] b] rest IH]; intros acc H Hacc Hker it Hin; [destruct Hin|].
  cbn [cjust_list] in H. apply andb_true_iff in H. destruct H as [H1 H2].
  assert (Hhd : P (q, k, b)).
  { destruct k as [|k]; [|apply Hker; now left].
    apply orb_true_iff in H1. destruct H1 as [H1|H1].
    - rewrite !andb_true_iff in H1. destruct H1 as [[H0 Hq] Hb].
      apply Nat.eqb_eq in Hq, Hb. subst q b. now apply Hs.
    - apply existsb_exists in H1. destruct H1 as (it' & Hin' & Hjb). eapply Hj; eauto. }
  destruct Hin as [<-|Hin]; [exact Hhd|].
  apply (IH ((q, k, b) :: acc)); auto.
  - intros it' [<-|Hi]; auto.
  - intros p' k' la' Hi. apply Hker. now right.
Qed.

Lemma just_P s (P : item -> Prop) :
  s < nst ->
  (forall p k la pr q prq b, P (p, k, la) -> nth_error g p = Some pr ->
     nth_error (rhs pr) k = Some (NT (lhs prq)) -> nth_error g q = Some prq ->
     FIRST_sem g (skipn (S k) (rhs pr)) la b -> P (q, 0, b)) ->
  (s = 0 -> P (0, 0, EOFT)) ->
  (forall p k la, In (p, S k, la) (items s) -> P (p, S k, la)) ->
  forall it, In it (items s) -> P it.
Proof.
  intros Hs Hcl H0 Hker. destruct AV_parts as (_ & _ & _ & _ & _ & _ & H & _).
  pose proof (forall_st_P _ H s Hs) as Hc. cbv beta in Hc.
  apply (cjust_ind P (Nat.eqb s 0)) with (acc := []); auto.
  - intros q b [[p k] la] HP Hj.
    destruct (just_by_P _ _ _ _ _ _ _ Hj) as (pr & prq & Hp & Hq & Hk & Hb).
    eapply Hcl; eauto. apply (first_seq_sem g an NULa FXa). exact Hb.
  - intros E. apply H0. now apply Nat.eqb_eq.
  - intros it [].
Qed.

(** ** items of a state along an access string are canonical items *)
Lemma items_sub : forall gamma s, path tr gamma = Some s ->
  s < nst /\ (gamma <> [] -> s <> 0) /\ forall it, In it (items s) -> CI g gamma it.
Proof.
  induction gamma as [|X gamma IH] using rev_ind; intros s Hp.
  - unfold path in Hp. simpl in Hp. inversion Hp; subst s.
    split; [exact nst_pos|]. split; [congruence|].
    apply just_P; [exact nst_pos| | |].
    + intros p k la pr q prq b HP Hp' Hk Hq Hf. eapply CI_closure; eauto.
    + intros _. constructor.
    + intros p k la Hin. apply state0_dot0 in Hin. discriminate.
  - unfold path in Hp. rewrite path_from_snoc in Hp.
    destruct (path_from tr 0 gamma) as [s1|] eqn:Hp1; [|discriminate].
    destruct (IH _ Hp1) as (Hs1 & _ & IHi).
    destruct (goto_bwd_P _ _ _ Hs1 Hp) as (Hs & _ & Hker).
    pose proof (target_not_0 _ _ _ Hs1 Hp) as Hne.
    split; [exact Hs|]. split; [auto|].
    apply just_P; [exact Hs| | |].
    + intros p k la pr q prq b HP Hp' Hk Hq Hf. eapply CI_closure; eauto.
    + intros E. contradiction.
    + intros p k la Hin. destruct (Hker _ _ _ Hin) as (pr & Hp' & Hk & Hin1).
      eapply CI_goto; eauto.
Qed.

(** ** every canonical item is in the state reached along its string, which exists *)
Lemma items_sup : forall gamma it, CI g gamma it -> exists s, path tr gamma = Some s /\ In it (items s).
Proof.
  induction 1 as [|gamma p k la pr B q prq b _ IH Hp Hk Hq HB Hf|gamma p k la pr X _ IH Hp Hk].
  - exists 0. split; [reflexivity|exact state0_start].
  - destruct IH as (s & Hpath & Hin). exists s. split; [assumption|].
    eapply closed_P; eauto. apply (FIRST_sem_closed g an); [apply AV_parts|exact Hf].
  - destruct IH as (s & Hpath & Hin).
    destruct (goto_fwd_P _ _ _ _ _ _ Hin Hp Hk) as (s' & Htr & _ & Hin').
    exists s'. split; [|assumption]. unfold path in *. now rewrite path_from_snoc, Hpath.
Qed.

(** ** every state has an access string *)
Lemma reach_P s : 0 < s -> s < nst -> exists s' X, s' < s /\ tr_at tr s' X = Some s.
Proof.
  intros H0 Hs. destruct AV_parts as (_ & _ & _ & _ & _ & _ & _ & _ & _ & H).
  unfold c_reach in H. rewrite forallb_forall in H.
  assert (Hin : In s (seq 1 (nst - 1))) by (apply in_seq; lia).
  specialize (H _ Hin). apply existsb_exists in H. destruct H as (s' & Hs' & H).
  apply in_seq in Hs'. apply existsb_exists in H. destruct H as ([X t] & _ & H).
  apply andb_true_iff in H. destruct H as [_ H]. cbn [fst] in H.
  destruct (tr_at tr s' X) as [t'|] eqn:E; [|discriminate]. apply Nat.eqb_eq in H. subst t'.
  exists s', X. split; [lia|assumption].
Qed.

Lemma reachable : forall s, s < nst -> exists gamma, path tr gamma = Some s.
Proof.
  induction s as [s IH] using lt_wf_ind. intros Hs.
  destruct s as [|s]; [exists []; reflexivity|].
  destruct (reach_P (S s)) as (s' & X & Hlt & Htr); [lia|assumption|].
  destruct (IH s' Hlt) as [gamma Hg]; [lia|].
  exists (gamma ++ [X]). unfold path in *. now rewrite path_from_snoc, Hg.
Qed.

(** (a) the dumped automaton is the canonical LR(1) collection *)
Theorem auto_canonical :
  (forall gamma s, path tr gamma = Some s -> s < nst /\ forall it, In it (items s) <-> CI g gamma it) /\
  (forall s, s < nst -> exists gamma, path tr gamma = Some s) /\
  (forall gamma, canonical_state g gamma -> exists s, path tr gamma = Some s).
Proof.
  split; [|split].
  - intros gamma s Hp. destruct (items_sub _ _ Hp) as (Hs & _ & Hsub). split; [assumption|].
    intros it. split; [apply Hsub|].
    intros Hc. destruct (items_sup _ _ Hc) as (s2 & Hp2 & Hin). rewrite Hp in Hp2. now inversion Hp2.
  - exact reachable.
  - intros gamma [it Hc]. destruct (items_sup _ _ Hc) as (s & Hp & _). eauto.
Qed.

End Auto.

(** * C. What gocc reports *)
Definition kind (x : act) : sact :=
  match x with Accept => SAccept | Reduce p => SReduce p | Shift _ => SShift end.

Lemma CI_wf g : forall gamma p k la pr, CI g gamma (p, k, la) -> nth_error g p = Some pr -> k <= length (rhs pr).
Proof.
  intros gamma p k la pr H. remember (p, k, la) as it eqn:E. revert p k la pr E.
  induction H as [|gamma p' k' la' pr' B q prq b _ _ Hp Hk Hq HB Hf|gamma p' k' la' pr' X _ _ Hp Hk];
    intros p k la pr E Hpr; inversion E; subst; [lia|lia|].
  rewrite Hp in Hpr. inversion Hpr; subst.
  assert (k' < length (rhs pr)) by (apply nth_error_Some; congruence). lia.
Qed.

Section Cand.
Variable g : grammar.

(** candidates of an item, dump level -> specification level *)
Lemma cand_sound (S : item -> Prop) it a ns x :
  (forall p k la pr, S (p, k, la) -> nth_error g p = Some pr -> k <= length (rhs pr)) ->
  S it -> cand g it a ns = Some x ->
  spec_cand g S a (kind x) /\ (forall t, x = Shift t -> t = ns).
Proof.
  intros Hwf HS Hc. destruct it as [[p k] la]. unfold cand in Hc.
  destruct (Nat.eqb a INVALIDT) eqn:Ea; [discriminate|]. apply Nat.eqb_neq in Ea.
  destruct (nth_error g p) as [pr|] eqn:Hp; [|discriminate].
  pose proof (Hwf _ _ _ _ HS Hp) as Hk.
  destruct (Nat.eqb p 0 && (length (rhs pr) <=? k) && Nat.eqb la EOFT && Nat.eqb a EOFT) eqn:E1.
  - inversion Hc; subst x. rewrite !andb_true_iff in E1. destruct E1 as [[[H1 H2] H3] H4].
    apply Nat.eqb_eq in H1, H3, H4. apply Nat.leb_le in H2. subst p la a.
    split; [|discriminate]. split; [assumption|]. simpl. split; [reflexivity|].
    exists pr. split; [assumption|]. replace (length (rhs pr)) with k by lia. exact HS.
  - destruct ((length (rhs pr) <=? k) && Nat.eqb la a) eqn:E2.
    + inversion Hc; subst x. apply andb_true_iff in E2. destruct E2 as [H2 H3].
      apply Nat.leb_le in H2. apply Nat.eqb_eq in H3. subst la.
      split; [|discriminate]. split; [assumption|]. simpl. split.
      * intros [-> ->]. rewrite Nat.eqb_refl in E1. simpl in E1.
        assert (Hl : (length (rhs pr) <=? k) = true) by (apply Nat.leb_le; lia).
        rewrite Hl in E1. discriminate.
      * exists pr. split; [assumption|]. replace (length (rhs pr)) with k by lia. exact HS.
    + destruct (nth_error (rhs pr) k) as [[b|n]|] eqn:Hn; try discriminate.
      destruct (Nat.eqb b a) eqn:Eb; [|discriminate]. apply Nat.eqb_eq in Eb. subst b.
      inversion Hc; subst x. split; [|intros t Ht; now inversion Ht].
      split; [assumption|]. simpl. exists p, k, la, pr. auto.
Qed.

(** specification level -> dump level *)
Lemma cand_complete (S : item -> Prop) a ns x :
  spec_cand g S a x -> exists it y, S it /\ cand g it a ns = Some y /\ kind y = x.
Proof.
  intros [Ha H]. apply Nat.eqb_neq in Ha. destruct x as [|p|].
  - destruct H as (-> & pr0 & Hp & HS). exists (0, length (rhs pr0), EOFT), Accept.
    split; [assumption|]. split; [|reflexivity]. unfold cand. rewrite Ha, Hp, Nat.leb_refl. reflexivity.
  - destruct H as (Hne & pr & Hp & HS). exists (p, length (rhs pr), a), (Reduce p).
    split; [assumption|]. split; [|reflexivity]. unfold cand. rewrite Ha, Hp, Nat.leb_refl, Nat.eqb_refl.
    destruct (Nat.eqb p 0 && true && Nat.eqb a EOFT && Nat.eqb a EOFT) eqn:E; [|reflexivity].
    exfalso. rewrite !andb_true_iff in E. destruct E as [[[H1 _] H2] _].
    apply Nat.eqb_eq in H1, H2. auto.
  - destruct H as (p & k & la & pr & HS & Hp & Hk). exists (p, k, la), (Shift ns).
    split; [assumption|]. split; [|reflexivity]. unfold cand. rewrite Ha, Hp, Hk, Nat.eqb_refl.
    assert (Hl : (length (rhs pr) <=? k) = false).
    { apply Nat.leb_gt. apply nth_error_Some. congruence. }
    rewrite Hl. rewrite !andb_false_r. reflexivity.
Qed.

End Cand.

Lemma filter_length_pos {A} (f : A -> bool) l : 0 < length (filter f l) <-> exists x, In x l /\ f x = true.
Proof.
  split.
  - destruct (filter f l) as [|x r] eqn:E; simpl; [lia|]. intros _.
    assert (Hin : In x (filter f l)) by (rewrite E; now left). apply filter_In in Hin. eauto.
  - intros (x & Hin & Hf). assert (H : In x (filter f l)) by (apply filter_In; auto).
    destruct (filter f l); [destruct H|simpl; lia].
Qed.

Section Reports.
Variable g : grammar.
Variable nterms : nat.
Variable an : annot.
Variable tr : transitions.
Hypothesis AV : auto_valid g nterms an tr = true.

Notation items := (items_of an).
Notation nst := (nst an).
Notation cands := (cands g an tr).
Notation cell := (cell g an tr).

(** two distinct candidate actions in a cell of the dump *)
Definition dump_conflict (s a : nat) : Prop :=
  exists x y, x <> y /\ In (Some x) (cands s a) /\ In (Some y) (cands s a).

Lemma in_cands s a x : In (Some x) (cands s a) <-> exists it, In it (items s) /\ cand g it a (target tr s a) = Some x.
Proof.
  unfold Canonical.cands. rewrite in_map_iff. split.
  - intros (it & H & Hin). eauto.
  - intros (it & Hin & H). eauto.
Qed.

Lemma shape_terms : EOFT < nterms /\
  (forall pr X, In pr g -> In X (rhs pr) -> match X with T a => a < nterms | NT _ => True end) /\
  (forall s p k la, In (p, k, la) (items s) -> la < nterms).
Proof.
  destruct (AV_parts _ _ _ _ AV) as (H & _). unfold c_shape in H. rewrite !andb_true_iff in H.
  destruct H as [[[[_ _] H1] H2] H3]. apply Nat.ltb_lt in H1. split; [assumption|]. split.
  - intros pr X Hpr HX. rewrite forallb_forall in H2. specialize (H2 _ Hpr).
    rewrite forallb_forall in H2. specialize (H2 _ HX). destruct X; [now apply Nat.ltb_lt|exact I].
  - intros s p k la Hin. pose proof (forall_items_P an _ H3 s _ (items_lt an _ _ Hin) Hin) as Hc.
    now apply Nat.ltb_lt in Hc.
Qed.

(** the cells of the dump have a conflict iff the canonical collection has one *)
Lemma dump_conflict_canonical :
  (exists s a, s < nst /\ a < nterms /\ dump_conflict s a) <-> canonical_conflict g.
Proof.
  destruct (auto_canonical g nterms an tr AV) as (Hcan & Hreach & Hstate). split.
  - intros (s & a & Hs & Ha & x & y & Hxy & Hx & Hy).
    destruct (Hreach s Hs) as [gamma Hp]. destruct (Hcan _ _ Hp) as (_ & Hiff).
    apply in_cands in Hx. destruct Hx as (itx & Hinx & Hcx).
    apply in_cands in Hy. destruct Hy as (ity & Hiny & Hcy).
    destruct (cand_sound g (CI g gamma) _ _ _ _ (CI_wf g gamma) (proj1 (Hiff _) Hinx) Hcx) as [Sx Tx].
    destruct (cand_sound g (CI g gamma) _ _ _ _ (CI_wf g gamma) (proj1 (Hiff _) Hiny) Hcy) as [Sy Ty].
    exists gamma, a, (kind x), (kind y). split; [exists itx; now apply Hiff|]. split; [|split; assumption].
    intros Hk. apply Hxy. destruct x as [t| |], y as [t'| |]; simpl in Hk; try discriminate; try congruence.
    rewrite (Tx _ eq_refl), (Ty _ eq_refl). reflexivity.
  - intros (gamma & a & x & y & Hst & Hxy & Hx & Hy).
    destruct (Hstate _ Hst) as [s Hp]. destruct (Hcan _ _ Hp) as (Hs & Hiff).
    destruct (cand_complete g _ a (target tr s a) _ Hx) as (itx & x' & HSx & Hcx & Hkx).
    destruct (cand_complete g _ a (target tr s a) _ Hy) as (ity & y' & HSy & Hcy & Hky).
    exists s, a. split; [assumption|]. split.
    + (* the terminal is a column of gocc's table *)
      destruct shape_terms as (He & Hg & Hl). destruct Hx as [_ Hx]. destruct x as [|p|].
      * destruct Hx as [-> _]. exact He.
      * destruct Hx as (_ & pr & _ & HS). apply Hiff in HS. eapply Hl; eauto.
      * destruct Hx as (p & k & la & pr & _ & Hpr & Hk).
        apply (Hg pr (T a)); [eapply nth_error_In; eauto|eapply nth_error_In; eauto].
    + exists x', y'. split; [intros E; apply Hxy; congruence|].
      split; apply in_cands; eexists; split; try eassumption; now apply Hiff.
Qed.

Lemma cell_conflict_P s a : cell_conflict g an tr s a = true ->
  cell s a <> None /\ dump_conflict s a.
Proof.
  unfold cell_conflict. destruct (cell s a) as [[w cf]|] eqn:E; [|discriminate].
  destruct cf as [|c cf]; [discriminate|]. intros _. split; [discriminate|].
  apply (row_action_conflicts_nonempty _ _ _ E). discriminate.
Qed.

Lemma cell_panics_P s a : cell_panics g an tr s a = true <->
  In (Some Accept) (cands s a) /\ exists x, x <> Accept /\ In (Some x) (cands s a).
Proof.
  unfold cell_panics. split.
  - destruct (cell s a) as [[w cf]|] eqn:E; [discriminate|]. intros _.
    apply row_action_panic in E. destruct E as [E|(t & t' & Hne & H1 & H2)]; [exact E|].
    exfalso. apply Hne. apply in_cands in H1. apply in_cands in H2.
    destruct H1 as (it1 & _ & H1). destruct H2 as (it2 & _ & H2).
    assert (Ht : forall it u, cand g it a (target tr s a) = Some (Shift u) -> u = target tr s a).
    { intros [[p k] la] u. unfold cand. destruct (Nat.eqb a INVALIDT); [discriminate|].
      destruct (nth_error g p) as [pr|]; [|discriminate].
      destruct (Nat.eqb p 0 && (length (rhs pr) <=? k) && Nat.eqb la EOFT && Nat.eqb a EOFT); [discriminate|].
      destruct ((length (rhs pr) <=? k) && Nat.eqb la a); [discriminate|].
      destruct (nth_error (rhs pr) k) as [[b|n]|]; try discriminate.
      destruct (Nat.eqb b a); [|discriminate]. intros H; now inversion H. }
    rewrite (Ht _ _ H1), (Ht _ _ H2). reflexivity.
  - intros H. destruct (cell s a) as [[w cf]|] eqn:E; [|reflexivity].
    exfalso. assert (Hp : row_action (cands s a) = None) by (apply row_action_panic; now left).
    unfold Canonical.cell in E. congruence.
Qed.

Lemma dump_conflict_cases s a : dump_conflict s a ->
  cell_panics g an tr s a = true \/ cell_conflict g an tr s a = true.
Proof.
  intros H. unfold cell_panics, cell_conflict. destruct (cell s a) as [[w cf]|] eqn:E; [|now left].
  right. apply (row_action_conflicts_nonempty _ _ _ E) in H. destruct cf; [congruence|reflexivity].
Qed.

Lemma reports_none : gocc_reports g nterms an tr = None <->
  exists s a, s < nst /\ a < nterms /\ cell_panics g an tr s a = true.
Proof.
  unfold gocc_reports.
  destruct (existsb (fun s => existsb (cell_panics g an tr s) (seq 0 nterms)) (seq 0 nst)) eqn:E.
  - split; [intros _|reflexivity]. apply existsb_exists in E. destruct E as (s & Hs & E).
    apply existsb_exists in E. destruct E as (a & Ha & E). apply in_seq in Hs, Ha.
    exists s, a. repeat split; auto; lia.
  - split; [discriminate|]. intros (s & a & Hs & Ha & H). exfalso.
    assert (Ht : existsb (fun s => existsb (cell_panics g an tr s) (seq 0 nterms)) (seq 0 nst) = true).
    { apply existsb_exists. exists s. split; [apply in_seq; lia|].
      apply existsb_exists. exists a. split; [apply in_seq; lia|assumption]. }
    congruence.
Qed.

Lemma reports_some n : gocc_reports g nterms an tr = Some n ->
  (forall s a, s < nst -> a < nterms -> cell_panics g an tr s a = false) /\
  (0 < n <-> exists s a, s < nst /\ a < nterms /\ cell_conflict g an tr s a = true).
Proof.
  intros H. split.
  - intros s a Hs Ha. destruct (cell_panics g an tr s a) eqn:E; [|reflexivity].
    assert (Hn : gocc_reports g nterms an tr = None) by (apply reports_none; eauto). congruence.
  - unfold gocc_reports in H.
    destruct (existsb (fun s => existsb (cell_panics g an tr s) (seq 0 nterms)) (seq 0 nst)); [discriminate|].
    inversion H; subst n. rewrite filter_length_pos. split.
    + intros (s & Hs & Hc). unfold state_conflict in Hc. apply existsb_exists in Hc.
      destruct Hc as (a & Ha & Hc). apply in_seq in Hs, Ha. exists s, a. repeat split; auto; lia.
    + intros (s & a & Hs & Ha & Hc). exists s. split; [apply in_seq; lia|].
      unfold state_conflict. apply existsb_exists. exists a. split; [apply in_seq; lia|assumption].
Qed.

(** (b) when gocc does not panic, it announces conflicts iff the canonical collection has one *)
Theorem C04_reports n : gocc_reports g nterms an tr = Some n -> (0 < n <-> canonical_conflict g).
Proof.
  intros H. destruct (reports_some _ H) as [Hnp Hn]. rewrite Hn, <- dump_conflict_canonical. split.
  - intros (s & a & Hs & Ha & Hc). exists s, a. repeat split; auto. now apply cell_conflict_P.
  - intros (s & a & Hs & Ha & Hc). exists s, a. repeat split; auto.
    destruct (dump_conflict_cases _ _ Hc) as [Hp|Hc']; [|assumption].
    rewrite (Hnp s a Hs Ha) in Hp. discriminate.
Qed.

(** (c) gocc panics while resolving iff the canonical collection has an accept conflict *)
Theorem C04_panics : gocc_reports g nterms an tr = None <-> canonical_accept_conflict g.
Proof.
  destruct (auto_canonical g nterms an tr AV) as (Hcan & Hreach & Hstate).
  rewrite reports_none. split.
  - intros (s & a & Hs & Ha & Hp). apply cell_panics_P in Hp. destruct Hp as (HA & x & Hx & Hin).
    destruct (Hreach s Hs) as [gamma Hp]. destruct (Hcan _ _ Hp) as (_ & Hiff).
    apply in_cands in HA. destruct HA as (ita & Hina & Hca).
    apply in_cands in Hin. destruct Hin as (itx & Hinx & Hcx).
    destruct (cand_sound g (CI g gamma) _ _ _ _ (CI_wf g gamma) (proj1 (Hiff _) Hina) Hca) as [Sa _].
    destruct (cand_sound g (CI g gamma) _ _ _ _ (CI_wf g gamma) (proj1 (Hiff _) Hinx) Hcx) as [Sx _].
    exists gamma, a, (kind x). split; [exists ita; now apply Hiff|]. split; [|split; assumption].
    destruct x; simpl; congruence.
  - intros (gamma & a & x & Hst & Hx & HA & HX).
    destruct (Hstate _ Hst) as [s Hp]. destruct (Hcan _ _ Hp) as (Hs & Hiff).
    destruct (cand_complete g _ a (target tr s a) _ HA) as (ita & a' & HSa & Hca & Hka).
    destruct (cand_complete g _ a (target tr s a) _ HX) as (itx & x' & HSx & Hcx & Hkx).
    exists s, a. split; [assumption|]. split.
    + destruct HA as [_ [-> _]]. apply shape_terms.
    + apply cell_panics_P. split.
      * destruct a'; try discriminate. apply in_cands. exists ita. split; [now apply Hiff|assumption].
      * exists x'. split; [intros ->; simpl in Hkx; congruence|].
        apply in_cands. exists itx. split; [now apply Hiff|assumption].
Qed.

(** C04: the canonical collection has a conflict iff gocc announces one (or refuses to resolve) *)
Theorem C04_conflict_iff :
  canonical_conflict g <->
  (gocc_reports g nterms an tr = None \/ exists n, gocc_reports g nterms an tr = Some n /\ 0 < n).
Proof.
  split.
  - intros H. destruct (gocc_reports g nterms an tr) as [n|] eqn:E; [|now left].
    right. exists n. split; [reflexivity|]. now apply (C04_reports n E).
  - intros [H|(n & H & Hn)].
    + apply C04_panics in H. destruct H as (gamma & a & x & Hst & Hx & HA & HX).
      exists gamma, a, SAccept, x. split; [assumption|]. split; [congruence|]. split; assumption.
    + now apply (C04_reports n H).
Qed.

End Reports.

(** * Non-vacuity: the ambiguous grammar  E : E "+" E | "a"  with the automaton dumped by gocc
    (terminals: 0 INVALID, 1 end of input, 2 "+", 3 "a"; nonterminals: 0 S', 1 E).
    The dump passes [auto_valid]; state 4 = { E : E "+" E . , E : E . "+" E } has the
    shift/reduce conflict on "+", and gocc announces "1 LR-1 conflicts". *)
Module CanonicalExample.
Definition ex_g : grammar :=
  [{| lhs := 0; rhs := [NT 1] |}; {| lhs := 1; rhs := [NT 1; T 2; NT 1] |}; {| lhs := 1; rhs := [T 3] |}].
Definition ex_an : annot := {|
  a_items := [
    [(0,0,1); (1,0,1); (2,0,1); (1,0,2); (2,0,2)];
    [(0,1,1); (1,1,1); (1,1,2)];
    [(2,1,1); (2,1,2)];
    [(1,2,1); (1,2,2); (1,0,1); (2,0,1); (1,0,2); (2,0,2)];
    [(1,3,1); (1,3,2); (1,1,1); (1,1,2)]];
  a_nullable := [false; false];
  a_first := [[3]; [3]] |}.
Definition ex_tr : transitions :=
  [[(NT 1, 1); (T 3, 2)]; [(T 2, 3)]; []; [(NT 1, 4); (T 3, 2)]; [(T 2, 3)]].

Example ex_valid : auto_valid ex_g 4 ex_an ex_tr = true.
Proof. vm_compute. reflexivity. Qed.
Example ex_reports : gocc_reports ex_g 4 ex_an ex_tr = Some 1.
Proof. vm_compute. reflexivity. Qed.
Example ex_cell : cell ex_g ex_an ex_tr 4 2 = Some (Some (Shift 3), [Reduce 1; Shift 3]).
Proof. vm_compute. reflexivity. Qed.
Example ex_canonical_conflict : canonical_conflict ex_g.
Proof. apply (C04_reports ex_g 4 ex_an ex_tr ex_valid 1 ex_reports). auto. Qed.
(** the state reached along  E "+" E  is state 4: its items are exactly the canonical ones *)
Example ex_path : path ex_tr [NT 1; T 2; NT 1] = Some 4.
Proof. reflexivity. Qed.

(** the grammar  S : S  (item sets from gocc's LR1_sets.txt): state 1 = { S' : S . , S : S . }
    has accept against reduce on end of input; gocc panics ("Cannot have LR1 conflict with
    Accept"), in both modes *)
Definition ex2_g : grammar := [{| lhs := 0; rhs := [NT 1] |}; {| lhs := 1; rhs := [NT 1] |}].
Definition ex2_an : annot := {|
  a_items := [ [(0,0,1); (1,0,1)]; [(0,1,1); (1,1,1)] ];
  a_nullable := [false; false];
  a_first := [[]; []] |}.
Definition ex2_tr : transitions := [[(NT 1, 1)]; []].
Example ex2_valid : auto_valid ex2_g 2 ex2_an ex2_tr = true.
Proof. vm_compute. reflexivity. Qed.
Example ex2_reports : gocc_reports ex2_g 2 ex2_an ex2_tr = None.
Proof. vm_compute. reflexivity. Qed.
Example ex2_accept_conflict : canonical_accept_conflict ex2_g.
Proof. apply (C04_panics ex2_g 2 ex2_an ex2_tr ex2_valid). exact ex2_reports. Qed.
End CanonicalExample.

Print Assumptions first_ss_sder.
Print Assumptions auto_canonical.
Print Assumptions C04_reports.
Print Assumptions C04_panics.
Print Assumptions C04_conflict_iff.
