(** An EXECUTABLE model of gocc's LR(1) table generator, at the level of the numeric grammar
    encoding of Parse.v / Validate.v.  Definitions only (proofs: GenProofs.v).

    Go sources modelled:
      - internal/parser/first/first.go        GetFirstSets, FirstS           -> [gen_first]
      - internal/parser/lr1/items/itemset.go  Closure, first1, Goto, Equal   -> [closure], [las], [goto_kernel], [set_eqb]
      - internal/parser/lr1/items/itemsets.go GetItemSets, GetIndex          -> [gen_states]
      - internal/parser/lr1/items/item.go     Item.action, canRecover        -> Canonical.cand, [can_recover]
      - internal/parser/gen/golang/actiontable.go, gototable.go              -> [gen_row], [goto_row]

    Orders on which gocc's OUTPUT depends and which the numeric encoding does not determine are
    explicit parameters:
      - [symbols]  : Symbols.List(), the order in which GetItemSets tries the symbols X for
                     I.Goto(X) (it fixes the NUMBERING of the states);
      - [la_order] : the terminals in the order of their sorted NAMES (first1 sorts the strings
                     of FIRST(beta a); it fixes the ORDER OF THE ITEMS inside a state).
    Everything else is determined: productions are visited by index, items by position.

    Deliberate differences with the Go code (none observable in the output):
      - nullable flags and FIRST sets are computed separately (flags first) by [length g] rounds
        of simultaneous iteration, then checked for stability, instead of one chaotic
        iteration until no change; both compute the least fixed point (FIRST sets are SETS:
        their element order is irrelevant, closure look-aheads are enumerated along [la_order]);
      - the state comparison [set_eqb] checks both inclusions (Go: same number of items and
        one inclusion; the same thing, item lists being duplicate-free);
      - the worklists run on explicit fuel; [None] = out of fuel. *)
From Coq Require Import List ZArith Bool Arith.
From Gocc Require Import LR.Parse LR.Validate LR.Derive LR.Exact LR.Resolve LR.Canonical.
Import ListNotations.

Fixpoint all_some {A} (l : list (option A)) : option (list A) :=
  match l with
  | [] => Some []
  | None :: _ => None
  | Some x :: r => match all_some r with Some r' => Some (x :: r') | None => None end
  end.

Definition bools_eqb (a b : list bool) : bool :=
  Nat.eqb (length a) (length b) && forallb (fun xy => Bool.eqb (fst xy) (snd xy)) (combine a b).

Definition mem_sym (X : sym) (l : list sym) : bool := existsb (sym_eqb X) l.

Section Gen.
Variable g : grammar.              (* production 0 is S' -> S; an 'empty' alternative has rhs = [] *)
Variable nn : nat.                 (* number of nonterminals (S' = NT 0 included) *)
Variable ntm : nat.                (* number of terminals, INVALID (0) and end of input (1) included *)
Variable symbols : list sym.       (* Symbols.List(): the order in which Goto(X) is tried *)
Variable la_order : list nat.      (* the terminals, in the order of their sorted names *)
Variable p_acts : list bool.       (* per production: has an explicit action (passed through) *)
Variable terr : nat.               (* the number of the terminal "error"; 0 if there is none *)

(** * FIRST (first.go) *)
Definition gen_nullable : list bool := flag_iter g false nn (length g).
Definition an_null : annot := {| a_items := []; a_nullable := gen_nullable; a_first := [] |}.
Definition gen_first_sets : list (list nat) := cfirst_iter g an_null nn (length g).

(** one more round changes nothing *)
Definition gen_first_stable : bool :=
  bools_eqb (flag_step g false nn gen_nullable) gen_nullable &&
  forallb (fun n => forallb (fun a => mem_nat a (nth n gen_first_sets []))
                            (nth n (cfirst_step g an_null nn gen_first_sets) [])) (seq 0 nn).

Definition gen_first : option (list bool * list (list nat)) :=
  if gen_first_stable then Some (gen_nullable, gen_first_sets) else None.

(** * Item sets (itemset.go); [an] carries the nullable flags and FIRST sets only *)
Section Items.
Variable an : annot.

(** first1(beta, la): FIRST(beta la), sorted by terminal name *)
Definition las (beta : list sym) (la : nat) : list nat :=
  filter (fun t => mem_nat t (first_seq an beta la)) la_order.

(** the items Closure adds for one item, in the order it tries them:
    productions of B by index, then look-aheads in sorted order *)
Definition new_items (it : item) : list item :=
  let '(p, k, la) := it in
  match nth_error g p with
  | Some pr =>
    match nth_error (rhs pr) k with
    | Some (NT B) =>
      let ls := las (skipn (S k) (rhs pr)) la in
      flat_map (fun q => map (fun b => (q, 0, b)) ls) (prods_of g B)
    | _ => []
    end
  | None => []
  end.

(** AddItem: append unless present *)
Definition add_item (acc : list item) (i : item) : list item :=
  if mem_item i acc then acc else acc ++ [i].
Definition add_items (acc news : list item) : list item := fold_left add_item news acc.

(** Closure: the items are processed once each, by position; new items go to the end *)
Fixpoint closure_loop (fuel : nat) (I : list item) (idx : nat) : option (list item) :=
  match fuel with
  | O => None
  | S f =>
    match nth_error I idx with
    | None => Some I
    | Some it => closure_loop f (add_items I (new_items it)) (S idx)
    end
  end.

Definition closure_fuel (I : list item) : nat := length I + length g * length la_order + 1.
Definition closure (I : list item) : option (list item) := closure_loop (closure_fuel I) I 0.

(** Goto(X): advance the items expecting X (in order), then close *)
Definition expects (X : sym) (it : item) : bool :=
  let '(p, k, _) := it in
  match nth_error g p with
  | Some pr => match nth_error (rhs pr) k with Some Y => sym_eqb X Y | None => false end
  | None => false
  end.
Definition advance (it : item) : item := let '(p, k, la) := it in (p, S k, la).
Definition goto_kernel (X : sym) (I : list item) : list item := map advance (filter (expects X) I).
Definition goto (X : sym) (I : list item) : option (list item) := closure (goto_kernel X I).

(** ItemSet.Equal: equality of the item sets, as sets *)
Definition set_eqb (I J : list item) : bool :=
  forallb (fun i => mem_item i J) I && forallb (fun i => mem_item i I) J.

(** ItemSets.GetIndex: the first state equal to J *)
Fixpoint find_index_from (J : list item) (sts : list (list item)) (i : nat) : option nat :=
  match sts with
  | [] => None
  | I1 :: r => if set_eqb I1 J then Some i else find_index_from J r (S i)
  end.
Definition find_index (J : list item) (sts : list (list item)) : option nat := find_index_from J sts 0.

(** the inner loop of GetItemSets for one state I: all symbols in order; the transition row of I
    is returned in the order the transitions were added *)
Fixpoint process_syms (I : list item) (syms : list sym) (sts : list (list item)) (row : list (sym * nat))
  : option (list (list item) * list (sym * nat)) :=
  match syms with
  | [] => Some (sts, row)
  | X :: r =>
    match goto X I with
    | None => None
    | Some [] => process_syms I r sts row
    | Some J =>
      match find_index J sts with
      | Some idx => process_syms I r sts (row ++ [(X, idx)])
      | None => process_syms I r (sts ++ [J]) (row ++ [(X, length sts)])
      end
    end
  end.

(** the outer loop: states are processed in creation order; [trs] = rows of the processed states *)
Fixpoint states_loop (fuel : nat) (sts : list (list item)) (trs : transitions)
  : option (list (list item) * transitions) :=
  match fuel with
  | O => None
  | S f =>
    match nth_error sts (length trs) with
    | None => Some (sts, trs)
    | Some I1 =>
      match process_syms I1 symbols sts [] with
      | None => None
      | Some (sts', row) => states_loop f sts' (trs ++ [row])
      end
    end
  end.

Definition gen_states_an (fuel : nat) : option (list (list item) * transitions) :=
  match closure [(0, 0, EOFT)] with
  | None => None
  | Some I0 => states_loop fuel [I0] []
  end.

End Items.

(** GetFirstSets then GetItemSets *)
Definition gen_states (fuel : nat) : option (list (list item) * transitions) :=
  match gen_first with
  | None => None
  | Some (N, F) => gen_states_an {| a_items := []; a_nullable := N; a_first := F |} fuel
  end.

(** * Tables (actiontable.go, gototable.go) *)
Section Tables.
Variable an : annot.
Variable tr : transitions.

(** a cell of the action table: ItemSet.Action without conflict; [None] = conflict or Go panic *)
Definition action_cell (s a : nat) : option (option act) :=
  match cell g an tr s a with
  | Some (w, []) => Some w
  | _ => None
  end.

Definition action_row (s : nat) : option (list (option act)) :=
  all_some (map (action_cell s) (seq 0 ntm)).

Definition goto_row (s : nat) : list Z :=
  map (fun n => match tr_at tr s (NT n) with Some t => Z.of_nat t | None => (-1)%Z end) (seq 0 nn).

(** ItemSet.CanRecover *)
Definition can_recover (I : list item) : bool :=
  existsb (fun it => let '(p, k, _) := it in
             Nat.eqb k 0 &&
             match nth_error g p with
             | Some pr => match rhs pr with T t :: _ => Nat.eqb t terr | _ => false end
             | None => false
             end) I.

Definition gen_row (s : nat) : option srow :=
  match action_row s with
  | None => None
  | Some acts => Some {| s_actions := acts; s_recover := can_recover (items_of an s); s_gotos := goto_row s |}
  end.

(** the cells gocc would report as conflicts (or panic on): diagnostics only *)
Definition conflict_cells : list (nat * nat) :=
  flat_map (fun s => flat_map (fun a => match action_cell s a with Some _ => [] | None => [(s, a)] end)
                              (seq 0 ntm)) (seq 0 (length (a_items an))).
End Tables.

Definition gen_prods : list prow :=
  map (fun ip => {| p_nt := lhs (snd ip); p_len := length (rhs (snd ip)); p_act := nth (fst ip) p_acts false |})
      (combine (seq 0 (length g)) g).

(** * Well-formedness of the input (what gocc's front end guarantees by construction) *)
Definition gen_wf : bool :=
  (1 <? ntm) && (terr <? ntm) &&
  match g with
  | [] => false
  | pr0 :: _ =>
    Nat.eqb (length (rhs pr0)) 1 &&                                   (* S' -> S *)
    forallb (fun pr => forallb (fun X => negb (sym_eqb X (NT (lhs pr0)))) (rhs pr)) g  (* S' in no body *)
  end &&
  forallb (fun pr => (lhs pr <? nn) &&
                     forallb (fun X => match X with
                                       | T a => (1 <? a) && (a <? ntm)  (* neither INVALID nor end of input *)
                                       | NT n => n <? nn
                                       end) (rhs pr)) g &&
  forallb (fun a => mem_nat a la_order) (seq 0 ntm) &&               (* every terminal is in [la_order] *)
  forallb (fun pr => forallb (fun X => mem_sym X symbols) (rhs pr)) g. (* every body symbol is in [symbols] *)

(** * The generator *)
Inductive gen_result :=
| GenOk (tb : tables) (an : annot) (tr : transitions)
| GenIllFormed                       (* [gen_wf] fails *)
| GenFirstUnstable                   (* FIRST not stable after [length g] rounds (never happens, see GenProofs) *)
| GenFuel                            (* a worklist ran out of fuel *)
| GenConflict (an : annot) (tr : transitions) (cells : list (nat * nat)).   (* LR(1) conflicts: (state, terminal) *)

Definition gen_run (fuel : nat) : gen_result :=
  if negb gen_wf then GenIllFormed else
  match gen_first with
  | None => GenFirstUnstable
  | Some (N, F) =>
    match gen_states_an {| a_items := []; a_nullable := N; a_first := F |} fuel with
    | None => GenFuel
    | Some (sts, trs) =>
      let an := {| a_items := sts; a_nullable := N; a_first := F |} in
      match all_some (map (gen_row an trs) (seq 0 (length sts))) with
      | None => GenConflict an trs (conflict_cells an trs)
      | Some rows =>
        GenOk {| t_states := rows; t_prods := gen_prods; t_err := terr; t_gate := false |} an trs
      end
    end
  end.

Definition gen_all (fuel : nat) : option (tables * annot * transitions) :=
  match gen_run fuel with GenOk tb an tr => Some (tb, an, tr) | _ => None end.

Definition gen_tables (fuel : nat) : option (tables * annot) :=
  match gen_run fuel with GenOk tb an _ => Some (tb, an) | _ => None end.

End Gen.

(** Symbols.List() restricted to the symbols that matter (Goto(X) is empty for the others):
    order of first appearance, heads before bodies *)
Fixpoint dedup_syms (l : list sym) (seen : list sym) : list sym :=
  match l with
  | [] => []
  | X :: r => if mem_sym X seen then dedup_syms r seen else X :: dedup_syms r (X :: seen)
  end.
Definition default_symbols (g : grammar) : list sym :=
  dedup_syms (flat_map (fun pr => NT (lhs pr) :: rhs pr) g) [].
