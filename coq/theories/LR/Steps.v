(** Small-step view of the parser model: configurations, the (partial) step function for the
    shift and reduce moves, its iteration, the link with [run], and determinism w.r.t. the
    tokens actually consulted. *)
From Coq Require Import List Arith ZArith Lia Bool.
From Gocc Require Import LR.Parse.
Import ListNotations.

Definition alog' := list (nat * list attr).

Record cfg := { c_st : stack; c_i : nat;        (* look-ahead = token number [c_i] *)
                c_calls : nat; c_log : alog' }.

Definition cfg0 : cfg := {| c_st := [(0, ANil)]; c_i := 0; c_calls := 0; c_log := [] |}.

Section Steps.
Variable tb : tables.
Variable sem : nat -> nat -> list attr -> option attr.

Section OneInput.
Variable input : list token.

(** one shift or reduce move; [None]: accept, syntax error, failed action, or panic *)
Definition step (c : cfg) : option cfg :=
  let next := tok_at input (c_i c) in
  match top (c_st c) with
  | None => None
  | Some s =>
    match action_at tb s (ttype next) with
    | Some (Some (Shift s')) =>
      Some {| c_st := (s', ATok next) :: c_st c; c_i := S (c_i c);
              c_calls := c_calls c; c_log := c_log c |}
    | Some (Some (Reduce p)) =>
      match nth_error (t_prods tb) p with
      | None => None
      | Some pr =>
        let n := p_len pr in
        if length (c_st c) <? n then None else
        let kids := rev (map snd (firstn n (c_st c))) in
        let st' := skipn n (c_st c) in
        let '(res, calls', log') :=
          if p_act pr then (sem (c_calls c) p kids, S (c_calls c), (p, kids) :: c_log c)
          else (Some (match kids with [] => ANil | k :: _ => k end), c_calls c, c_log c) in
        match res with
        | None => None
        | Some a =>
          match top st' with
          | None => None
          | Some s0 =>
            match goto_at tb s0 (p_nt pr) with
            | None => None
            | Some gz =>
              if (gz <? 0)%Z then None
              else Some {| c_st := (Z.to_nat gz, a) :: st'; c_i := c_i c;
                           c_calls := calls'; c_log := log' |}
            end
          end
        end
      end
    | _ => None
    end
  end.

Fixpoint steps (n : nat) (c : cfg) : option cfg :=
  match n with
  | O => Some c
  | S n' => match step c with Some c' => steps n' c' | None => None end
  end.

Definition crunc (fuel : nat) (c : cfg) : result :=
  run tb sem input fuel (c_st c) (tok_at input (c_i c)) (S (c_i c)) (c_calls c) (c_log c).

Lemma parse_crunc fuel : parse tb sem input fuel = crunc fuel cfg0.
Proof. reflexivity. Qed.

Lemma crunc_step fuel c c' : step c = Some c' -> crunc (S fuel) c = crunc fuel c'.
Proof.
  unfold step, crunc. cbn [run]. intros H.
  destruct (top (c_st c)) as [s|]; [|discriminate].
  destruct (action_at tb s (ttype (tok_at input (c_i c)))) as [[[s'|p|]|]|]; try discriminate.
  - inversion H; subst c'. reflexivity.
  - destruct (nth_error (t_prods tb) p) as [pr|]; [|discriminate].
    destruct (length (c_st c) <? p_len pr); [discriminate|].
    destruct (p_act pr).
    + destruct (sem (c_calls c) p (rev (map snd (firstn (p_len pr) (c_st c))))) as [a|]; [|discriminate].
      destruct (top (skipn (p_len pr) (c_st c))) as [s0|]; [|discriminate].
      destruct (goto_at tb s0 (p_nt pr)) as [gz|]; [|discriminate].
      destruct (gz <? 0)%Z; [discriminate|]. inversion H; subst c'. reflexivity.
    + destruct (top (skipn (p_len pr) (c_st c))) as [s0|]; [|discriminate].
      destruct (goto_at tb s0 (p_nt pr)) as [gz|]; [|discriminate].
      destruct (gz <? 0)%Z; [discriminate|]. inversion H; subst c'. reflexivity.
Qed.

Lemma crunc_steps n : forall fuel c c', steps n c = Some c' -> crunc (n + fuel) c = crunc fuel c'.
Proof.
  induction n as [|n IH]; intros fuel c c' H; simpl in H.
  - inversion H; subst. reflexivity.
  - destruct (step c) as [c1|] eqn:Hs; [|discriminate].
    simpl. rewrite (crunc_step _ _ _ Hs). apply IH. exact H.
Qed.

(** ** steps: extension at the end, monotonicity of the look-ahead index *)
Lemma steps_snoc n : forall c c' c'', steps n c = Some c' -> step c' = Some c'' -> steps (S n) c = Some c''.
Proof.
  induction n as [|n IH]; intros c c' c'' H Hs; simpl in H.
  - inversion H; subst. simpl. now rewrite Hs.
  - destruct (step c) as [c1|] eqn:E; [|discriminate].
    change (steps (S (S n)) c) with (match step c with Some c' => steps (S n) c' | None => None end).
    rewrite E. eapply IH; eauto.
Qed.

Lemma steps_snoc_inv n : forall c c'', steps (S n) c = Some c'' ->
  exists c', steps n c = Some c' /\ step c' = Some c''.
Proof.
  induction n as [|n IH]; intros c c'' H.
  - simpl in H. destruct (step c) as [c1|] eqn:E; [|discriminate]. inversion H; subst.
    exists c. split; [reflexivity|assumption].
  - change (steps (S (S n)) c) with (match step c with Some c' => steps (S n) c' | None => None end) in H.
    destruct (step c) as [c1|] eqn:E; [|discriminate].
    destruct (IH _ _ H) as (c' & H1 & H2). exists c'. split; [|assumption].
    simpl. now rewrite E.
Qed.

Lemma steps_prefix n m : forall c c', steps (n + m) c = Some c' -> exists c1, steps n c = Some c1 /\ steps m c1 = Some c'.
Proof.
  induction n as [|n IH]; intros c c' H.
  - exists c. split; [reflexivity|assumption].
  - simpl in H. destruct (step c) as [c1|] eqn:E; [|discriminate].
    destruct (IH _ _ H) as (c2 & H1 & H2). exists c2. split; [|assumption]. simpl. now rewrite E.
Qed.

Lemma steps_app n m : forall c c1 c', steps n c = Some c1 -> steps m c1 = Some c' -> steps (n + m) c = Some c'.
Proof.
  induction n as [|n IH]; intros c c1 c' H1 H2; simpl in *.
  - inversion H1; subst. assumption.
  - destruct (step c) as [c2|]; [|discriminate]. eapply IH; eauto.
Qed.

Lemma step_index c c' : step c = Some c' -> c_i c' = c_i c \/ c_i c' = S (c_i c).
Proof.
  unfold step. intros H.
  destruct (top (c_st c)) as [s|]; [|discriminate].
  destruct (action_at tb s (ttype (tok_at input (c_i c)))) as [[[s'|p|]|]|]; try discriminate.
  - inversion H; subst c'. right. reflexivity.
  - destruct (nth_error (t_prods tb) p) as [pr|]; [|discriminate].
    destruct (length (c_st c) <? p_len pr); [discriminate|].
    destruct (p_act pr).
    + destruct (sem (c_calls c) p (rev (map snd (firstn (p_len pr) (c_st c))))) as [a|]; [|discriminate].
      destruct (top (skipn (p_len pr) (c_st c))) as [s0|]; [|discriminate].
      destruct (goto_at tb s0 (p_nt pr)) as [gz|]; [|discriminate].
      destruct (gz <? 0)%Z; [discriminate|]. inversion H; subst c'. left. reflexivity.
    + destruct (top (skipn (p_len pr) (c_st c))) as [s0|]; [|discriminate].
      destruct (goto_at tb s0 (p_nt pr)) as [gz|]; [|discriminate].
      destruct (gz <? 0)%Z; [discriminate|]. inversion H; subst c'. left. reflexivity.
Qed.

Lemma steps_index n : forall c c', steps n c = Some c' -> c_i c <= c_i c'.
Proof.
  induction n as [|n IH]; intros c c' H; simpl in H.
  - inversion H; subst. lia.
  - destruct (step c) as [c1|] eqn:E; [|discriminate].
    apply IH in H. destruct (step_index _ _ E); lia.
Qed.

(** the log only grows: the log of a later configuration extends the earlier one *)
Lemma step_log c c' : step c = Some c' -> exists l, c_log c' = l ++ c_log c.
Proof.
  unfold step. intros H.
  destruct (top (c_st c)) as [s|]; [|discriminate].
  destruct (action_at tb s (ttype (tok_at input (c_i c)))) as [[[s'|p|]|]|]; try discriminate.
  - inversion H; subst c'. exists []. reflexivity.
  - destruct (nth_error (t_prods tb) p) as [pr|]; [|discriminate].
    destruct (length (c_st c) <? p_len pr); [discriminate|].
    destruct (p_act pr).
    + destruct (sem (c_calls c) p (rev (map snd (firstn (p_len pr) (c_st c))))) as [a|]; [|discriminate].
      destruct (top (skipn (p_len pr) (c_st c))) as [s0|]; [|discriminate].
      destruct (goto_at tb s0 (p_nt pr)) as [gz|]; [|discriminate].
      destruct (gz <? 0)%Z; [discriminate|]. inversion H; subst c'.
      eexists [_]. reflexivity.
    + destruct (top (skipn (p_len pr) (c_st c))) as [s0|]; [|discriminate].
      destruct (goto_at tb s0 (p_nt pr)) as [gz|]; [|discriminate].
      destruct (gz <? 0)%Z; [discriminate|]. inversion H; subst c'. exists []. reflexivity.
Qed.

(** ** what a syntax error tells about the run *)
Hypothesis NES : forall s s', action_at tb s (t_err tb) <> Some (Some (Shift s')).

Lemma error_step_not_rec fuel st next pos st' next' pos' :
  error_step tb input fuel st next pos <> Recovered st' next' pos'.
Proof.
  unfold error_step.
  destruct (match find_recover tb st 0 with
            | Some k => (rev (map snd (firstn k st)), skipn k st)
            | None => ([], st) end) as [removed st1].
  destruct (top st1) as [s1|]; [|discriminate].
  destruct (action_at tb s1 (t_err tb)) as [[[s2|p|]|]|] eqn:E; try discriminate.
  exfalso. exact (NES _ _ E).
Qed.

(** the configuration in which a syntax error is raised *)
Definition error_cfg (c : cfg) (e : perror) (lg : alog') : Prop :=
  exists s st' pos',
    top (c_st c) = Some s /\
    action_at tb s (ttype (tok_at input (c_i c))) = Some None /\
    error_step tb input (S (length input)) (c_st c) (tok_at input (c_i c)) (S (c_i c)) = NotRecovered st' pos' /\
    mk_error tb None (tok_at input (c_i c)) st' = PErr e /\
    lg = rev (c_log c).

Lemma run_err_inv : forall fuel c e,
  r_out (crunc fuel c) = PErr e -> e_action e = None ->
  exists n c', n < fuel /\ steps n c = Some c' /\ error_cfg c' e (r_log (crunc fuel c)).
Proof.
  induction fuel as [|fuel IH]; intros c e Hr He; [discriminate|].
  destruct (step c) as [c1|] eqn:Hs.
  - rewrite (crunc_step _ _ _ Hs) in *. destruct (IH _ _ Hr He) as (n & c' & Hn & Hst & Hec).
    exists (S n), c'. split; [lia|]. split; [simpl; now rewrite Hs|assumption].
  - exists 0, c. split; [lia|]. split; [reflexivity|].
    unfold step in Hs. unfold crunc in *. cbn [run] in *. unfold error_cfg.
    destruct (top (c_st c)) as [s|]; [|discriminate].
    destruct (action_at tb s (ttype (tok_at input (c_i c)))) as [[[s'|p|]|]|] eqn:Ha; try discriminate.
    + (* reduce that did not go through *)
      destruct (nth_error (t_prods tb) p) as [pr|]; [|discriminate].
      destruct (length (c_st c) <? p_len pr); [discriminate|].
      destruct (p_act pr).
      * destruct (sem (c_calls c) p (rev (map snd (firstn (p_len pr) (c_st c))))) as [a|].
        -- destruct (top (skipn (p_len pr) (c_st c))) as [s0|]; [|discriminate].
           destruct (goto_at tb s0 (p_nt pr)) as [gz|]; [|discriminate].
           destruct (gz <? 0)%Z; discriminate.
        -- exfalso. simpl in Hr. unfold mk_error in Hr.
           destruct (top (skipn (p_len pr) (c_st c))); [|discriminate].
           inversion Hr; subst e. discriminate.
      * destruct (top (skipn (p_len pr) (c_st c))) as [s0|]; [|discriminate].
        destruct (goto_at tb s0 (p_nt pr)) as [gz|]; [|discriminate].
        destruct (gz <? 0)%Z; discriminate.
    + (* accept *)
      destruct (c_st c) as [|[s0 a0] rest]; discriminate.
    + (* error *)
      destruct (error_step tb input (S (length input)) (c_st c) (tok_at input (c_i c)) (S (c_i c)))
        as [st' next' pos'|st' pos'|code|] eqn:Ee; try discriminate.
      * exfalso. eapply error_step_not_rec; eauto.
      * simpl in Hr. exists s, st', pos'. repeat split; auto.
Qed.

(** a syntax-error configuration is final whatever the fuel *)
Lemma error_cfg_final c e lg fuel :
  error_cfg c e lg -> r_out (crunc (S fuel) c) = PErr e.
Proof.
  intros (s & st' & pos' & Ht & Ha & Ee & Hm & _). unfold crunc. cbn [run].
  rewrite Ht, Ha, Ee. exact Hm.
Qed.

(** with a nil action the run never returns [POk] *)
Lemma nil_action_not_ok c s fuel v :
  top (c_st c) = Some s -> action_at tb s (ttype (tok_at input (c_i c))) = Some None ->
  r_out (crunc fuel c) <> POk v.
Proof.
  intros Ht Ha. destruct fuel as [|fuel]; [discriminate|]. unfold crunc. cbn [run]. rewrite Ht, Ha.
  destruct (error_step tb input (S (length input)) (c_st c) (tok_at input (c_i c)) (S (c_i c)))
    as [st' next' pos'|st' pos'|code|] eqn:Ee; try discriminate.
  - exfalso. eapply error_step_not_rec; eauto.
  - simpl. unfold mk_error. destruct (top st'); discriminate.
Qed.

Lemma no_action_not_ok c s fuel v :
  top (c_st c) = Some s -> action_at tb s (ttype (tok_at input (c_i c))) = None ->
  r_out (crunc fuel c) <> POk v.
Proof.
  intros Ht Ha. destruct fuel as [|fuel]; [discriminate|]. unfold crunc. cbn [run]. rewrite Ht, Ha.
  discriminate.
Qed.

(** a run that does not exhaust its fuel reaches a configuration without a next move *)
Lemma run_halts : forall fuel c, r_out (crunc fuel c) <> PFuel ->
  exists n c', steps n c = Some c' /\ step c' = None.
Proof.
  induction fuel as [|fuel IH]; intros c H; [exfalso; apply H; reflexivity|].
  destruct (step c) as [c1|] eqn:Hs.
  - rewrite (crunc_step _ _ _ Hs) in H. destruct (IH _ H) as (n & c' & H1 & H2).
    exists (S n), c'. split; [simpl; now rewrite Hs|assumption].
  - exists 0, c. split; [reflexivity|assumption].
Qed.

Lemma error_step_not_fuel fuel st next pos : error_step tb input fuel st next pos <> RecFuel.
Proof.
  unfold error_step.
  destruct (match find_recover tb st 0 with
            | Some k => (rev (map snd (firstn k st)), skipn k st)
            | None => ([], st) end) as [removed st1].
  destruct (top st1) as [s1|]; [|discriminate].
  destruct (action_at tb s1 (t_err tb)) as [[[s2|p|]|]|] eqn:E; try discriminate.
  exfalso. exact (NES _ _ E).
Qed.

(** ... and conversely a configuration without a next move ends the run, whatever the fuel *)
Lemma stuck_not_fuel c fuel : step c = None -> r_out (crunc (S fuel) c) <> PFuel.
Proof.
  unfold step, crunc. cbn [run]. intros Hs.
  destruct (top (c_st c)) as [s|]; [|discriminate].
  destruct (action_at tb s (ttype (tok_at input (c_i c)))) as [[[s'|p|]|]|] eqn:Ha; try discriminate.
  - destruct (nth_error (t_prods tb) p) as [pr|]; [|discriminate].
    destruct (length (c_st c) <? p_len pr); [discriminate|].
    destruct (p_act pr).
    + destruct (sem (c_calls c) p (rev (map snd (firstn (p_len pr) (c_st c))))) as [a|].
      * destruct (top (skipn (p_len pr) (c_st c))) as [s0|]; [|discriminate].
        destruct (goto_at tb s0 (p_nt pr)) as [gz|]; [|discriminate].
        destruct (gz <? 0)%Z; discriminate.
      * simpl. unfold mk_error. destruct (top (skipn (p_len pr) (c_st c))); discriminate.
    + destruct (top (skipn (p_len pr) (c_st c))) as [s0|]; [|discriminate].
      destruct (goto_at tb s0 (p_nt pr)) as [gz|]; [|discriminate].
      destruct (gz <? 0)%Z; discriminate.
  - destruct (c_st c) as [|[s0 a0] rest]; discriminate.
  - destruct (error_step tb input (S (length input)) (c_st c) (tok_at input (c_i c)) (S (c_i c)))
      as [st' next' pos'|st' pos'|code|] eqn:Ee; try discriminate.
    + exfalso. eapply error_step_not_rec; eauto.
    + simpl. unfold mk_error. destruct (top st'); discriminate.
    + exfalso. eapply error_step_not_fuel; eauto.
Qed.

Lemma halts_not_fuel n c fuel : steps n cfg0 = Some c -> step c = None -> n < fuel ->
  r_out (crunc fuel cfg0) <> PFuel.
Proof.
  intros Hst Hs Hn. replace fuel with (n + S (fuel - n - 1)) by lia.
  rewrite (crunc_steps _ _ _ _ Hst). now apply stuck_not_fuel.
Qed.

End OneInput.

(** ** determinism: a step depends on the input only through the look-ahead token *)
Lemma step_agree in1 in2 c :
  tok_at in1 (c_i c) = tok_at in2 (c_i c) -> step in1 c = step in2 c.
Proof. intros H. unfold step. rewrite H. reflexivity. Qed.

Lemma steps_agree in1 in2 k :
  (forall j, j < k -> tok_at in1 j = tok_at in2 j) ->
  forall n c c', steps in1 n c = Some c' ->
    (forall m c1, m < n -> steps in1 m c = Some c1 -> c_i c1 < k) ->
    steps in2 n c = Some c'.
Proof.
  intros Hag. induction n as [|n IH]; intros c c' H Hlt.
  - exact H.
  - destruct (steps_snoc_inv _ _ _ _ H) as (c1 & H1 & H2).
    assert (H1' : steps in2 n c = Some c1).
    { apply IH; [exact H1|]. intros m c2 Hm. apply Hlt. lia. }
    eapply steps_snoc; [exact H1'|].
    rewrite <- (step_agree in1 in2); [exact H2|]. apply Hag. eapply Hlt; [|exact H1]. lia.
Qed.

(** two inputs agreeing up to index [i]: while the look-ahead index is at most [i] the runs
    are in lockstep *)
Lemma lockstep in1 in2 i :
  (forall j, j <= i -> tok_at in1 j = tok_at in2 j) ->
  forall N c cN, steps in2 N c = Some cN -> step in2 cN = None -> c_i c <= i ->
  exists m c', steps in1 m c = Some c' /\ (step in1 c' = None \/ c_i c' = S i).
Proof.
  intros Hag. induction N as [|N IH]; intros c cN H Hstuck Hi; simpl in H.
  - inversion H; subst cN. exists 0, c. split; [reflexivity|]. left.
    rewrite (step_agree in1 in2) by (apply Hag; exact Hi). exact Hstuck.
  - destruct (step in2 c) as [c1|] eqn:Hs; [|discriminate].
    assert (Hs1 : step in1 c = Some c1) by (rewrite (step_agree in1 in2) by (apply Hag; exact Hi); exact Hs).
    destruct (Nat.le_gt_cases (c_i c1) i) as [Hle|Hgt].
    + destruct (IH _ _ H Hstuck Hle) as (m & c' & H1 & H2).
      exists (S m), c'. split; [simpl; now rewrite Hs1|exact H2].
    + exists 1, c1. split; [simpl; now rewrite Hs1|]. right.
      destruct (step_index _ _ _ Hs1); lia.
Qed.

End Steps.
