(** The parser OBJECT of [LR/ObjParse.v] (two Go slices whose backing arrays survive reset, the stale
    look-ahead) refines the list model of [LR/Parse.v]; what earlier calls left in the object is irrelevant.

    - [k_run_refines]            the loop on the object = the loop on the list, and keeps the invariant;
    - [k_parse_is_parse]         Parse on ANY object record = [parse];
    - [k_history_independent]    one object handed from call to call: every result is that of a fresh [parse];
    - [k_run_garbage_irrelevant] two objects with the same live cells give the same result;
    - a seeded bug in reset (attribute slice re-allocated with length 100) is caught ([bad_history_differs]). *)
From Coq Require Import List ZArith Bool Arith Lia.
From Gocc Require Import LR.Parse LR.ObjParse.
Import ListNotations.

Definition o_inv (o : pobj) : Prop :=
  len (o_state o) = len (o_attrib o) /\ len (o_state o) <= length (arr (o_state o)) /\ len (o_attrib o) <= length (arr (o_attrib o)).
Definition o_abs (o : pobj) : stack := rev (combine (s_view (o_state o)) (s_view (o_attrib o))).

(** * Lists *)
Lemma set_nth_length {A} i (x : A) l : length (set_nth i x l) = length l.
Proof. revert i; induction l; intros [|i]; simpl; auto. Qed.

Lemma firstn_S_set_nth {A} (x : A) l i : i < length l -> firstn (S i) (set_nth i x l) = firstn i l ++ [x].
Proof.
  revert i; induction l; intros i H; simpl in H; [lia|].
  destruct i; [reflexivity|].
  change (a :: firstn (S i) (set_nth i x l) = a :: (firstn i l ++ [x])).
  f_equal. apply IHl. lia.
Qed.

Lemma nth_error_firstn_lt {A} (l : list A) n i : i < n -> nth_error (firstn n l) i = nth_error l i.
Proof.
  revert n i; induction l; intros [|n] [|i] H; simpl; auto; try lia.
  apply IHl. lia.
Qed.

Lemma nth_error_firstn_ge {A} (l : list A) n i : n <= i -> nth_error (firstn n l) i = None.
Proof. intros H. apply nth_error_None. rewrite firstn_length. lia. Qed.

Lemma firstn_S_nth_error {A} (l : list A) n x : nth_error l n = Some x -> firstn (S n) l = firstn n l ++ [x].
Proof.
  revert n; induction l; intros [|n] H; simpl in H; try discriminate.
  - inversion H; reflexivity.
  - change (a :: firstn (S n) l = a :: (firstn n l ++ [x])). f_equal. apply IHl; auto.
Qed.

Lemma combine_app_eq {A B} (l1 l2 : list A) (m1 m2 : list B) :
  length l1 = length m1 -> combine (l1 ++ l2) (m1 ++ m2) = combine l1 m1 ++ combine l2 m2.
Proof.
  revert m1; induction l1; intros [|b m1] H; simpl in *; try discriminate; auto.
  f_equal. apply IHl1. lia.
Qed.

Lemma combine_firstn_eq {A B} (l : list A) (m : list B) n :
  combine (firstn n l) (firstn n m) = firstn n (combine l m).
Proof.
  revert l m; induction n; intros [|a l] [|b m]; simpl; auto.
  f_equal. apply IHn.
Qed.

Lemma map_fst_combine_eq {A B} (l : list A) (m : list B) : length l = length m -> map fst (combine l m) = l.
Proof. revert m; induction l; intros [|b m] H; simpl in *; try discriminate; auto. f_equal. apply IHl. lia. Qed.

Lemma map_snd_combine_eq {A B} (l : list A) (m : list B) : length l = length m -> map snd (combine l m) = m.
Proof. revert m; induction l; intros [|b m] H; simpl in *; try discriminate; auto. f_equal. apply IHl. lia. Qed.

(** * Slices *)
Section SliceLemmas.
Context {A : Type}.
Definition wf (s : slice A) : Prop := len s <= length (arr s).

Lemma s_view_length (s : slice A) : wf s -> length (s_view s) = len s.
Proof. unfold wf, s_view; intros; rewrite firstn_length; lia. Qed.

Lemma s_view_reset (s : slice A) : s_view (s_reset s) = [].
Proof. reflexivity. Qed.

Lemma s_reset_wf (s : slice A) : wf (s_reset s).
Proof. unfold wf; simpl; lia. Qed.

Lemma s_append_len g (s : slice A) x : len (s_append g s x) = S (len s).
Proof. unfold s_append; destruct (_ <? _); reflexivity. Qed.

Lemma s_append_wf g (s : slice A) x : wf s -> wf (s_append g s x).
Proof.
  unfold wf, s_append; intros H. destruct (len s <? length (arr s)) eqn:E; simpl.
  - apply Nat.ltb_lt in E. rewrite set_nth_length. lia.
  - apply Nat.ltb_ge in E. rewrite app_length, firstn_length; simpl. lia.
Qed.

Lemma s_append_view g (s : slice A) x : wf s -> s_view (s_append g s x) = s_view s ++ [x].
Proof.
  unfold wf, s_append, s_view; intros H. destruct (len s <? length (arr s)) eqn:E; simpl len; simpl arr.
  - apply Nat.ltb_lt in E. apply firstn_S_set_nth; auto.
  - apply Nat.ltb_ge in E. rewrite firstn_app, firstn_length.
    replace (S (len s) - Nat.min (len s) (length (arr s))) with 1 by lia.
    rewrite firstn_firstn. replace (Nat.min (S (len s)) (len s)) with (len s) by lia. reflexivity.
Qed.

Lemma s_index_view (s : slice A) i : s_index s i = nth_error (s_view s) i.
Proof.
  unfold s_index, s_view. destruct (i <? len s) eqn:E.
  - apply Nat.ltb_lt in E. symmetry. apply nth_error_firstn_lt; auto.
  - apply Nat.ltb_ge in E. symmetry. apply nth_error_firstn_ge; auto.
Qed.
End SliceLemmas.

(** * The object *)
Definition o_cells (o : pobj) : list (nat * attr) := combine (s_view (o_state o)) (s_view (o_attrib o)).

Definition o_cut (o : pobj) (lo : nat) : pobj :=
  {| o_state := {| arr := arr (o_state o); len := lo |};
     o_attrib := {| arr := arr (o_attrib o); len := lo |};
     o_next := o_next o |}.

Lemma o_inv_wf o : o_inv o -> wf (o_state o) /\ wf (o_attrib o).
Proof. unfold o_inv, wf; intuition. Qed.

Lemma o_views_length o : o_inv o ->
  length (s_view (o_state o)) = len (o_state o) /\ length (s_view (o_attrib o)) = len (o_state o).
Proof.
  intros H. destruct (o_inv_wf o H) as [H1 H2]. destruct H as [E _].
  rewrite (s_view_length _ H1), (s_view_length _ H2). auto.
Qed.

Lemma o_cells_length o : o_inv o -> length (o_cells o) = len (o_state o).
Proof. intros H. destruct (o_views_length o H) as [H1 H2]. unfold o_cells. rewrite combine_length. lia. Qed.

Lemma o_abs_length o : o_inv o -> length (o_abs o) = len (o_state o).
Proof. intros H. unfold o_abs. rewrite rev_length. apply (o_cells_length o H). Qed.

Lemma o_cells_fst o : o_inv o -> map fst (o_cells o) = s_view (o_state o).
Proof. intros H. destruct (o_views_length o H). apply map_fst_combine_eq. congruence. Qed.

Lemma o_cells_snd o : o_inv o -> map snd (o_cells o) = s_view (o_attrib o).
Proof. intros H. destruct (o_views_length o H). apply map_snd_combine_eq. congruence. Qed.

Lemma set_next_abs o t : o_abs (set_next o t) = o_abs o.
Proof. reflexivity. Qed.

Lemma set_next_inv o t : o_inv o -> o_inv (set_next o t).
Proof. intros H; exact H. Qed.

Lemma k_reset_inv o : o_inv (k_reset o).
Proof. unfold o_inv; simpl. lia. Qed.

Lemma k_reset_abs o : o_abs (k_reset o) = [].
Proof. reflexivity. Qed.

Section ObjLemmas.
Variable grow_s : nat -> list nat.
Variable grow_a : nat -> list attr.
Variable tb : tables.
Variable sem : nat -> nat -> list attr -> option attr.
Variable input : list token.

Lemma k_push_inv o s a : o_inv o -> o_inv (k_push grow_s grow_a o s a).
Proof.
  intros H. destruct (o_inv_wf o H) as [H1 H2]. destruct H as [E _].
  unfold o_inv; simpl. rewrite !s_append_len.
  split; [lia|]. split.
  - rewrite <- (s_append_len grow_s (o_state o) s). apply s_append_wf; auto.
  - rewrite <- (s_append_len grow_a (o_attrib o) a). apply s_append_wf; auto.
Qed.

Lemma k_push_abs o s a : o_inv o -> o_abs (k_push grow_s grow_a o s a) = (s, a) :: o_abs o.
Proof.
  intros H. destruct (o_inv_wf o H) as [H1 H2]. destruct (o_views_length o H) as [L1 L2].
  unfold o_abs; simpl. rewrite !s_append_view by auto.
  rewrite combine_app_eq by congruence. simpl. rewrite rev_app_distr. reflexivity.
Qed.

Lemma k_push_next o s a : o_next (k_push grow_s grow_a o s a) = o_next o.
Proof. reflexivity. Qed.

Lemma o_cut_inv o lo : o_inv o -> lo <= len (o_state o) -> o_inv (o_cut o lo).
Proof. unfold o_inv; simpl. intros (E & H1 & H2) H. lia. Qed.

Lemma o_cut_abs o lo : o_inv o -> lo <= len (o_state o) ->
  o_abs (o_cut o lo) = skipn (len (o_state o) - lo) (o_abs o).
Proof.
  intros H Hlo. pose proof (o_cells_length o H) as HL. destruct H as [E _].
  unfold o_abs. fold (o_cells o). rewrite skipn_rev, HL.
  replace (len (o_state o) - (len (o_state o) - lo)) with lo by lia.
  f_equal. unfold o_cells, o_cut, s_view; simpl.
  rewrite <- combine_firstn_eq, !firstn_firstn.
  rewrite <- E. replace (Nat.min lo (len (o_state o))) with lo by lia. reflexivity.
Qed.

Lemma o_cut_next o lo : o_next (o_cut o lo) = o_next o.
Proof. reflexivity. Qed.

(** the last live cell *)
Lemma o_last_cell o i : o_inv o -> len (o_state o) = S i ->
  exists s a, nth_error (o_cells o) i = Some (s, a) /\ o_abs o = (s, a) :: rev (firstn i (o_cells o)).
Proof.
  intros H Hi. pose proof (o_cells_length o H) as HL.
  destruct (nth_error (o_cells o) i) as [[s a]|] eqn:E.
  - exists s, a. split; auto. unfold o_abs. fold (o_cells o).
    rewrite <- (firstn_all (o_cells o)) at 1. rewrite HL, Hi.
    rewrite (firstn_S_nth_error _ _ _ E), rev_app_distr. reflexivity.
  - apply nth_error_None in E. lia.
Qed.

Lemma k_peek_cell o i s a : o_inv o -> nth_error (o_cells o) i = Some (s, a) -> k_peek o i = Some s.
Proof.
  intros H E. unfold k_peek. rewrite s_index_view, <- (o_cells_fst o H).
  apply (map_nth_error fst _ _ E).
Qed.

Lemma k_top_abs o : o_inv o -> k_top o = top (o_abs o).
Proof.
  intros H. unfold k_top. destruct (len (o_state o)) as [|i] eqn:Hi.
  - pose proof (o_abs_length o H) as HL. rewrite Hi in HL. destruct (o_abs o); [reflexivity|discriminate].
  - destruct (o_last_cell o i H Hi) as (s & a & E & Ea). rewrite Ea. simpl.
    apply (k_peek_cell o i s a H E).
Qed.

Lemma k_popN_spec o n : o_inv o ->
  k_popN o n = if length (o_abs o) <? n then None
               else Some (rev (map snd (firstn n (o_abs o))), o_cut o (len (o_state o) - n)).
Proof.
  intros H. rewrite (o_abs_length o H). unfold k_popN.
  destruct (len (o_state o) <? n) eqn:E; [reflexivity|]. apply Nat.ltb_ge in E.
  pose proof (o_cells_length o H) as HL. pose proof (o_cells_snd o H) as HS.
  destruct H as (E1 & H1 & H2).
  replace (length (arr (o_attrib o)) <? len (o_state o)) with false by (symmetry; apply Nat.ltb_ge; lia).
  unfold o_cut. f_equal. f_equal.
  unfold o_abs. fold (o_cells o).
  rewrite firstn_rev, map_rev, rev_involutive, HL, <- skipn_map, HS.
  unfold s_view. rewrite skipn_firstn_comm. rewrite <- E1. f_equal. lia.
Qed.

Lemma k_popN_abs o n : o_inv o -> n <= length (o_abs o) ->
  o_inv (o_cut o (len (o_state o) - n)) /\ o_abs (o_cut o (len (o_state o) - n)) = skipn n (o_abs o).
Proof.
  intros H Hn. rewrite (o_abs_length o H) in Hn. split.
  - apply o_cut_inv; auto. lia.
  - rewrite o_cut_abs by (auto; lia). f_equal. lia.
Qed.

(** ** firstRecoveryState *)
Lemma find_recover_shift st k : find_recover tb st (S k) = option_map S (find_recover tb st k).
Proof.
  revert k; induction st as [|[s a] st IH]; intros k; simpl; auto.
  destruct (recover_at tb s); auto.
Qed.

Lemma find_recover_lt st j : find_recover tb st 0 = Some j -> j < length st.
Proof.
  revert j; induction st as [|[s a] st IH]; intros j; simpl; [discriminate|].
  destruct (recover_at tb s).
  - intros E; inversion E; lia.
  - rewrite find_recover_shift. destruct (find_recover tb st 0) as [j'|]; simpl; [|discriminate].
    intros E; inversion E. specialize (IH j' eq_refl). lia.
Qed.

Definition frs_of (rs : nat) (r : option nat) : option (nat * bool) :=
  match r with Some j => Some (rs - j, true) | None => Some (0, false) end.

Lemma k_frs_loop_spec o : o_inv o -> forall rs s a, nth_error (o_cells o) rs = Some (s, a) ->
  k_frs_loop tb o rs (recover_at tb s) = frs_of rs (find_recover tb (rev (firstn (S rs) (o_cells o))) 0).
Proof.
  intros H. induction rs as [|r IH]; intros s a E.
  - rewrite (firstn_S_nth_error _ _ _ E). simpl. destruct (recover_at tb s); reflexivity.
  - rewrite (firstn_S_nth_error _ _ _ E), rev_app_distr.
    change (rev [(s, a)] ++ rev (firstn (S r) (o_cells o))) with ((s, a) :: rev (firstn (S r) (o_cells o))).
    cbn [k_frs_loop find_recover]. destruct (recover_at tb s) eqn:Er; [reflexivity|].
    destruct (nth_error (o_cells o) r) as [[s' a']|] eqn:E'.
    + rewrite (k_peek_cell o r s' a' H E'). rewrite (IH s' a' eq_refl).
      rewrite find_recover_shift.
      destruct (find_recover tb (rev (firstn (S r) (o_cells o))) 0); reflexivity.
    + apply nth_error_None in E'. assert (nth_error (o_cells o) (S r) <> None) by congruence.
      apply nth_error_Some in H0. lia.
Qed.

Lemma k_first_recovery_spec o : o_inv o ->
  k_first_recovery tb o =
    match len (o_state o) with
    | O => None
    | S i => frs_of i (find_recover tb (o_abs o) 0)
    end.
Proof.
  intros H. unfold k_first_recovery, k_top. destruct (len (o_state o)) as [|i] eqn:Hi; [reflexivity|].
  destruct (o_last_cell o i H Hi) as (s & a & E & Ea).
  fold (k_peek o i). rewrite (k_peek_cell o i s a H E).
  replace (S i - 1) with i by lia. rewrite (k_frs_loop_spec o H i s a E).
  unfold o_abs. fold (o_cells o). rewrite <- (firstn_all (o_cells o)) at 2.
  rewrite (o_cells_length o H), Hi. reflexivity.
Qed.

(** ** Error / newError *)
Definition rec_rel (kr : krecovery) (r : recovery) : Prop :=
  match kr, r with
  | KRec o pos, Recovered st nx pos' => o_inv o /\ o_abs o = st /\ o_next o = nx /\ pos = pos'
  | KNot o pos, NotRecovered st pos' => o_inv o /\ o_abs o = st /\ pos = pos'
  | KPanic c, RecPanic c' => c = c'
  | KFuel, RecFuel => True
  | _, _ => False
  end.

Lemma k_mk_error_abs a t o : o_inv o -> k_mk_error tb a t o = mk_error tb a t (o_abs o).
Proof. intros H. unfold k_mk_error, mk_error. rewrite (k_top_abs o H). reflexivity. Qed.

(** the part of Error after popNonRecoveryStates *)
Lemma k_error_tail fuel o0 o1 removed pos : o_inv o1 ->
  rec_rel
    (match k_top o1 with
      | None => KPanic 10
      | Some s1 =>
        let ea := AErr (o_next o0) removed (expected tb s1) in
        match action_at tb s1 (t_err tb) with
        | None => KPanic 11
        | Some (Some (Shift s2)) =>
          if t_gate tb && negb (recover_at tb s1) then KNot o1 pos else
          let o2 := k_push grow_s grow_a o1 s2 ea in
          match k_top o2 with
          | None => KPanic 10
          | Some s2' =>
            match skip_input tb input fuel s2' (o_next o0) pos with
            | None => KFuel
            | Some (true, next', pos') => KRec (set_next o2 next') pos'
            | Some (false, next', pos') => KNot (set_next o2 next') pos'
            end
          end
        | Some _ => KNot o1 pos
        end
      end)
    (match top (o_abs o1) with
     | None => RecPanic 10
     | Some s1 =>
       let ea := AErr (o_next o0) removed (expected tb s1) in
       match action_at tb s1 (t_err tb) with
       | None => RecPanic 11
       | Some (Some (Shift s2)) =>
         if t_gate tb && negb (recover_at tb s1) then NotRecovered (o_abs o1) pos else
         match skip_input tb input fuel s2 (o_next o0) pos with
         | None => RecFuel
         | Some (true, next', pos') => Recovered ((s2, ea) :: o_abs o1) next' pos'
         | Some (false, _, pos') => NotRecovered ((s2, ea) :: o_abs o1) pos'
         end
       | Some _ => NotRecovered (o_abs o1) pos
       end
     end).
Proof.
  intros H1. rewrite (k_top_abs o1 H1).
  destruct (top (o_abs o1)) as [s1|]; [|reflexivity].
  cbv zeta.
  destruct (action_at tb s1 (t_err tb)) as [[[s2|p|]|]|]; try (simpl; auto; fail).
  destruct (t_gate tb && negb (recover_at tb s1)); [simpl; auto|].
  set (ea := AErr (o_next o0) removed (expected tb s1)).
  pose proof (k_push_inv o1 s2 ea H1) as H2. pose proof (k_push_abs o1 s2 ea H1) as A2.
  rewrite (k_top_abs _ H2), A2. simpl top.
  cbv beta iota.
  destruct (skip_input tb input fuel s2 (o_next o0) pos) as [[[[|] nx] ps]|]; simpl; auto.
Qed.

Lemma k_error_step_spec fuel o pos : o_inv o ->
  rec_rel (k_error_step grow_s grow_a tb input fuel o pos) (error_step tb input fuel (o_abs o) (o_next o) pos).
Proof.
  intros H. unfold k_error_step, error_step. rewrite (k_first_recovery_spec o H).
  pose proof (o_abs_length o H) as HL.
  destruct (len (o_state o)) as [|i] eqn:Hi.
  - destruct (o_abs o); [reflexivity|discriminate].
  - destruct (find_recover tb (o_abs o) 0) as [j|] eqn:Ef; unfold frs_of.
    + pose proof (find_recover_lt _ _ Ef) as Hj.
      replace (S i - 1 - (i - j)) with j by lia.
      rewrite (k_popN_spec o j H). replace (length (o_abs o) <? j) with false by (symmetry; apply Nat.ltb_ge; lia).
      destruct (k_popN_abs o j H) as [H1 A1]; [lia|].
      rewrite <- A1. apply (k_error_tail fuel o _ _ pos H1).
    + apply (k_error_tail fuel o o [] pos H).
Qed.

(** * The loop *)
Theorem k_run_refines_aux : forall fuel o pos calls log, o_inv o ->
  fst (k_run grow_s grow_a tb sem input fuel o pos calls log) = run tb sem input fuel (o_abs o) (o_next o) pos calls log
  /\ o_inv (snd (k_run grow_s grow_a tb sem input fuel o pos calls log)).
Proof.
  induction fuel as [|f IH]; intros o pos calls log H.
  - simpl. auto.
  - cbn [k_run run]. rewrite (k_top_abs o H).
    destruct (top (o_abs o)) as [s|] eqn:Et; [|simpl; auto].
    destruct (action_at tb s (ttype (o_next o))) as [[[s'|p|]|]|] eqn:Ea; [| | | |simpl; auto].
    + (* shift *)
      set (o' := set_next (k_push grow_s grow_a o s' (ATok (o_next o))) (tok_at input pos)).
      assert (H' : o_inv o') by (apply set_next_inv, k_push_inv; auto).
      destruct (IH o' (S pos) calls log H') as [R I]. split; [|exact I].
      rewrite R. unfold o'. rewrite set_next_abs, k_push_abs by auto. reflexivity.
    + (* reduce *)
      destruct (nth_error (t_prods tb) p) as [pr|]; [|simpl; auto].
      rewrite (k_popN_spec o (p_len pr) H).
      destruct (length (o_abs o) <? p_len pr) eqn:En; [simpl; auto|]. apply Nat.ltb_ge in En.
      destruct (k_popN_abs o (p_len pr) H En) as [H1 A1].
      set (o1 := o_cut o (len (o_state o) - p_len pr)) in *.
      set (kids := rev (map snd (firstn (p_len pr) (o_abs o)))).
      rewrite <- A1.
      destruct (if p_act pr then (sem calls p kids, S calls, (p, kids) :: log)
                else (Some match kids with [] => ANil | k :: _ => k end, calls, log)) as [[res calls'] log'].
      destruct res as [a|].
      * rewrite (k_top_abs o1 H1). destruct (top (o_abs o1)) as [s0|]; [|simpl; auto].
        destruct (goto_at tb s0 (p_nt pr)) as [g|]; [|simpl; auto].
        destruct (g <? 0)%Z; [simpl; auto|].
        assert (H2 : o_inv (k_push grow_s grow_a o1 (Z.to_nat g) a)) by (apply k_push_inv; auto).
        destruct (IH _ pos calls' log' H2) as [R I]. split; [|exact I].
        rewrite R, k_push_abs by auto. reflexivity.
      * simpl. rewrite (k_mk_error_abs _ _ o1 H1). auto.
    + (* accept *)
      rewrite (k_popN_spec o 1 H).
      pose proof (o_abs_length o H) as HL.
      destruct (o_abs o) as [|[s0 a0] st] eqn:Eabs; [discriminate|].
      simpl length. simpl Nat.ltb. cbn [firstn map snd rev app].
      destruct (k_popN_abs o 1 H) as [H1 _]; [rewrite Eabs; simpl; lia|].
      simpl. auto.
    + (* error *)
      pose proof (k_error_step_spec (S (length input)) o pos H) as HR.
      destruct (k_error_step grow_s grow_a tb input (S (length input)) o pos) as [o' pos'|o' pos'|c|];
      destruct (error_step tb input (S (length input)) (o_abs o) (o_next o) pos) as [st nx ps|st ps|c'|];
      simpl in HR; try contradiction.
      * destruct HR as (H' & A' & N' & P'). subst.
        apply (IH o' ps calls log H').
      * destruct HR as (H' & A' & P'). subst. simpl.
        rewrite (k_mk_error_abs _ _ o' H'). auto.
      * subst. simpl; auto.
      * simpl; auto.
Qed.

End ObjLemmas.

(** * The theorems *)

(* the loop on the object refines the loop on the list, and keeps the invariant *)
Theorem k_run_refines : forall grow_s grow_a tb sem input fuel o pos calls log, o_inv o ->
  fst (k_run grow_s grow_a tb sem input fuel o pos calls log) = run tb sem input fuel (o_abs o) (o_next o) pos calls log
  /\ o_inv (snd (k_run grow_s grow_a tb sem input fuel o pos calls log)).
Proof. intros. apply k_run_refines_aux; auto. Qed.

(* Parse on ANY object record (no invariant assumed: whatever the arrays hold, whatever the lengths, whatever nextToken is) *)
Theorem k_parse_is_parse : forall grow_s grow_a tb sem input fuel o,
  fst (k_parse grow_s grow_a tb sem input fuel o) = parse tb sem input fuel
  /\ o_inv (snd (k_parse grow_s grow_a tb sem input fuel o)).
Proof.
  intros. unfold k_parse, parse, k_Reset.
  set (o0 := set_next (k_push grow_s grow_a (k_reset o) 0 ANil) (tok_at input 0)).
  assert (H0 : o_inv o0) by (apply set_next_inv, k_push_inv, k_reset_inv).
  destruct (k_run_refines grow_s grow_a tb sem input fuel o0 1 0 [] H0) as [R I].
  split; [|exact I]. rewrite R. unfold o0.
  rewrite set_next_abs, k_push_abs by apply k_reset_inv. reflexivity.
Qed.

(* histories: one object handed from call to call *)
Theorem k_history_independent : forall grow_s grow_a tb fuel calls o,
  k_history grow_s grow_a tb fuel o calls = map (fun c => parse tb (fst c) (snd c) fuel) calls.
Proof.
  intros grow_s grow_a tb fuel calls. induction calls as [|[sem input] rest IH]; intros o; simpl; [reflexivity|].
  destruct (k_parse_is_parse grow_s grow_a tb sem input fuel o) as [R _].
  destruct (k_parse grow_s grow_a tb sem input fuel o) as [res o'].
  simpl in R. rewrite R, IH. reflexivity.
Qed.

(* garbage is irrelevant: two objects with the same live cells give the same result *)
Theorem k_run_garbage_irrelevant : forall grow_s grow_a grow_s' grow_a' tb sem input fuel o o' pos calls log,
  o_inv o -> o_inv o' -> o_abs o = o_abs o' -> o_next o = o_next o' ->
  fst (k_run grow_s grow_a tb sem input fuel o pos calls log) = fst (k_run grow_s' grow_a' tb sem input fuel o' pos calls log).
Proof.
  intros until log. intros H H' A N.
  destruct (k_run_refines grow_s grow_a tb sem input fuel o pos calls log H) as [R _].
  destruct (k_run_refines grow_s' grow_a' tb sem input fuel o' pos calls log H') as [R' _].
  rewrite R, R', A, N. reflexivity.
Qed.

(** * The theorems have teeth: a seeded bug in reset is caught

    Seeded bug: once the attribute array has grown beyond its initial 100 cells, reset re-allocates it as a slice of
    LENGTH 100 (make([]Attrib, 100) instead of [:0]) while the state slice is cut to length 0: the two slices are no
    longer aligned, and popN returns cells the current run never wrote. *)
Definition k_reset_bad (o : pobj) : pobj :=
  {| o_state := s_reset (o_state o);
     o_attrib := if 100 <? length (arr (o_attrib o)) then {| arr := repeat ANil 100; len := 100 |}
                 else s_reset (o_attrib o);
     o_next := o_next o |}.

Definition k_parse_bad grow_s grow_a tb sem input (fuel : nat) (o : pobj) : result * pobj :=
  k_run grow_s grow_a tb sem input fuel
        (set_next (k_push grow_s grow_a (k_reset_bad o) 0 ANil) (tok_at input 0)) 1 0 [].

Fixpoint k_history_bad (grow_s : nat -> list nat) (grow_a : nat -> list attr) (tb : tables)
                       (fuel : nat) (o : pobj) (calls : list ((nat -> nat -> list attr -> option attr) * list token))
  : list result :=
  match calls with
  | [] => []
  | (sem, input) :: rest =>
    let '(res, o') := k_parse_bad grow_s grow_a tb sem input fuel o in
    res :: k_history_bad grow_s grow_a tb fuel o' rest
  end.

(** Terminals: 0 INVALID, 1 end of input, 2 [a], 3 [b].  Nonterminals: 0 S', 1 S.
      0: S' -> S      1: S -> a S      2: S -> b
    canonical LR(1) automaton (every look-ahead is the end of input):
      0: S' -> .S  S -> .a S  S -> .b     1: S' -> S.     2: S -> a.S  S -> .a S  S -> .b     3: S -> b.     4: S -> a S. *)
Definition tb_ex : tables := {|
  t_states := [
    {| s_actions := [None; None; Some (Shift 2); Some (Shift 3)]; s_recover := false; s_gotos := [(-1)%Z; 1%Z] |};
    {| s_actions := [None; Some Accept; None; None]; s_recover := false; s_gotos := [(-1)%Z; (-1)%Z] |};
    {| s_actions := [None; None; Some (Shift 2); Some (Shift 3)]; s_recover := false; s_gotos := [(-1)%Z; 4%Z] |};
    {| s_actions := [None; Some (Reduce 2); None; None]; s_recover := false; s_gotos := [(-1)%Z; (-1)%Z] |};
    {| s_actions := [None; Some (Reduce 1); None; None]; s_recover := false; s_gotos := [(-1)%Z; (-1)%Z] |} ];
  t_prods := [ {| p_nt := 0; p_len := 1; p_act := false |};
               {| p_nt := 1; p_len := 2; p_act := true |};
               {| p_nt := 1; p_len := 1; p_act := true |} ];
  t_err := 0; t_gate := false |}.

Fixpoint toks_from (i : nat) (l : list nat) : list token :=
  match l with [] => [] | t :: r => {| ttype := t; tid := i |} :: toks_from (S i) r end.

(** first call: 101 [a] then [b] (the stack reaches 103 cells: both arrays are re-allocated); second call: "a b" *)
Definition hist_ex : list ((nat -> nat -> list attr -> option attr) * list token) :=
  [ (sem_node None, toks_from 0 (repeat 2 101 ++ [3]));
    (sem_node None, toks_from 0 [2; 3]) ].

Definition tk_ex (ty i : nat) : token := {| ttype := ty; tid := i |}.

(** the correct object: the second call returns what a fresh parser returns *)
Example good_history_second :
  nth_error (k_history go_grow_s go_grow_a tb_ex 300 (k_new go_grow_s go_grow_a) hist_ex) 1 =
  Some (parse tb_ex (sem_node None) (toks_from 0 [2; 3]) 300)
  /\ parse tb_ex (sem_node None) (toks_from 0 [2; 3]) 300 =
     {| r_out := POk (ANode 1 [ATok (tk_ex 2 0); ANode 2 [ATok (tk_ex 3 1)]]);
        r_log := [(2, [ATok (tk_ex 3 1)]); (1, [ATok (tk_ex 2 0); ANode 2 [ATok (tk_ex 3 1)]])];
        r_scans := 3 |}.
Proof. vm_compute. split; reflexivity. Qed.

(** the first call of the seeded variant is still right (the arrays had not grown yet) *)
Example bad_history_first :
  nth_error (k_history_bad go_grow_s go_grow_a tb_ex 300 (k_new go_grow_s go_grow_a) hist_ex) 0 =
  Some (parse tb_ex (sem_node None) (toks_from 0 (repeat 2 101 ++ [3])) 300)
  /\ match r_out (parse tb_ex (sem_node None) (toks_from 0 (repeat 2 101 ++ [3])) 300) with POk _ => True | _ => False end.
Proof.
  split; [|vm_compute; exact I].
  vm_cast_no_check (eq_refl (Some (parse tb_ex (sem_node None) (toks_from 0 (repeat 2 101 ++ [3])) 300))).
Qed.

(** the second call of the seeded variant hands stale/zero cells to the actions *)
Example bad_history_second :
  nth_error (k_history_bad go_grow_s go_grow_a tb_ex 300 (k_new go_grow_s go_grow_a) hist_ex) 1 =
  Some {| r_out := POk (ANode 1 [ANil; ANode 2 [ANil]]);
          r_log := [(2, [ANil]); (1, [ANil; ANode 2 [ANil]])];
          r_scans := 3 |}.
Proof. vm_compute. reflexivity. Qed.

Example bad_history_differs :
  nth_error (k_history_bad go_grow_s go_grow_a tb_ex 300 (k_new go_grow_s go_grow_a) hist_ex) 1 <>
  Some (parse tb_ex (sem_node None) (toks_from 0 [2; 3]) 300)
  /\ k_history go_grow_s go_grow_a tb_ex 300 (k_new go_grow_s go_grow_a) hist_ex =
     map (fun c => parse tb_ex (fst c) (snd c) 300) hist_ex.
Proof.
  split.
  - rewrite bad_history_second, (proj2 good_history_second). discriminate.
  - apply k_history_independent.
Qed.

Print Assumptions k_run_refines.
Print Assumptions k_parse_is_parse.
Print Assumptions k_history_independent.
Print Assumptions k_run_garbage_irrelevant.
