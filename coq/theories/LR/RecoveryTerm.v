(** Property C07, part 5: termination WITH error recovery, for canonical LR(1) tables.

    Hypotheses: [valid_backward], [valid_forward] (conflict-free tables of the full grammar,
    error alternatives included) and the canonicity checks [x_null], [x_first], [x_prod],
    [x_closure] of Exact.v ([no_error_shift] is NOT assumed, nothing is assumed about the
    recovery flags).

    Key fact ([action_progress]): in a configuration whose stack is a path of the automaton (in
    particular right after a successful recovery) and whose top state has a non-nil action for
    the look-ahead, the parser makes Shift/Reduce moves only - no error - until it shifts the
    look-ahead or accepts.  So every recovery is followed by the shift of a token (or by
    acceptance) before the next error: each error consumes at least one token, and the parse
    returns ([C07_terminates]).

    The proof does not use valid-item theory: a complete item [A -> alpha ., a] of the top state
    comes from a dot-0 item of the state below [alpha], which [x_closure] justifies by an
    EARLIER item [B -> beta . A gamma, b] of the same state with [a] in FIRST(gamma b); after the
    reduce either [gamma] derives a string beginning with [a] - then a virtual input and the
    small-step completeness theorem (CompleteSteps.v) show that [a] is shifted - or [gamma] is
    nullable and [a = b]: the parser reaches [B -> beta A gamma ., a] with the same look-ahead
    and the argument repeats, lower in the stack or earlier in the item list. *)
From Coq Require Import List Arith ZArith Lia Bool.
From Gocc Require Import LR.Parse LR.Validate LR.ValidateProofs LR.Trees LR.Complete LR.Derive
  LR.Steps LR.Exact LR.CompleteSteps LR.Recovery.
Import ListNotations.

Lemma In_skipn_r {A} (x : A) n l : In x (skipn n l) -> In x l.
Proof. intros H. rewrite <- (firstn_skipn n l). apply in_or_app. now right. Qed.

Lemma x_recover'_eq tb : x_recover' tb = x_recover tb.
Proof. reflexivity. Qed.

(** * Two inputs that agree on the current look-ahead: lockstep until it is consumed *)
Section Lock.
Variable tb : tables.
Variable sem : nat -> nat -> list attr -> option attr.

Lemma lock_progress in1 in2 : forall N c cN,
  steps tb sem in2 N c = Some cN -> tok_at in1 (c_i c) = tok_at in2 (c_i c) ->
  (exists m c', steps tb sem in1 m c = Some c' /\ c_i c' = S (c_i c)) \/
  (steps tb sem in1 N c = Some cN /\ c_i cN = c_i c).
Proof.
  induction N as [|N IH]; intros c cN H Ht; simpl in H.
  - inversion H; subst cN. right. split; reflexivity.
  - destruct (step tb sem in2 c) as [c1|] eqn:Hs; [|discriminate].
    assert (Hs1 : step tb sem in1 c = Some c1) by (rewrite (step_agree tb sem in1 in2 c Ht); exact Hs).
    destruct (step_index _ _ _ _ _ Hs) as [Hi|Hi].
    + destruct (IH c1 cN H) as [(m & c' & Hm & Hc)|[Hm Hc]]; [rewrite Hi; exact Ht| |].
      * left. exists (S m), c'. split; [simpl; rewrite Hs1; exact Hm|congruence].
      * right. split; [simpl; rewrite Hs1; exact Hm|congruence].
    + left. exists 1, c1. split; [simpl; rewrite Hs1; reflexivity|exact Hi].
Qed.

End Lock.

Section Term.
Variable g : grammar.
Variable tb : tables.
Variable an : annot.
Variable sem : nat -> nat -> list attr -> option attr.
Variable input : list token.

Hypothesis VF : valid_forward g tb an = true.
Hypothesis VB : valid_backward g tb an = true.
Hypothesis XN : x_null g an = true.
Hypothesis XF : x_first g tb an = true.
Hypothesis XP : x_prod g tb an = true.
Hypothesis XCl : x_closure g tb an = true.
Hypothesis sem_total : forall i p kids, sem i p kids <> None.
Hypothesis INR : Forall (fun t => ttype t < nterms tb) input.

Notation items_of := (items_of an).
Notation bot := [(0, ANil)].

Lemma SH : shape_P g tb an.
Proof. apply shape_ok_P. unfold valid_forward in VF. rewrite !andb_true_iff in VF. tauto. Qed.

Lemma BW : backward_P g tb an.
Proof. apply valid_backward_P; [exact SH|exact VB]. Qed.

Lemma NUL : forall n, nullable_nt an n = true -> der g (NT n) [].
Proof. apply x_null_P. exact XN. Qed.

(** progress: Shift/Reduce moves only, until the look-ahead is consumed or the parse accepts *)
Definition Prog (c : cfg) : Prop :=
  exists n c', steps tb sem input n c = Some c' /\
    (c_i c' = S (c_i c) \/ (c_i c' = c_i c /\ accepting tb input c')).

Lemma Prog_steps n c c1 : steps tb sem input n c = Some c1 -> c_i c1 = c_i c -> Prog c1 -> Prog c.
Proof.
  intros Hst Hi (m & c' & Hm & Hc). exists (n + m), c'. split.
  - eapply steps_app; eauto.
  - rewrite <- Hi. exact Hc.
Qed.

(** ** a dot-0 item other than the start item is justified by an item of the same state *)
Lemma justified s q b :
  s < nstates tb -> In (q, 0, b) (items_of s) -> q <> 0 ->
  exists it, In it (items_of s) /\ just_by g an q b it = true.
Proof.
  intros Hs Hin Hq.
  set (P := fun it : item => match it with
                             | (q', O, b') => q' <> 0 -> exists it', In it' (items_of s) /\ just_by g an q' b' it' = true
                             | _ => True end).
  assert (H : P (q, 0, b)).
  { apply (just_list_ind g an P (items_of s)) with (rest := items_of s) (acc := []).
    - intros q' b' it Hq' Hit _ Hj. simpl. intros _. exists it. auto.
    - apply (x_closure_P g tb an XCl s Hs).
    - intros it [].
    - auto.
    - intros p k la _. exact I.
    - intros la _. simpl. intros Hc. congruence.
    - exact Hin. }
  exact (H Hq).
Qed.

(** ** the claim for an item [it = (p, k, la)] of the state on top of [cells]: once the symbol after
    the dot has been pushed, with a look-ahead compatible with the rest of the item, the parser
    progresses *)
Definition Claim (cells : stack) (it : item) : Prop :=
  let '(p, k, la) := it in
  forall pr X s' v i calls lg,
    nth_error g p = Some pr -> nth_error (rhs pr) k = Some X -> trans tb (tops cells) X = Some s' ->
    In (ttype (tok_at input i)) (first_seq an (skipn (S k) (rhs pr)) la) ->
    Prog (mkc ((s', v) :: cells ++ bot) i calls lg).

Lemma core cells sg p k la pr :
  wfp tb cells sg -> In (p, k, la) (items_of (tops cells)) -> nth_error g p = Some pr ->
  (p <> 0 -> forall v' i calls lg s'',
     trans tb (tops (skipn k cells)) (NT (lhs pr)) = Some s'' -> ttype (tok_at input i) = la ->
     Prog (mkc ((s'', v') :: skipn k cells ++ bot) i calls lg)) ->
  Claim cells (p, k, la).
Proof.
  intros Hwf Hin Hp K pr' X s' v i calls lg Hp' HX Htr Hla.
  rewrite Hp in Hp'. inversion Hp'; subst pr'. clear Hp'.
  set (next := tok_at input i) in *. set (a := ttype next) in *.
  set (beta := skipn (S k) (rhs pr)) in *.
  pose proof (tops_lt g tb an SH cells sg Hwf) as Hs0.
  destruct (first_seq_exact g an NUL beta la a) as (y & Hy & Hhd).
  { intros Y HY. apply (x_prod_P g tb an XP _ _ _ _ _ Hs0 Hin Hp). eapply In_skipn_r; exact HY. }
  { intros n b Hn Hb. apply (x_first_P g tb an NUL XF _ _ _ _ _ Hs0 Hin Hp); [eapply In_skipn_r; exact Hn|exact Hb]. }
  { exact Hla. }
  (* the virtual input: the real look-ahead, then tokens spelling the rest of [y], then a token
     of type [la] *)
  set (mk := fun ty => {| ttype := ty; tid := 0 |}).
  set (w2 := match y with [] => [] | _ :: y' => next :: map mk y' end).
  set (tk := match y with [] => next | _ :: _ => mk la end).
  assert (Hw2 : map ttype w2 = y).
  { unfold w2. destruct y as [|a0 y']; [reflexivity|]. simpl in Hhd. cbn [map]. f_equal; [exact (eq_sym Hhd)|].
    rewrite map_map. cbn. apply map_id. }
  assert (Htk : ttype tk = la).
  { unfold tk. destruct y as [|a0 y']; [simpl in Hhd; exact (eq_sym Hhd)|reflexivity]. }
  assert (Hhead : exists r, w2 ++ [tk] = next :: r).
  { unfold w2, tk. destruct y as [|a0 y']; simpl; eauto. }
  set (in2 := repeat next i ++ w2 ++ [tk]).
  assert (Hsk : skipn i in2 = w2 ++ [tk]).
  { unfold in2. rewrite <- (repeat_length next i) at 1. apply skipn_length_app. }
  assert (Htok2 : tok_at in2 i = next).
  { destruct Hhead as [r Hr]. apply (tok_at_skipn in2 i next r). rewrite Hsk. exact Hr. }
  assert (Hla2 : ttype (tok_at in2 (i + length w2)) = la).
  { rewrite (tok_at_skipn in2 (i + length w2) tk []); [exact Htk|]. apply skipn_app_shift. exact Hsk. }
  destruct (proj2 (der_wt g) _ _ Hy w2 Hw2) as [ts Hts].
  destruct (goto_spec g tb an VF _ _ _ _ _ _ Hin Hp HX) as (s'2 & Htr2 & Hin').
  rewrite Htr in Htr2. inversion Htr2; subst s'2. clear Htr2.
  set (st := (s', v) :: cells ++ bot).
  pose proof (proj2 (simulation_s g tb an sem in2 VF sem_total) _ _ _ Hts
                st s' p pr (S k) la i [tk] calls lg eq_refl Hin' Hp eq_refl Hsk Hla2) as Hsim.
  set (c := mkc st i calls lg) in *.
  assert (Hagree : tok_at input (c_i c) = tok_at in2 (c_i c)) by (symmetry; exact Htok2).
  destruct Hsim as [HA|[_ HB]].
  2:{ (* production 0 inside the virtual tree: the tables accept earlier *)
      destruct HB as (m & c'' & _ & Hst & Hacc).
      destruct (lock_progress tb sem input in2 m c c'' Hst Hagree) as [(m' & c' & Hm' & Hc')|[Hm' Hc']].
      - exists m', c'. split; [exact Hm'|left; exact Hc'].
      - exists m, c''. split; [exact Hm'|right]. split; [exact Hc'|].
        destruct Hacc as (sx & Htx & Hax). exists sx. split; [exact Htx|].
        rewrite Hc' in *. cbn [c c_i mkc] in *. fold next. rewrite Htok2 in Hax. exact Hax. }
  destruct (tevals tb sem ts calls lg) as [[vs c1] lg1] eqn:Ev.
  destruct (HA _ _ _ eq_refl) as (cells2 & s'' & Hlen2 & _ & Htop2 & Hitem & Hst).
  destruct (lock_progress tb sem input in2 _ c _ Hst Hagree) as [(m' & c' & Hm' & Hc')|[Hm' Hc']].
  { exists m', c'. split; [exact Hm'|left; exact Hc']. }
  (* the look-ahead was not consumed: [y] is empty, the item is complete, same look-ahead *)
  cbn [c c_i mkc] in Hc'.
  assert (Hy0 : y = []).
  { destruct y as [|a0 y']; [reflexivity|]. exfalso. unfold w2 in Hc'. simpl in Hc'. lia. }
  assert (Hw0 : length w2 = 0) by lia.
  rewrite Hw0, Nat.add_0_r in *. clear Hc'.
  assert (Hla_a : la = a) by (rewrite Hy0 in Hhd; exact Hhd).
  assert (Hk1 : S k + length beta = length (rhs pr)).
  { unfold beta. rewrite skipn_length. assert (k < length (rhs pr)) by (apply nth_error_Some; congruence). lia. }
  rewrite Hk1 in Hitem.
  assert (Hnone : nth_error (rhs pr) (length (rhs pr)) = None) by (apply nth_error_None; lia).
  destruct (complete_spec g tb an VF _ _ _ _ _ Hitem Hp Hnone) as [[Hne Hact]|(H0 & Hl & Hact)].
  - (* reduce by [p], then the continuation *)
    destruct (item_prefix_p g tb an BW cells sg Hwf _ _ _ _ Hin Hp) as (Hkc & _ & Hin0).
    destruct (prods_spec g tb an VF _ _ Hp) as (pw & Hpw & Hnt & Hpl).
    destruct (B_demand _ _ _ BW _ _ _ _ Hin0 Hne Hp) as [sgo Hsgo].
    unfold goto_nat in Hsgo.
    destruct (goto_at tb (tops (skipn k cells)) (lhs pr)) as [z|] eqn:Hg; [|discriminate].
    destruct (z <? 0)%Z eqn:Hz; [discriminate|]. clear Hsgo.
    assert (Hstack : cells2 ++ st = (cells2 ++ (s', v) :: firstn k cells) ++ (skipn k cells ++ bot)).
    { unfold st. rewrite <- app_assoc. cbn [app]. f_equal. f_equal. now rewrite app_assoc, firstn_skipn. }
    destruct (red_result tb sem p (rev (map snd (cells2 ++ (s', v) :: firstn k cells))) c1 lg1)
      as [[v3 c3] lg3] eqn:Er.
    assert (Hstep : step tb sem input (mkc (cells2 ++ st) i c1 lg1) =
                    Some (mkc ((Z.to_nat z, v3) :: skipn k cells ++ bot) i c3 lg3)).
    { rewrite Hstack.
      apply (step_reduce_s tb sem input sem_total _ _ s'' (tops (skipn k cells)) i c1 lg1 p pw z v3 c3 lg3).
      - rewrite <- Hstack. exact Htop2.
      - fold next. fold a. rewrite <- Hla_a. exact Hact.
      - exact Hpw.
      - rewrite app_length. cbn [length]. rewrite firstn_length_le by exact Hkc. lia.
      - apply top_app_bottom.
      - rewrite Hnt. exact Hg.
      - exact Hz.
      - exact Er. }
    apply (Prog_steps (S (sizes ts)) c (mkc ((Z.to_nat z, v3) :: skipn k cells ++ bot) i c3 lg3)).
    + eapply steps_snoc; [exact Hm'|exact Hstep].
    + reflexivity.
    + apply (K Hne).
      * cbn [trans]. unfold goto_nat. now rewrite Hg, Hz.
      * fold next. fold a. now rewrite Hla_a.
  - (* the start production is complete: accept *)
    exists (sizes ts), (mkc (cells2 ++ st) i c1 lg1). split; [exact Hm'|right]. split; [reflexivity|].
    exists s''. split; [exact Htop2|]. cbn [c_i mkc]. fold next. fold a. rewrite <- Hla_a. exact Hact.
Qed.

(** the continuation of [core], from a justification of the dot-0 item *)
Lemma continue_by cells' p pr la it :
  nth_error g p = Some pr -> just_by g an p la it = true -> Claim cells' it ->
  forall v' i calls lg s'',
    trans tb (tops cells') (NT (lhs pr)) = Some s'' -> ttype (tok_at input i) = la ->
    Prog (mkc ((s'', v') :: cells' ++ bot) i calls lg).
Proof.
  intros Hp Hj HC v' i calls lg s'' Htr Hty. destruct it as [[p1 k1] la1].
  destruct (just_by_P g an _ _ _ _ _ Hj) as (pr1 & prq & Hp1 & Hq & Hk1 & Hb).
  rewrite Hp in Hq. inversion Hq; subst prq.
  apply (HC pr1 (NT (lhs pr)) s'' v' i calls lg Hp1 Hk1 Htr). rewrite Hty. exact Hb.
Qed.

Theorem all_claims : forall n cells sg, length cells <= n -> wfp tb cells sg ->
  forall it, In it (items_of (tops cells)) -> Claim cells it.
Proof.
  induction n as [|n IHn]; intros cells sg Hlen Hwf.
  - (* the empty stack of cells: only dot-0 items *)
    pose proof (tops_lt g tb an SH cells sg Hwf) as Hs0.
    apply (just_list_ind g an (Claim cells) (items_of (tops cells))) with (acc := []).
    + intros q b it Hq Hit HP Hj. destruct it as [[p1 k1] la1].
      destruct (just_by_P g an _ _ _ _ _ Hj) as (pr1 & prq & Hp1 & Hpq & Hk1 & Hb).
      pose proof (closure_spec g tb an VF _ _ _ _ _ _ _ _ _ Hit Hp1 Hk1 Hpq eq_refl Hb) as Hin0.
      apply (core cells sg q 0 b prq Hwf Hin0 Hpq). intros _.
      cbn [skipn]. apply (continue_by cells q prq b (p1, k1, la1) Hpq Hj HP).
    + apply (x_closure_P g tb an XCl _ Hs0).
    + intros it [].
    + auto.
    + intros p k la Hin. exfalso.
      destruct (B_items _ _ _ BW _ _ _ _ Hin) as (pr & Hp & _).
      destruct (item_prefix_p g tb an BW cells sg Hwf _ _ _ _ Hin Hp) as (Hk & _). lia.
    + intros la Hin. destruct (B_items _ _ _ BW _ _ _ _ Hin) as (pr & Hp & _).
      apply (core cells sg 0 0 la pr Hwf Hin Hp). intros Hc. congruence.
  - pose proof (tops_lt g tb an SH cells sg Hwf) as Hs0.
    apply (just_list_ind g an (Claim cells) (items_of (tops cells))) with (acc := []).
    + intros q b it Hq Hit HP Hj. destruct it as [[p1 k1] la1].
      destruct (just_by_P g an _ _ _ _ _ Hj) as (pr1 & prq & Hp1 & Hpq & Hk1 & Hb).
      pose proof (closure_spec g tb an VF _ _ _ _ _ _ _ _ _ Hit Hp1 Hk1 Hpq eq_refl Hb) as Hin0.
      apply (core cells sg q 0 b prq Hwf Hin0 Hpq). intros _.
      cbn [skipn]. apply (continue_by cells q prq b (p1, k1, la1) Hpq Hj HP).
    + apply (x_closure_P g tb an XCl _ Hs0).
    + intros it [].
    + auto.
    + (* kernel item: the continuation lives strictly lower in the stack *)
      intros p k la Hin. destruct (B_items _ _ _ BW _ _ _ _ Hin) as (pr & Hp & _).
      apply (core cells sg p (S k) la pr Hwf Hin Hp). intros Hne.
      destruct (item_prefix_p g tb an BW cells sg Hwf _ _ _ _ Hin Hp) as (Hk & _ & Hin0).
      set (cells' := skipn (S k) cells) in *.
      pose proof (wfp_skipn tb cells sg Hwf (S k)) as Hwf'. fold cells' in Hwf'.
      assert (Hlen' : length cells' <= n) by (unfold cells'; rewrite skipn_length; lia).
      destruct (justified _ _ _ (tops_lt g tb an SH _ _ Hwf') Hin0 Hne) as (it' & Hit' & Hj').
      apply (continue_by cells' p pr la it' Hp Hj').
      apply (IHn cells' _ Hlen' Hwf' it' Hit').
    + intros la Hin. destruct (B_items _ _ _ BW _ _ _ _ Hin) as (pr & Hp & _).
      apply (core cells sg 0 0 la pr Hwf Hin Hp). intros Hc. congruence.
Qed.

(** ** a non-nil action leads to the shift of the look-ahead, or to acceptance, without error *)
Theorem action_progress cells sg i calls lg act :
  wfp tb cells sg ->
  action_at tb (tops cells) (ttype (tok_at input i)) = Some (Some act) ->
  Prog (mkc (cells ++ bot) i calls lg).
Proof.
  intros Hwf Hact. destruct act as [s'|q|].
  - exists 1, (mkc ((s', ATok (tok_at input i)) :: cells ++ bot) (S i) calls lg). split; [|left; reflexivity].
    cbn [steps]. rewrite (step_shift_s tb sem input _ (tops cells) i calls lg s' (top_app_bottom cells) Hact).
    reflexivity.
  - destruct (B_reduce _ _ _ BW _ _ _ Hact) as (Hq & prq & Hpq & Hin).
    destruct (item_prefix_p g tb an BW cells sg Hwf _ _ _ _ Hin Hpq) as (Hk & _ & Hin0).
    set (n := length (rhs prq)) in *. set (cells' := skipn n cells) in *.
    pose proof (wfp_skipn tb cells sg Hwf n) as Hwf'. fold cells' in Hwf'.
    destruct (prods_spec g tb an VF _ _ Hpq) as (pw & Hpw & Hnt & Hpl).
    destruct (B_demand _ _ _ BW _ _ _ _ Hin0 Hq Hpq) as [sgo Hsgo].
    unfold goto_nat in Hsgo.
    destruct (goto_at tb (tops cells') (lhs prq)) as [z|] eqn:Hg; [|discriminate].
    destruct (z <? 0)%Z eqn:Hz; [discriminate|]. clear Hsgo.
    destruct (red_result tb sem q (rev (map snd (firstn n cells))) calls lg) as [[v3 c3] lg3] eqn:Er.
    assert (Hstep : step tb sem input (mkc (cells ++ bot) i calls lg) =
                    Some (mkc ((Z.to_nat z, v3) :: cells' ++ bot) i c3 lg3)).
    { rewrite <- (firstn_skipn n cells) at 1. rewrite <- app_assoc. fold cells'.
      apply (step_reduce_s tb sem input sem_total _ _ (tops cells) (tops cells') i calls lg q pw z v3 c3 lg3).
      - rewrite app_assoc. unfold cells'. rewrite firstn_skipn. apply top_app_bottom.
      - exact Hact.
      - exact Hpw.
      - rewrite firstn_length_le by exact Hk. fold n. lia.
      - apply top_app_bottom.
      - rewrite Hnt. exact Hg.
      - exact Hz.
      - exact Er. }
    apply (Prog_steps 1 _ (mkc ((Z.to_nat z, v3) :: cells' ++ bot) i c3 lg3)).
    + cbn [steps]. now rewrite Hstep.
    + reflexivity.
    + destruct (justified _ _ _ (tops_lt g tb an SH _ _ Hwf') Hin0 Hq) as (it' & Hit' & Hj').
      apply (continue_by cells' q prq _ it' Hpq Hj').
      * apply (all_claims (length cells') cells' _ (le_n _) Hwf' it' Hit').
      * cbn [trans]. unfold goto_nat. now rewrite Hg, Hz.
      * reflexivity.
  - exists 0, (mkc (cells ++ bot) i calls lg). split; [reflexivity|right]. split; [reflexivity|].
    exists (tops cells). split; [apply top_app_bottom|exact Hact].
Qed.

(** ** well-formed configurations are preserved by Shift/Reduce moves *)
Definition wfc (c : cfg) : Prop :=
  (exists cells sg, c_st c = cells ++ bot /\ wfp tb cells sg) /\ c_i c <= length input.

Lemma tok_noneof i : ttype (tok_at input i) <> EOFT -> i < length input.
Proof.
  intros H. destruct (Nat.lt_ge_cases i (length input)) as [|Hge]; [assumption|].
  exfalso. apply H. now apply tok_at_overflow.
Qed.

Lemma step_wfc c c' : wfc c -> step tb sem input c = Some c' -> wfc c'.
Proof.
  intros [(cells & sg & Hst & Hwf) Hi] H. unfold step in H. rewrite Hst, top_app_bottom in H.
  destruct (action_at tb (tops cells) (ttype (tok_at input (c_i c)))) as [[[s'|p|]|]|] eqn:Ha; try discriminate.
  - inversion H; subst c'. clear H. split; cbn [c_st c_i].
    + exists ((s', ATok (tok_at input (c_i c))) :: cells), (T (ttype (tok_at input (c_i c))) :: sg).
      split; [reflexivity|]. constructor; [exact Hwf|]. cbn [trans]. now rewrite Ha.
    + pose proof (B_shift _ _ _ BW _ _ _ Ha) as Hne. apply tok_noneof in Hne. lia.
  - destruct (B_reduce _ _ _ BW _ _ _ Ha) as (Hp0 & pr & Hp & Hin).
    destruct (prods_spec g tb an VF _ _ Hp) as (pw & Hpw & Hnt & Hpl).
    rewrite Hpw in H.
    destruct (item_prefix_p g tb an BW cells sg Hwf _ _ _ _ Hin Hp) as (Hk & _ & Hin0).
    rewrite <- Hpl in Hk.
    destruct (length (cells ++ bot) <? p_len pw); [discriminate|].
    rewrite (skipn_app_le_r _ _ _ Hk), top_app_bottom in H.
    set (res := if p_act pw then _ else _) in H.
    destruct res as [[res calls'] log'].
    destruct res as [a|]; [|discriminate].
    destruct (goto_at tb (tops (skipn (p_len pw) cells)) (p_nt pw)) as [gz|] eqn:Hg; [|discriminate].
    destruct (gz <? 0)%Z eqn:Hz; [discriminate|].
    inversion H; subst c'. clear H. split; cbn [c_st c_i]; [|exact Hi].
    exists ((Z.to_nat gz, a) :: skipn (p_len pw) cells), (NT (lhs pr) :: skipn (p_len pw) sg).
    split; [reflexivity|]. constructor; [apply wfp_skipn; exact Hwf|].
    cbn [trans]. unfold goto_nat. now rewrite <- Hnt, Hg, Hz.
Qed.

Lemma steps_wfc n : forall c c', wfc c -> steps tb sem input n c = Some c' -> wfc c'.
Proof.
  induction n as [|n IH]; intros c c' Hw H; simpl in H.
  - inversion H; subst. exact Hw.
  - destruct (step tb sem input c) as [c1|] eqn:E; [|discriminate].
    eapply IH; [eapply step_wfc; eauto|exact H].
Qed.

(** ** every well-formed configuration halts *)
Definition halts (c : cfg) : Prop :=
  exists F, forall fuel, F <= fuel -> r_out (crunc tb sem input fuel c) <> PFuel.

Lemma halts_steps n c c' : steps tb sem input n c = Some c' -> halts c' -> halts c.
Proof.
  intros Hst [F HF]. exists (n + F). intros fuel Hf.
  replace fuel with (n + (fuel - n)) by lia. rewrite (crunc_steps tb sem input _ _ _ _ Hst).
  apply HF. lia.
Qed.

Lemma halts_accepting c : accepting tb input c -> halts c.
Proof.
  intros Ha. exists 1. intros fuel Hf. destruct fuel as [|f]; [lia|].
  destruct (accepting_run tb sem input c Ha f) as (v & _ & Hr). rewrite Hr. discriminate.
Qed.

Lemma mkc_eta c : c = mkc (c_st c) (c_i c) (c_calls c) (c_log c).
Proof. destruct c; reflexivity. Qed.

Theorem wfc_halts : forall m c, wfc c -> S (length input) - c_i c <= m -> halts c.
Proof.
  induction m as [|m IH]; intros c Hw Hm.
  { destruct Hw as [_ Hi]. lia. }
  (* from a configuration with a non-nil action *)
  assert (Hnonnil : forall c2 cells sg act,
            wfc c2 -> c_i c <= c_i c2 -> c_st c2 = cells ++ bot -> wfp tb cells sg ->
            action_at tb (tops cells) (ttype (tok_at input (c_i c2))) = Some (Some act) -> halts c2).
  { intros c2 cells sg act Hw2 Hle Hst Hwf Hact.
    destruct (action_progress cells sg (c_i c2) (c_calls c2) (c_log c2) act Hwf Hact) as (n & c' & Hn & Hc').
    rewrite <- Hst, <- mkc_eta in Hn.
    apply (halts_steps n c2 c' Hn).
    pose proof (steps_wfc n _ _ Hw2 Hn) as Hw'.
    destruct Hc' as [Hc'|[_ Hacc]]; [|apply halts_accepting; exact Hacc].
    cbn [c_i mkc] in Hc'. apply IH; [exact Hw'|]. destruct Hw' as [_ Hi']. lia. }
  pose proof Hw as [(cells & sg & Hst & Hwf) Hi].
  destruct (action_at_some g tb an SH (tops cells) (ttype (tok_at input (c_i c))))
    as [x Hact]; [eapply tops_lt; eauto using SH|apply tok_type_lt with (g := g) (an := an); [exact SH|exact INR]|].
  destruct x as [act|].
  - apply (Hnonnil c cells sg act Hw (le_n _) Hst Hwf Hact).
  - (* nil action: recovery *)
    pose proof (error_step_wfp g tb an input SH INR (S (length input)) cells sg (tok_at input (c_i c)) (S (c_i c)) Hwf
                  (tok_type_lt g tb an input SH INR _)) as He.
    assert (Hrun : forall f, crunc tb sem input (S f) c =
              match error_step tb input (S (length input)) (cells ++ bot) (tok_at input (c_i c)) (S (c_i c)) with
              | Recovered st' next' pos' => run tb sem input f st' next' pos' (c_calls c) (c_log c)
              | NotRecovered st' pos' =>
                {| r_out := mk_error tb None (tok_at input (c_i c)) st'; r_log := rev (c_log c); r_scans := pos' |}
              | RecPanic code => {| r_out := PPanic code; r_log := rev (c_log c); r_scans := S (c_i c) |}
              | RecFuel => {| r_out := PFuel; r_log := rev (c_log c); r_scans := S (c_i c) |}
              end).
    { intros f. unfold crunc. rewrite Hst.
      apply (run_nil_action tb input sem f _ (tops cells)); [apply top_app_bottom|exact Hact]. }
    destruct (error_step tb input (S (length input)) (cells ++ bot) (tok_at input (c_i c)) (S (c_i c)))
      as [st' next' pos'|st' pos'|code|] eqn:Ee.
    + destruct He as (cells' & sg' & -> & Hwf' & _).
      apply error_step_recovered in Ee.
      inversion Ee as [s1 s2 nx px Et Ea Eg Hs Heq1 Heq2 Heq3]. subst nx px.
      assert (Hs2 : tops cells' = s2).
      { destruct cells' as [|[sx ax] cs]; simpl in Heq1; inversion Heq1; reflexivity. }
      destruct (skip_rel_pos tb input _ _ _ _ _ _ Hs) as (Hle & Hn' & Hbd); [lia|f_equal; lia|].
      assert (Hfound : has_action tb s2 (ttype next') = true).
      { apply skip_rel_look in Hs. destruct Hs as (n0 & _ & _ & _ & Hb). exact Hb. }
      set (c2 := mkc (cells' ++ bot) (pos' - 1) (c_calls c) (c_log c)).
      assert (Hw2 : wfc c2).
      { split; [exists cells', sg'; split; [reflexivity|exact Hwf']|]. cbn [c2 c_i mkc].
        specialize (Hbd ltac:(lia)). lia. }
      assert (H2 : halts c2).
      { unfold has_action in Hfound.
        destruct (action_at tb s2 (ttype next')) as [[act|]|] eqn:Ea2; try discriminate.
        apply (Hnonnil c2 cells' sg' act Hw2); [cbn [c2 c_i mkc]; lia|reflexivity|exact Hwf'|].
        cbn [c2 c_i mkc]. rewrite <- Hn', Hs2. exact Ea2. }
      destruct H2 as [F HF]. exists (S F). intros fuel Hf. destruct fuel as [|f]; [lia|].
      rewrite Hrun. specialize (HF f ltac:(lia)). unfold crunc in HF. cbn [c2 c_st c_i c_calls c_log mkc] in HF.
      rewrite <- Hn' in HF. replace (S (pos' - 1)) with pos' in HF by lia. exact HF.
    + destruct He as [s Hs]. exists 1. intros fuel Hf. destruct fuel as [|f]; [lia|].
      rewrite Hrun. cbn [r_out]. unfold mk_error. rewrite Hs. discriminate.
    + destruct He.
    + exfalso. eapply error_step_not_fuel; eauto.
Qed.

Theorem terminates_total :
  exists fuel0, forall fuel, fuel0 <= fuel -> r_out (parse tb sem input fuel) <> PFuel.
Proof.
  assert (Hw : wfc cfg0).
  { split; [exists [], []; split; [reflexivity|constructor]|simpl; lia]. }
  destruct (wfc_halts (S (length input)) cfg0 Hw) as [F HF]; [simpl; lia|].
  exists F. intros fuel Hf. rewrite parse_crunc. apply HF. exact Hf.
Qed.

End Term.

(** * Arbitrary (possibly failing) user actions *)
(** the control flow does not depend on attribute values: a failing action only ends the parse
    earlier *)
Definition sem_tot (sem : nat -> nat -> list attr -> option attr) : nat -> nat -> list attr -> option attr :=
  fun i p kids => match sem i p kids with Some a => Some a | None => Some ANil end.

Lemma sem_tot_total sem : forall i p kids, sem_tot sem i p kids <> None.
Proof. intros i p kids. unfold sem_tot. destruct (sem i p kids); discriminate. Qed.

Lemma run_fuel_sem_tot tb sem input : forall fuel st next pos calls log,
  r_out (run tb sem input fuel st next pos calls log) = PFuel ->
  r_out (run tb (sem_tot sem) input fuel st next pos calls log) = PFuel.
Proof.
  induction fuel as [|fuel IH]; intros st next pos calls log H; [reflexivity|].
  cbn [run] in *.
  destruct (top st) as [s|]; [|exact H].
  destruct (action_at tb s (ttype next)) as [[[s'|p|]|]|]; try exact H.
  - apply IH. exact H.
  - destruct (nth_error (t_prods tb) p) as [pw|]; [|exact H].
    destruct (length st <? p_len pw); [exact H|].
    destruct (p_act pw).
    + unfold sem_tot. destruct (sem calls p (rev (map snd (firstn (p_len pw) st)))) as [a|].
      * destruct (top (skipn (p_len pw) st)) as [s0|]; [|exact H].
        destruct (goto_at tb s0 (p_nt pw)) as [gz|]; [|exact H].
        destruct (gz <? 0)%Z; [exact H|]. apply IH. exact H.
      * exfalso. cbn [r_out] in H. unfold mk_error in H.
        destruct (top (skipn (p_len pw) st)); discriminate.
    + destruct (top (skipn (p_len pw) st)) as [s0|]; [|exact H].
      destruct (goto_at tb s0 (p_nt pw)) as [gz|]; [|exact H].
      destruct (gz <? 0)%Z; [exact H|]. apply IH. exact H.
  - destruct (error_step tb input (S (length input)) st next pos) as [st' next' pos'|st' pos'|code|];
      try exact H. apply IH. exact H.
Qed.

(** * Closed statements *)
(** the canonicity checks used here (a sub-conjunction of [x_checks] of Exact.v) *)
Definition x_canon (g : grammar) (tb : tables) (an : annot) : bool :=
  x_null g an && x_first g tb an && x_prod g tb an && x_closure g tb an.

Lemma x_checks_canon g tb an : x_checks g tb an = true -> x_canon g tb an = true.
Proof. unfold x_checks, x_canon. rewrite !andb_true_iff. tauto. Qed.

(** C07, termination: with conflict-free canonical LR(1) tables of the full grammar (error
    alternatives included) the parser returns on EVERY token list, for arbitrary (possibly
    failing) user actions: from some amount of fuel on the outcome is never [PFuel]; by
    [C07_no_panic] it is [POk] or [PErr]. *)
Theorem C07_terminates :
  forall g tb an sem input,
    valid_backward g tb an = true -> valid_forward g tb an = true -> x_canon g tb an = true ->
    Forall (fun t => ttype t < nterms tb) input ->
    exists fuel0, forall fuel, fuel0 <= fuel ->
      exists res, r_out (parse tb sem input fuel) = res /\ ((exists v, res = POk v) \/ (exists e, res = PErr e)).
Proof.
  intros g tb an sem input VB VF XC INR.
  unfold x_canon in XC. rewrite !andb_true_iff in XC. destruct XC as [[[XN XF] XP] XCl].
  destruct (terminates_total g tb an (sem_tot sem) input VF VB XN XF XP XCl (sem_tot_total sem) INR)
    as [fuel0 H0].
  exists fuel0. intros fuel Hf. eexists. split; [reflexivity|].
  destruct (r_out (parse tb sem input fuel)) as [v|e|c|] eqn:E; eauto.
  - exfalso. exact (C07_no_panic g tb an sem input fuel c VB INR E).
  - exfalso. apply (H0 fuel Hf). unfold parse in *. apply run_fuel_sem_tot. exact E.
Qed.

(** C07, progress after recovery: the configuration produced by a successful recovery makes
    Shift/Reduce moves only until its look-ahead (the first acceptable token) has been shifted
    or the input accepted: the next error, if any, is about a LATER token. *)
Theorem C07_recovery_progress :
  forall g tb an sem input,
    valid_backward g tb an = true -> valid_forward g tb an = true -> x_canon g tb an = true ->
    (forall i p kids, sem i p kids <> None) ->
    Forall (fun t => ttype t < nterms tb) input ->
    forall cells sg i st' next' pos' calls lg,
      wfp tb cells sg ->
      recovers tb input (cells ++ [(0, ANil)]) (tok_at input i) (S i) st' next' pos' ->
      next' = tok_at input (pos' - 1) /\ i <= pos' - 1 /\ exists n c', steps tb sem input n (mkc st' (pos' - 1) calls lg) = Some c' /\ (c_i c' = S (pos' - 1) \/ (c_i c' = pos' - 1 /\ accepting tb input c')).
Proof.
  intros g tb an sem input VB VF XC Hs INR cells sg i st' next' pos' calls lg Hwf Hr.
  unfold x_canon in XC. rewrite !andb_true_iff in XC. destruct XC as [[[XN XF] XP] XCl].
  pose proof (SH g tb an VF) as HSH.
  pose proof (error_step_wfp g tb an input HSH INR (S (length input)) cells sg (tok_at input i) (S i) Hwf
                (tok_type_lt g tb an input HSH INR _)) as He.
  pose proof Hr as Hr'. apply error_step_recovered in Hr'. rewrite Hr' in He.
  destruct He as (cells' & sg' & -> & Hwf' & _).
  inversion Hr as [s1 s2 nx px Et Ea Eg Hsk Heq1 Heq2 Heq3]. subst nx px.
  assert (Hs2 : tops cells' = s2).
  { destruct cells' as [|[sx ax] cs]; simpl in Heq1; inversion Heq1; reflexivity. }
  destruct (skip_rel_pos tb input _ _ _ _ _ _ Hsk) as (Hle & Hn' & _); [lia|f_equal; lia|].
  split; [exact Hn'|]. split; [lia|].
  assert (Hfound : has_action tb s2 (ttype next') = true).
  { apply skip_rel_look in Hsk. destruct Hsk as (n0 & _ & _ & _ & Hb). exact Hb. }
  unfold has_action in Hfound.
  destruct (action_at tb s2 (ttype next')) as [[act|]|] eqn:Ea2; try discriminate.
  rewrite Heq1.
  assert (Ea3 : action_at tb (tops cells') (ttype (tok_at input (pos' - 1))) = Some (Some act))
    by (rewrite <- Hn', Hs2; exact Ea2).
  exact (action_progress g tb an sem input VF VB XN XF XP XCl Hs cells' sg' (pos' - 1) calls lg act Hwf' Ea3).
Qed.

Print Assumptions action_progress.
Print Assumptions terminates_total.
Print Assumptions C07_terminates.
Print Assumptions C07_recovery_progress.
