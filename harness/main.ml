(* Model runner: reads the same case files as the implementation side and prints the
   same line format.  I/O shell only; all logic comes from the extracted model.ml. *)
open Model

let rec pos_of_int n = if n = 1 then XH else if n land 1 = 0 then XO (pos_of_int (n lsr 1)) else XI (pos_of_int (n lsr 1))
let z_of_int n = if n = 0 then Z0 else if n > 0 then Zpos (pos_of_int n) else Zneg (pos_of_int (-n))
let rec int_of_pos = function XH -> 1 | XO p -> 2 * int_of_pos p | XI p -> 2 * int_of_pos p + 1
let int_of_z = function Z0 -> 0 | Zpos p -> int_of_pos p | Zneg p -> - (int_of_pos p)
let rec int_of_nat = function O -> 0 | S n -> 1 + int_of_nat n
let rec nat_of_int n = if n <= 0 then O else S (nat_of_int (n - 1))

let words s = List.filter (fun w -> w <> "") (String.split_on_char ' ' s)

let iter_lines f =
  try while true do f (input_line stdin) done with End_of_file -> ()

(* ranges: "from to from to ..." -> classes "from to ..." ; with --cases also "|c c c" *)
let cmd_ranges args =
  let with_cases = List.mem "--cases" args in
  iter_lines (fun line ->
    let ws = List.map int_of_string (words line) in
    let rec pairs = function a :: b :: t -> (z_of_int a, z_of_int b) :: pairs t | _ -> [] in
    let ops = pairs ws in
    let cs = classes ops in
    let buf = Buffer.create 64 in
    List.iteri (fun i (a, b) ->
      if i > 0 then Buffer.add_char buf ' ';
      Buffer.add_string buf (string_of_int (int_of_z a)); Buffer.add_char buf ' ';
      Buffer.add_string buf (string_of_int (int_of_z b))) cs;
    if with_cases then begin
      Buffer.add_string buf " |";
      let _ = List.fold_left (fun l (a, b) ->
        List.iter (fun c -> Buffer.add_char buf ' '; Buffer.add_string buf (string_of_int (int_of_nat c)))
          (add_range_cases a b l);
        add_range a b l) [] ops in ()
    end;
    print_endline (Buffer.contents buf))

let () =
  match Array.to_list Sys.argv with
  | _ :: "ranges" :: args -> cmd_ranges args
  | _ -> prerr_endline "usage: modelrun <command>"; exit 2
