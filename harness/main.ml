(* Model runner: reads the same case files as the implementation side and prints the
   same line format.  I/O shell only; all logic comes from the extracted model.ml. *)
open Model

let rec pos_of_int n = if n = 1 then XH else if n land 1 = 0 then XO (pos_of_int (n lsr 1)) else XI (pos_of_int (n lsr 1))
let z_of_int n = if n = 0 then Z0 else if n > 0 then Zpos (pos_of_int n) else Zneg (pos_of_int (-n))
let rec int_of_pos = function XH -> 1 | XO p -> 2 * int_of_pos p | XI p -> 2 * int_of_pos p + 1
let int_of_z = function Z0 -> 0 | Zpos p -> int_of_pos p | Zneg p -> - (int_of_pos p)
let rec int_of_nat = function O -> 0 | S n -> 1 + int_of_nat n
let rec nat_of_int n = if n <= 0 then O else S (nat_of_int (n - 1))

let words s = List.filter (fun w -> w <> "") (String.split_on_char ' ' s)

let iter_lines f =
  try while true do f (input_line stdin) done with End_of_file -> ()

(* ranges: "from to from to ..." -> classes "from to ..." ; with --cases also "|c c c" *)
let cmd_ranges args =
  let with_cases = List.mem "--cases" args in
  iter_lines (fun line ->
    let ws = List.map int_of_string (words line) in
    let rec pairs = function a :: b :: t -> (z_of_int a, z_of_int b) :: pairs t | _ -> [] in
    let ops = pairs ws in
    let cs = classes ops in
    let buf = Buffer.create 64 in
    List.iteri (fun i (a, b) ->
      if i > 0 then Buffer.add_char buf ' ';
      Buffer.add_string buf (string_of_int (int_of_z a)); Buffer.add_char buf ' ';
      Buffer.add_string buf (string_of_int (int_of_z b))) cs;
    if with_cases then begin
      Buffer.add_string buf " |";
      let _ = List.fold_left (fun l (a, b) ->
        List.iter (fun c -> Buffer.add_char buf ' '; Buffer.add_string buf (string_of_int (int_of_nat c)))
          (add_range_cases a b l);
        add_range a b l) [] ops in ()
    end;
    print_endline (Buffer.contents buf))

(* ---------------------------------------------------------------- lexer *)
let hex_decode s =
  let n = String.length s / 2 in
  List.init n (fun i -> z_of_int (int_of_string ("0x" ^ String.sub s (2 * i) 2)))
let hex_encode l =
  String.concat "" (List.map (fun z -> Printf.sprintf "%02x" (int_of_z z)) l)

let read_dfa file =
  let ic = open_in file in
  let n = int_of_string (String.trim (input_line ic)) in
  let rows = ref [] and acts = ref [] in
  for _ = 1 to n do
    let ws = List.map int_of_string (words (input_line ic)) in
    match ws with
    | acc :: dflt :: k :: rest ->
      let rec triples k l = if k = 0 then [] else match l with
        | lo :: hi :: nx :: t -> ((z_of_int lo, z_of_int hi), z_of_int nx) :: triples (k - 1) t
        | _ -> failwith "bad row" in
      rows := { cases = triples k rest; dflt = z_of_int dflt } :: !rows;
      acts := z_of_int acc :: !acts
    | _ -> failwith "bad row"
  done;
  close_in ic;
  table_dfa (List.rev !rows) (List.rev !acts)

let cmd_lex file =
  let d = read_dfa file in
  let scan1 l = scan decode_rune d l in
  iter_lines (fun line ->
    let buf = Buffer.create 256 in
    let src = ref [] and l = ref (init []) in
    let emit t =
      Buffer.add_string buf (Printf.sprintf "%d:%s:%d:%d:%d " (int_of_z t.ty) (hex_encode t.lit)
        (int_of_z t.toff) (int_of_z t.tline) (int_of_z t.tcol)) in
    let scans k =
      let after = ref (-1) and i = ref 0 in
      while !i < k && !after <> 0 do
        (match scan1 !l with
         | None -> Buffer.add_string buf "FUEL "; after := 0
         | Some (t, l') ->
           l := l'; emit t;
           if !after > 0 then decr after else if int_of_z t.ty = 1 then after := 2);
        incr i
      done in
    List.iter (fun op ->
      (match op.[0] with
       | 'N' | 'E' -> src := hex_decode (String.sub op 1 (String.length op - 1)); l := init !src
       | 'S' -> scans (int_of_string (String.sub op 1 (String.length op - 1)))
       | 'A' -> scans (List.length !src + 6)
       | 'R' -> l := reset !src !l
       | _ -> ());
      Buffer.add_string buf "| ") (words line);
    print_endline (Buffer.contents buf))

(* utf8: hex bytes per line -> "rune size" *)
let cmd_utf8 () =
  iter_lines (fun line ->
    let (r, sz) = decode_rune (hex_decode (String.trim line)) in
    Printf.printf "%d %d\n" (int_of_z r) (int_of_nat sz))

(* ---------------------------------------------------------------- parser *)
let read_tables file =
  let ic = open_in file in
  let line () = words (input_line ic) in
  let (errt, gate) = (match line () with ["E"; e] -> (int_of_string e, false) | ["E"; e; g] -> (int_of_string e, g = "1") | _ -> failwith "E") in
  let np = (match line () with ["P"; n] -> int_of_string n | _ -> failwith "P") in
  let prods = List.init np (fun _ -> match List.map int_of_string (line ()) with
    | [nt; len; a] -> { p_nt = nat_of_int nt; p_len = nat_of_int len; p_act = (a = 1) }
    | _ -> failwith "prow") in
  let ns = (match line () with "S" :: n :: _ -> int_of_string n | _ -> failwith "S") in
  let dec a = if a = 0 then None else if a = 1 then Some Accept
    else if a land 1 = 0 then Some (Shift (nat_of_int ((a - 2) / 2))) else Some (Reduce (nat_of_int ((a - 3) / 2))) in
  let states = List.init ns (fun _ ->
    match List.map int_of_string (line ()) with
    | rc :: na :: rest ->
      let rec take k l = if k = 0 then ([], l) else match l with x :: t -> let (a, b) = take (k - 1) t in (x :: a, b) | [] -> failwith "row" in
      let (acts, rest) = take na rest in
      (match rest with
       | ng :: rest -> let (gs, _) = take ng rest in
         { s_actions = List.map dec acts; s_recover = (rc = 1); s_gotos = List.map z_of_int gs }
       | [] -> failwith "row")
    | _ -> failwith "row") in
  close_in ic;
  { t_states = states; t_prods = prods; t_err = nat_of_int errt; t_gate = gate }

let rec show_attr a =
  match a with
  | ANil -> "nil"
  | ATok t -> Printf.sprintf "t%d@%d" (int_of_nat t.ttype) (int_of_nat t.tid)
  | ANode (p, kids) -> Printf.sprintf "(%d%s)" (int_of_nat p) (show_list kids)
  | AErr (t, disc, exp) ->
    let d = show_list disc in
    let d = if String.length d > 0 then String.sub d 1 (String.length d - 1) else d in
    Printf.sprintf "(err t%d@%d [%s] {%s})" (int_of_nat t.ttype) (int_of_nat t.tid) d
      (String.concat "," (List.map (fun n -> string_of_int (int_of_nat n)) exp))
and show_list l = String.concat "" (List.map (fun k -> " " ^ show_attr k) l)

let cmd_parse ?(brief=false) ?(obj=false) file fuel =
  let tb = read_tables file in
  let brief0 = brief in
  iter_lines (fun line ->
    let parses = String.split_on_char ';' line in
    (* obj: LR/ObjParse.v — ONE parser object (backing arrays, stale look-ahead) handed from call to call; NEW = NewParser() *)
    let o = ref (k_new go_grow_s go_grow_a) in
    let outs = List.map (fun spec ->
      let fail = ref None and types = ref [] in
      let brief = brief0 || List.mem "BRIEF" (words spec) in
      let show_attr a = if brief then "" else show_attr a and show_list l = if brief then "" else show_list l in
      List.iter (fun w ->
        if w = "BRIEF" then () else
        if w.[0] = 'F' then fail := Some (nat_of_int (int_of_string (String.sub w 1 (String.length w - 1))))
        else if w <> "NEW" then types := int_of_string w :: !types) (words spec);
      let input = List.mapi (fun i t -> { ttype = nat_of_int t; tid = nat_of_int i }) (List.rev !types) in
      if List.mem "NEW" (words spec) then o := k_new go_grow_s go_grow_a;
      let r = if obj then (let (r, o') = k_parse go_grow_s go_grow_a tb (sem_node !fail) input (nat_of_int fuel) !o in o := o'; r)
              else parse tb (sem_node !fail) input (nat_of_int fuel) in
      let head = match r.r_out with
        | POk a -> "OK " ^ show_attr a
        | PErr e ->
          Printf.sprintf "ERR %s t%d@%d {%s} top=%d"
            (match e.e_action with None -> "-" | Some i -> Printf.sprintf "action-error-%d" (int_of_nat i))
            (int_of_nat e.e_tok.ttype) (int_of_nat e.e_tok.tid)
            (String.concat "," (List.map (fun n -> string_of_int (int_of_nat n)) e.e_expected))
            (int_of_nat e.e_top)
        | PPanic _ -> "PANIC"
        | PFuel -> "FUEL" in
      match r.r_out with
      | PPanic _ -> "PANIC"
      | PFuel -> "FUEL"     (* out of fuel (a parser resolved with -a may loop): the log is not printed, its trees grow with the fuel *)
      | _ ->
        head ^ " LOG" ^ String.concat "" (List.map (fun (p, kids) ->
          Printf.sprintf " [%d%s]" (int_of_nat p) (show_list kids)) r.r_log)
        ^ Printf.sprintf " SCANS %d CTXBAD 0" (int_of_nat r.r_scans)) parses in
    print_endline (String.concat " ; " outs))

(* litconv: hex literal per line -> "<lit_to_rune|PANIC> <golit_value|INVALID>" *)
let cmd_litconv () =
  iter_lines (fun line ->
    let l = hex_decode (String.trim line) in
    let a = match lit_to_rune l with Some c -> string_of_int (int_of_z c) | None -> "PANIC" in
    let b = match golit_value l with Some c -> string_of_int (int_of_z c) | None -> "INVALID" in
    print_endline (a ^ " " ^ b))

(* md: space separated runes per line -> runes *)
let cmd_md () =
  iter_lines (fun line ->
    let l = List.map (fun w -> z_of_int (int_of_string w)) (words line) in
    print_endline (String.concat " " (List.map (fun z -> string_of_int (int_of_z z)) (load_md l))))

(* resolve: candidate codes per line (0 nil, 1 accept, 2+2k shift k, 3+2k reduce k) -> "winner | conflict codes" or PANIC;
   also checks the zip round trip of the candidate row itself *)
let cmd_resolve () =
  let dec a = if a = 0 then None else if a = 1 then Some Accept
    else if a land 1 = 0 then Some (Shift (nat_of_int ((a - 2) / 2))) else Some (Reduce (nat_of_int ((a - 3) / 2))) in
  let enc = function None -> 0 | Some Accept -> 1 | Some (Shift s) -> 2 + 2 * int_of_nat s | Some (Reduce p) -> 3 + 2 * int_of_nat p in
  iter_lines (fun line ->
    let cs = List.map (fun w -> dec (int_of_string w)) (words line) in
    let zip_ok = (decode_row (nat_of_int (List.length cs)) (encode_row cs) = cs) in
    match row_action cs with
    | None -> print_endline "PANIC"
    | Some (w, cf) ->
      print_endline (Printf.sprintf "%d |%s%s" (enc w)
        (String.concat "" (List.map (fun a -> " " ^ string_of_int (enc (Some a))) cf))
        (if zip_ok then "" else " ZIPBAD")))

(* tokmap: "lhs sym sym ; lhs sym ... | lexid lexid" with every name hex-encoded UTF-8 -> terminals, hex names *)
let utf8_runes (s : string) =
  let bytes = List.init (String.length s) (fun i -> z_of_int (Char.code s.[i])) in
  let rec go bs = match bs with
    | [] -> []
    | _ -> let (r, sz) = decode_rune bs in
      let rec drop n l = if n = 0 then l else match l with [] -> [] | _ :: t -> drop (n - 1) t in
      r :: go (drop (max 1 (int_of_nat sz)) bs) in
  go bytes
let hex_to_string h = String.init (String.length h / 2) (fun i -> Char.chr (int_of_string ("0x" ^ String.sub h (2 * i) 2)))
let cmd_tokmap () =
  iter_lines (fun line ->
    let (ps, lx) = match String.split_on_char '|' line with [a; b] -> (a, b) | [a] -> (a, "") | _ -> failwith "tokmap" in
    let name h = utf8_runes (hex_to_string h) in
    let prods = List.filter_map (fun p -> match words p with [] -> None | l :: b -> Some (name l, List.map name b))
                  (String.split_on_char ';' ps) in
    let lex = List.map name (words lx) in
    let tm = terminals_z prods lex in
    print_endline (String.concat " " (List.map (fun n ->
      String.concat "" (List.map (fun z -> hex_encode (encode_rune z)) n)) tm)))

(* ---------------------------------------------------------------- lexer vs lexical rules *)
let nat_of_int_tr n = let rec go acc n = if n = 0 then acc else go (S acc) (n-1) in go O n
let ltoks = ref []
let lnext () = match !ltoks with [] -> failwith "eof" | t :: r -> ltoks := r; t
let lnint () = int_of_string (lnext ())
let rec ltimes n f = if n = 0 then [] else let x = f () in x :: ltimes (n-1) f
let rec ppat () = (match lnext () with "P" -> () | s -> failwith ("P expected, got " ^ s)); let n = lnint () in ltimes n palt
and palt () = (match lnext () with "A" -> () | s -> failwith ("A expected " ^ s)); let n = lnint () in ltimes n pterm
and pterm () = match lnext () with
  | "c" -> Chr (z_of_int (lnint ()))
  | "r" -> let lo = lnint () in let hi = lnint () in Rng (z_of_int lo, z_of_int hi)
  | "d" -> Dot
  | "f" -> Ref (nat_of_int_tr (lnint ()))
  | "o" -> Opt (ppat ())
  | "s" -> Rep (ppat ())
  | "g" -> Grp (ppat ())
  | s -> failwith ("term expected " ^ s)

(* reads the verifdump lexdump format: grammar, then the item-set DFA *)
let read_lexdump file =
  let ic = open_in file in
  let n = in_channel_length ic in
  let s = really_input_string ic n in
  close_in ic;
  ltoks := List.filter (fun x -> x <> "") (String.split_on_char ' ' (String.concat " " (String.split_on_char '\n' s)));
  let nreg = lnint () in
  let regdefs = ltimes nreg ppat in
  let ntok = lnint () in
  let tks = ltimes ntok (fun () ->
    let k = lnext () in
    let kind = (match k with "T" -> let ty = lnint () in let sl = lnint () in Tok (z_of_int ty, sl = 1) | "I" -> Ign | s -> failwith ("kind " ^ s)) in
    let p = ppat () in (kind, p)) in
  let g = { regdefs = regdefs; toks = tks } in
  let nst = lnint () in
  let rows_acts = ltimes nst (fun () ->
    let acc = lnint () in let dflt = lnint () in let nc = lnint () in
    let cs = ltimes nc (fun () -> let lo = lnint () in let hi = lnint () in let nx = lnint () in ((z_of_int lo, z_of_int hi), z_of_int nx)) in
    ({ cases = cs; dflt = z_of_int dflt }, z_of_int acc)) in
  (g, List.map fst rows_acts, List.map snd rows_acts)

(* bisim <lexdump> <fuel> [<emitted table file>]: verified checker + diagnostic twin; the DFA is the emitted one when given *)
let read_table_file file =
  let ic = open_in file in
  let n = int_of_string (String.trim (input_line ic)) in
  let rows = ref [] and acts = ref [] in
  for _ = 1 to n do
    match List.map int_of_string (words (input_line ic)) with
    | acc :: dflt :: k :: rest ->
      let rec triples k l = if k = 0 then [] else match l with
        | lo :: hi :: nx :: t -> ((z_of_int lo, z_of_int hi), z_of_int nx) :: triples (k - 1) t | _ -> failwith "bad row" in
      rows := { cases = triples k rest; dflt = z_of_int dflt } :: !rows; acts := z_of_int acc :: !acts
    | _ -> failwith "bad row"
  done;
  close_in ic; (List.rev !rows, List.rev !acts)

let cmd_bisim args =
  match args with
  | file :: fuel :: rest ->
    let (g, rows0, acts0) = read_lexdump file in
    let (rows, acts) = match rest with t :: _ -> read_table_file t | [] -> (rows0, acts0) in
    let same = (rows = rows0 && acts = acts0) in
    let path p = String.concat "," (List.rev_map (fun z -> string_of_int (int_of_z z)) p) in
    let f = nat_of_int_tr (int_of_string fuel) in
    (match bisim_diag rows acts g f with
     | Closed n -> Printf.printf "CLOSED %d" (int_of_nat n)
     | NoFuel n -> Printf.printf "NOFUEL %d" (int_of_nat n)
     | BadGrammar -> Printf.printf "BADGRAMMAR"
     | AcceptMismatch (p, q, a, b) -> Printf.printf "ACCEPT path=[%s] gocc_state=%d gocc_acc=%d model_acc=%d" (path p) (int_of_z q) (int_of_z a) (int_of_z b)
     | LiveMismatch (p, q, n, l) -> Printf.printf "LIVE path=[%s] gocc_state=%d gocc_next=%d model_live=%b" (path p) (int_of_z q) (int_of_z n) l);
    Printf.printf " check=%b emitted_equals_itemsets=%b\n" (bisim_check rows acts g f) same
  | _ -> failwith "bisim"

(* dlex <lexdump>: the DEFINITIONAL tokenizer (derivatives of the lexical rules) on the lexer-driver case format *)
let cmd_dlex file =
  let (g, _, _) = read_lexdump file in
  iter_lines (fun line ->
    let buf = Buffer.create 256 in
    let src = ref [] and l = ref (init []) in
    let emit t =
      Buffer.add_string buf (Printf.sprintf "%d:%s:%d:%d:%d " (int_of_z t.ty) (hex_encode t.lit)
        (int_of_z t.toff) (int_of_z t.tline) (int_of_z t.tcol)) in
    let scans k =
      let after = ref (-1) and i = ref 0 in
      while !i < k && !after <> 0 do
        (match dscan_n g (S O) !l with
         | Some ([t], l') ->
           l := l'; emit t;
           if !after > 0 then decr after else if int_of_z t.ty = 1 then after := 2
         | _ -> Buffer.add_string buf "BAD "; after := 0);
        incr i
      done in
    List.iter (fun op ->
      (match op.[0] with
       | 'N' | 'E' -> src := hex_decode (String.sub op 1 (String.length op - 1)); l := init !src
       | 'S' -> scans (int_of_string (String.sub op 1 (String.length op - 1)))
       | 'A' -> scans (List.length !src + 6)
       | 'R' -> l := reset !src !l
       | _ -> ());
      Buffer.add_string buf "| ") (words line);
    print_endline (Buffer.contents buf))

(* fscan: hex source per line -> front-end token stream "type:lithex:off:line:col ... E<errors>" *)
let cmd_fscan () =
  iter_lines (fun line ->
    let src = hex_decode (String.trim line) in
    let (ts, e) = fscan_all src in
    let buf = Buffer.create 256 in
    List.iter (fun t -> Buffer.add_string buf (Printf.sprintf "%d:%s:%d:%d:%d " (int_of_z t.f_type) (hex_encode t.f_lit)
      (int_of_z t.f_off) (int_of_z t.f_line) (int_of_z t.f_col))) ts;
    Buffer.add_string buf (Printf.sprintf "E%d" (int_of_z e));
    print_endline (Buffer.contents buf))

(* firstsets: "nt nt nt | lhs sym sym ; lhs sym ..." (hex names; empty alternative = body "empty") -> per order (identity, reversed):
   "nt=sym,sym;nt=...", sets printed sorted *)
let cmd_firstsets () =
  iter_lines (fun line ->
    match String.split_on_char '|' line with
    | [ns; ps] ->
      let name h = utf8_runes (hex_to_string h) in
      let show n = String.concat "" (List.map (fun z -> hex_encode (encode_rune z)) n) in
      let nts = List.map name (words ns) in
      let prods = List.filter_map (fun p -> match words p with [] -> None | l :: b -> Some (name l, List.map name b)) (String.split_on_char ';' ps) in
      let run rv =
        let (sets, nofuel) = first_sets_z rv (nat_of_int_tr 500) (utf8_runes "empty") nts prods in
        (if nofuel then "NOFUEL " else "") ^
        String.concat ";" (List.map (fun (n, s) -> show n ^ "=" ^ String.concat "," (List.sort compare (List.map show s))) sets) in
      print_endline (run false ^ " # " ^ run true)
    | _ -> print_endline "BAD")

(* sdt: hex action literal per line -> hex SDTVal *)
let cmd_sdt () =
  iter_lines (fun line -> print_endline (hex_encode (sdt_val (hex_decode (String.trim line)))))

(* gen <file>: the Gallina model of gocc's LR(1) generator. File: line1 "nn ntm terr", line2 productions "lhs:sym sym;lhs:;..."
   (sym = T<n> | N<n>), line3 symbols, line4 la_order, line5 p_acts (0/1).  Prints KIND then per state:
   "I p,k,la p,k,la ... | T sym>state ... | A codes | R 0/1 | G gotos" *)
let cmd_gen ?(auto=false) file =
  let ic = open_in file in
  let l1 = words (input_line ic) in
  let psym w = let n = nat_of_int_tr (int_of_string (String.sub w 1 (String.length w - 1))) in if w.[0] = 'T' then T n else NT n in
  let prods = List.filter (fun x -> x <> "") (String.split_on_char ';' (input_line ic)) in
  let g = List.map (fun p -> match String.split_on_char ':' p with
    | [l; b] -> { lhs = nat_of_int_tr (int_of_string (String.trim l)); rhs = List.map psym (words b) }
    | _ -> failwith "prod") prods in
  let symbols = List.map psym (words (input_line ic)) in
  let la = List.map (fun w -> nat_of_int_tr (int_of_string w)) (words (input_line ic)) in
  let pacts = List.map (fun w -> w = "1") (words (input_line ic)) in
  close_in ic;
  let (nn, ntm, terr) = match l1 with [a; b; c] -> (int_of_string a, int_of_string b, int_of_string c) | _ -> failwith "hdr" in
  let skey = function T a -> "T" ^ string_of_int (int_of_nat a) | NT a -> "N" ^ string_of_int (int_of_nat a) in
  let enc = function None -> 0 | Some Accept -> 1 | Some (Shift s) -> 2 + 2 * int_of_nat s | Some (Reduce p) -> 3 + 2 * int_of_nat p in
  let show_auto an tr tbo =
    List.iteri (fun i its ->
      let trow = List.nth tr i in
      let ts = List.sort_uniq compare (List.map (fun (x, t) -> skey x ^ ">" ^ string_of_int (int_of_nat t)) trow) in
      let base = Printf.sprintf "I %s | T %s" (String.concat " " (List.map (fun ((p, k), la) ->
        Printf.sprintf "%d,%d,%d" (int_of_nat p) (int_of_nat k) (int_of_nat la)) its)) (String.concat " " ts) in
      match tbo with
      | Some tb -> let r = List.nth tb.t_states i in
        print_endline (Printf.sprintf "%s | A %s | R %d | G %s" base (String.concat " " (List.map (fun a -> string_of_int (enc a)) r.s_actions))
          (if r.s_recover then 1 else 0) (String.concat " " (List.map (fun z -> string_of_int (int_of_z z)) r.s_gotos)))
      | None -> print_endline base) an.a_items in
  if auto then
    (* mode -a: "AUTO <announced conflicts>" then the rows with the RESOLVED action cells, or "REFUSED"; first the exit status
       GenAuto.gocc_exit predicts without and with -a ("EXIT <plain> <auto>", -1 = undecided) *)
    let ex a = match gocc_exit g (nat_of_int_tr nn) (nat_of_int_tr ntm) symbols la pacts (nat_of_int_tr terr) a (nat_of_int_tr 100000) with
      | Some n -> int_of_nat n | None -> -1 in
    print_endline (Printf.sprintf "EXIT %d %d" (ex false) (ex true));
    match gen_run_auto g (nat_of_int_tr nn) (nat_of_int_tr ntm) symbols la pacts (nat_of_int_tr terr) (nat_of_int_tr 100000) with
    | AutoOk (tb, an, tr, n) -> print_endline ("AUTO " ^ string_of_int (int_of_nat n)); show_auto an tr (Some tb)
    | AutoRefused (an, tr) -> print_endline "REFUSED"; show_auto an tr None
    | AutoIllFormed -> print_endline "ILLFORMED"
    | AutoFirstUnstable -> print_endline "FIRSTUNSTABLE"
    | AutoFuel -> print_endline "FUEL"
  else
  match gen_run g (nat_of_int_tr nn) (nat_of_int_tr ntm) symbols la pacts (nat_of_int_tr terr) (nat_of_int_tr 100000) with
  | GenOk (tb, an, tr) -> print_endline "OK"; show_auto an tr (Some tb)
  | GenConflict (an, tr, cells) ->
    print_endline ("CONFLICT " ^ string_of_int (List.length (List.sort_uniq compare (List.map (fun (s, _) -> int_of_nat s) cells))));
    show_auto an tr None
  | GenIllFormed -> print_endline "ILLFORMED"
  | GenFirstUnstable -> print_endline "FIRSTUNSTABLE"
  | GenFuel -> print_endline "FUEL"

(* frontsem <table file> <fuel per token> colon semi bar tokId regDefId ignoredTokId prodId string_lit error empty char_lit minus :
   the front-end model (Front/Sem.v): parser on the shipped tables + semantic checks.  stdin: one token list per line
   "type:hexliteral ..." (front-end type numbers, EOF omitted); stdout "ACC|REJ PARSE=ok|rej SEM=ok|<reason> <hex names>" *)
let cmd_frontsem file fpt nums =
  let tb = read_tables file in
  let n = Array.of_list (List.map (fun s -> z_of_int (int_of_string s)) nums) in
  let ft = { ft_colon = n.(0); ft_semi = n.(1); ft_bar = n.(2); ft_tokId = n.(3); ft_regDefId = n.(4);
             ft_ignoredTokId = n.(5); ft_prodId = n.(6); ft_string_lit = n.(7); ft_error = n.(8); ft_empty = n.(9) } in
  let show_reason = function
    | RDupTok n -> "dup-tok " ^ hex_encode n
    | RDupRegDef n -> "dup-regdef " ^ hex_encode n
    | RDupIgn n -> "dup-ign " ^ hex_encode n
    | REmptyAlt p -> "empty-alt " ^ hex_encode p
    | RReservedProd p -> "reserved-prod " ^ hex_encode p
    | RReservedSym (s, p) -> "reserved-sym " ^ hex_encode s ^ " " ^ hex_encode p
    | RUndefinedProd s -> "undefined-prod " ^ hex_encode s
    | RUndefinedRegDef (r, d) -> "undefined-regdef " ^ hex_encode r ^ " " ^ hex_encode d
    | RStrLitProd s -> "strlit-prod " ^ hex_encode s
    | RStrLitEmpty -> "strlit-empty"
    | RStrLitLex s -> "strlit-lex " ^ hex_encode s
    | RRecursiveRegDef d -> "recursive-regdef " ^ hex_encode d in
  iter_lines (fun line ->
    let toks = List.map (fun w ->
      match String.index_opt w ':' with
      | Some i -> { f_type = z_of_int (int_of_string (String.sub w 0 i));
                    f_lit = hex_decode (String.sub w (i + 1) (String.length w - i - 1));
                    f_off = Z0; f_line = Z0; f_col = Z0 }
      | None -> failwith "bad token") (words line) in
    let fuel = nat_of_int_tr (fpt * (List.length toks + 2)) in
    let p = parse_ok tb fuel toks in
    let v = sem_verdict ft toks in
    let rg = ranges_ok n.(10) n.(11) toks in
    let acc = front_accepts_r ft n.(10) n.(11) tb fuel toks in
    print_endline (Printf.sprintf "%s PARSE=%s SEM=%s" (if acc then "ACC" else "REJ") (if p then "ok" else "rej")
      (if p && not rg then "empty-range" else match v with SemOk -> "ok" | SemReject r -> show_reason r)))

(* lexgen <lexdump> <fuel> [<emitted table file>]: the Gallina model of gocc's LEXER generator (Lex/LexGen.v, proved correct against
   the derivative semantics for every grammar) run on the lexical part as gocc parsed it; its DFA must be structurally equal
   (numbering, class order, targets, accept codes) to gocc's (item sets, and the emitted tables when given) *)
let cmd_lexgen args =
  match args with
  | file :: fuel :: rest ->
    let (g, rows0, acts0) = read_lexdump file in
    let emitted = (match rest with t :: _ -> Some (read_table_file t) | [] -> None) in
    (match lexgen g (nat_of_int_tr (int_of_string fuel)) with
     | None -> Printf.printf "NONE wf=%b\n" (lex_wf g)
     | Some (rows, acts) ->
       let first_diff r1 a1 r2 a2 =
         let rec go i r1 a1 r2 a2 = match r1, a1, r2, a2 with
           | x :: r1, a :: a1, y :: r2, b :: a2 -> if x = y && a = b then go (i + 1) r1 a1 r2 a2 else i
           | [], [], [], [] -> -1
           | _ -> i in go 0 r1 a1 r2 a2 in
       let d1 = first_diff rows acts rows0 acts0 in
       let d2 = (match emitted with Some (r, a) -> first_diff rows acts r a | None -> -1) in
       if d1 < 0 && d2 < 0 then Printf.printf "EQUAL states=%d\n" (List.length rows)
       else Printf.printf "DIFF itemsets_state=%d emitted_state=%d model_states=%d gocc_states=%d\n" d1 d2 (List.length rows) (List.length rows0))
  | _ -> failwith "lexgen"

(* synast <file.bnf> [names]: Front/SynAst.v — the generator's numeric input computed from the BYTES of the grammar file; prints the five
   lines of gen.in exactly as lib/lrcommon.py gen_input_text writes them, or NONE.  With "names": two more lines, the terminal and
   nonterminal names (hex) in number order *)
let cmd_synast file names =
  let ic = open_in_bin file in
  let n = in_channel_length ic in
  let s = really_input_string ic n in
  close_in ic;
  let src = List.init n (fun i -> z_of_int (Char.code s.[i])) in
  match gen_input_of_source src with
  | None -> print_endline "NONE"
  | Some gi ->
    let skey = function T a -> "T" ^ string_of_int (int_of_nat a) | NT a -> "N" ^ string_of_int (int_of_nat a) in
    let nats l = String.concat " " (List.map (fun k -> string_of_int (int_of_nat k)) l) in
    Printf.printf "%d %d %d\n" (int_of_nat gi.gi_nn) (int_of_nat gi.gi_ntm) (int_of_nat gi.gi_terr);
    print_endline (String.concat ";" (List.map (fun p ->
      Printf.sprintf "%d:%s" (int_of_nat p.lhs) (String.concat " " (List.map skey p.rhs))) gi.gi_g));
    print_endline (String.concat " " (List.map skey gi.gi_symbols));
    print_endline (nats gi.gi_la);
    print_endline (String.concat " " (List.map (fun b -> if b then "1" else "0") gi.gi_pacts));
    if names then begin
      print_endline (String.concat " " (List.map hex_encode gi.gi_tnames));
      print_endline (String.concat " " (List.map hex_encode gi.gi_nnames))
    end

(* lexast <grammar file> [<fuel>]: Front/LexAst.v — from the BYTES of the grammar file (front-end scanner model, definitions cut
   by Sem.defs, structurally recursive pattern parser, token numbers from the TokMap model) to the lexical part, printed in
   EXACTLY the format of `verifdump lexdump` (NONE when the model refuses the file).  With a fuel the DFA of the lexer-generator
   model (Lex/LexGen.v) run on THAT grammar follows, in lexdump's format too: the whole output can be string-compared. *)
let cmd_lexast args =
  match args with
  | file :: rest ->
    let ic = open_in_bin file in
    let n = in_channel_length ic in
    let s = really_input_string ic n in
    close_in ic;
    let src = List.init n (fun i -> z_of_int (Char.code s.[i])) in
    (match lexgrammar_of_source src with
     | None -> print_endline "NONE"
     | Some g ->
       let buf = Buffer.create 4096 in
       let rec pat p =
         Buffer.add_string buf (Printf.sprintf "P %d " (List.length p));
         List.iter (fun a ->
           Buffer.add_string buf (Printf.sprintf "A %d " (List.length a));
           List.iter (fun t -> match t with
             | Chr c -> Buffer.add_string buf (Printf.sprintf "c %d " (int_of_z c))
             | Rng (lo, hi) -> Buffer.add_string buf (Printf.sprintf "r %d %d " (int_of_z lo) (int_of_z hi))
             | Dot -> Buffer.add_string buf "d "
             | Ref i -> Buffer.add_string buf (Printf.sprintf "f %d " (int_of_nat i))
             | Opt q -> Buffer.add_string buf "o "; pat q
             | Rep q -> Buffer.add_string buf "s "; pat q
             | Grp q -> Buffer.add_string buf "g "; pat q) a) p in
       Buffer.add_string buf (Printf.sprintf "%d\n" (List.length g.regdefs));
       List.iter (fun p -> pat p; Buffer.add_char buf '\n') g.regdefs;
       Buffer.add_string buf (Printf.sprintf "%d\n" (List.length g.toks));
       List.iter (fun (k, p) ->
         (match k with
          | Tok (ty, sl) -> Buffer.add_string buf (Printf.sprintf "T %d %d " (int_of_z ty) (if sl then 1 else 0))
          | Ign -> Buffer.add_string buf "I ");
         pat p; Buffer.add_char buf '\n') g.toks;
       (match rest with
        | fuel :: _ ->
          (match lexgen g (nat_of_int_tr (int_of_string fuel)) with
           | None -> Buffer.add_string buf (Printf.sprintf "LEXGEN-NONE wf=%b\n" (lex_wf g))
           | Some (rows, acts) ->
             Buffer.add_string buf (Printf.sprintf "%d\n" (List.length rows));
             List.iter2 (fun r a ->
               Buffer.add_string buf (Printf.sprintf "%d %d %d" (int_of_z a) (int_of_z r.dflt) (List.length r.cases));
               List.iter (fun ((lo, hi), nx) ->
                 Buffer.add_string buf (Printf.sprintf " %d %d %d" (int_of_z lo) (int_of_z hi) (int_of_z nx))) r.cases;
               Buffer.add_char buf '\n') rows acts)
        | [] -> ());
       print_string (Buffer.contents buf))
  | _ -> failwith "lexast"

let () =
  match Array.to_list Sys.argv with
  | _ :: "lexast" :: args -> cmd_lexast args
  | _ :: "synast" :: file :: rest -> cmd_synast file (rest = ["names"])
  | _ :: "lexgen" :: args -> cmd_lexgen args
  | _ :: "frontsem" :: file :: fpt :: nums when List.length nums = 12 -> cmd_frontsem file (int_of_string fpt) nums
  | _ :: "gen" :: file :: _ -> cmd_gen file
  | _ :: "genauto" :: file :: _ -> cmd_gen ~auto:true file
  | _ :: "sdt" :: _ -> cmd_sdt ()
  | _ :: "firstsets" :: _ -> cmd_firstsets ()
  | _ :: "fscan" :: _ -> cmd_fscan ()
  | _ :: "bisim" :: args -> cmd_bisim args
  | _ :: "dlex" :: file :: _ -> cmd_dlex file
  | _ :: "tokmap" :: _ -> cmd_tokmap ()
  | _ :: "resolve" :: _ -> cmd_resolve ()
  | _ :: "litconv" :: _ -> cmd_litconv ()
  | _ :: "md" :: _ -> cmd_md ()
  | _ :: "parseobj" :: file :: fuel :: _ -> cmd_parse ~obj:true file (int_of_string fuel)
  | _ :: "parse" :: file :: fuel :: "brief" :: _ -> cmd_parse ~brief:true file (int_of_string fuel)
  | _ :: "parse" :: file :: fuel :: _ -> cmd_parse file (int_of_string fuel)
  | _ :: "ranges" :: args -> cmd_ranges args
  | _ :: "lex" :: file :: _ -> cmd_lex file
  | _ :: "utf8" :: _ -> cmd_utf8 ()
  | _ -> prerr_endline "usage: modelrun <command>"; exit 2
