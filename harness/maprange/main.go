// maprange lists, for the non-test packages of the module in the given directory, every `range` over a map
// (file, enclosing function, ranged expression) and every go statement, select, channel send/receive.
// Used by the C11 check to pin the model's assumptions (which map iterations exist) to the current source.
package main

import (
	"fmt"
	"go/ast"
	"go/printer"
	"go/token"
	"go/types"
	"os"
	"path/filepath"
	"sort"
	"strings"

	"golang.org/x/tools/go/packages"
)

// writes mode: lists every assignment / inc-dec / delete whose target is (reached from) a package-level variable
// outside init functions and outside package-level initialisers, for the packages under dir.
func writes(dir string, patterns []string) {
	if len(patterns) == 0 {
		patterns = []string{"./..."}
	}
	cfg := &packages.Config{Mode: packages.NeedName | packages.NeedFiles | packages.NeedSyntax | packages.NeedTypes |
		packages.NeedTypesInfo | packages.NeedImports | packages.NeedDeps, Dir: dir, Tests: false}
	pkgs, err := packages.Load(cfg, patterns...)
	if err != nil {
		fmt.Println("ERROR", err)
		os.Exit(1)
	}
	var out []string
	for _, p := range pkgs {
		for _, e := range p.Errors {
			fmt.Println("ERROR", e)
		}
		if strings.HasSuffix(p.PkgPath, "/cmd") || strings.HasSuffix(p.PkgPath, "/h") {
			continue
		}
		root := func(e ast.Expr) *ast.Ident {
			for {
				switch x := e.(type) {
				case *ast.Ident:
					return x
				case *ast.SelectorExpr:
					e = x.X
				case *ast.IndexExpr:
					e = x.X
				case *ast.StarExpr:
					e = x.X
				case *ast.ParenExpr:
					e = x.X
				case *ast.SliceExpr:
					e = x.X
				default:
					return nil
				}
			}
		}
		isPkgVar := func(e ast.Expr) bool {
			id := root(e)
			if id == nil {
				return false
			}
			obj := p.TypesInfo.ObjectOf(id)
			v, ok := obj.(*types.Var)
			return ok && v.Parent() == p.Types.Scope()
		}
		// named types of which the package holds a package-level value (directly, or as element of a package-level slice / array /
		// map / pointer): a method of such a type that writes THROUGH its receiver (any write for a pointer receiver; a write to
		// a map or slice element or through a pointer field for a value receiver) writes shared state when called on that value
		shared := map[*types.TypeName]bool{}
		var addShared func(t types.Type, depth int)
		addShared = func(t types.Type, depth int) {
			if t == nil || depth > 4 {
				return
			}
			switch x := t.(type) {
			case *types.Named:
				if x.Obj() != nil && x.Obj().Pkg() == p.Types {
					if shared[x.Obj()] {
						return
					}
					shared[x.Obj()] = true
				}
				addShared(x.Underlying(), depth+1)
			case *types.Pointer:
				addShared(x.Elem(), depth+1)
			case *types.Slice:
				addShared(x.Elem(), depth+1)
			case *types.Array:
				addShared(x.Elem(), depth+1)
			case *types.Map:
				addShared(x.Elem(), depth+1)
			case *types.Struct:
				for i := 0; i < x.NumFields(); i++ {
					addShared(x.Field(i).Type(), depth+1)
				}
			}
		}
		for _, n := range p.Types.Scope().Names() {
			if v, ok := p.Types.Scope().Lookup(n).(*types.Var); ok {
				addShared(v.Type(), 0)
			}
		}
		for _, f := range p.Syntax {
			fname, _ := filepath.Rel(dir, p.Fset.Position(f.Pos()).Filename)
			for _, d := range f.Decls {
				fd, ok := d.(*ast.FuncDecl)
				if !ok || fd.Body == nil || (fd.Name.Name == "init" && fd.Recv == nil) || fd.Name.Name == "VerifDumpTables" {
					continue
				}
				// receiver of a method of a shared type
				var recvObj types.Object
				recvPtr := false
				if fd.Recv != nil && len(fd.Recv.List) > 0 && len(fd.Recv.List[0].Names) > 0 {
					ro := p.TypesInfo.ObjectOf(fd.Recv.List[0].Names[0])
					if ro != nil {
						t := ro.Type()
						if pt, ok := t.(*types.Pointer); ok {
							t = pt.Elem()
							recvPtr = true
						}
						if nt, ok := t.(*types.Named); ok && shared[nt.Obj()] {
							recvObj = ro
						}
					}
				}
				throughRecv := func(e ast.Expr) bool {
					if recvObj == nil {
						return false
					}
					id := root(e)
					if id == nil || p.TypesInfo.ObjectOf(id) != recvObj {
						return false
					}
					if _, plain := e.(*ast.Ident); plain {
						return false // re-binding the receiver variable itself
					}
					if recvPtr {
						return true
					}
					// value receiver: only writes that leave the copy
					for {
						switch x := e.(type) {
						case *ast.IndexExpr:
							if t := p.TypesInfo.TypeOf(x.X); t != nil {
								switch t.Underlying().(type) {
								case *types.Map, *types.Slice, *types.Pointer:
									return true
								}
							}
							e = x.X
						case *ast.StarExpr:
							return true
						case *ast.SelectorExpr:
							if t := p.TypesInfo.TypeOf(x.X); t != nil {
								if _, ok := t.Underlying().(*types.Pointer); ok {
									return true
								}
							}
							e = x.X
						case *ast.ParenExpr:
							e = x.X
						case *ast.SliceExpr:
							e = x.X
						default:
							return false
						}
					}
				}
				ast.Inspect(fd.Body, func(n ast.Node) bool {
					switch x := n.(type) {
					case *ast.AssignStmt:
						if x.Tok == token.DEFINE {
							return true
						}
						for _, l := range x.Lhs {
							if throughRecv(l) {
								out = append(out, fmt.Sprintf("write %s %s %s (through the receiver of a type with a package-level value)", fname, fd.Name.Name, exprString(p.Fset, l)))
							}
							if isPkgVar(l) {
								out = append(out, fmt.Sprintf("write %s %s %s", fname, fd.Name.Name, exprString(p.Fset, l)))
							}
						}
					case *ast.IncDecStmt:
						if throughRecv(x.X) {
							out = append(out, fmt.Sprintf("write %s %s %s (through the receiver of a type with a package-level value)", fname, fd.Name.Name, exprString(p.Fset, x.X)))
						}
						if isPkgVar(x.X) {
							out = append(out, fmt.Sprintf("write %s %s %s", fname, fd.Name.Name, exprString(p.Fset, x.X)))
						}
					case *ast.CallExpr:
						if id, ok := x.Fun.(*ast.Ident); ok && id.Name == "delete" && len(x.Args) > 0 && throughRecv(x.Args[0]) {
							out = append(out, fmt.Sprintf("write %s %s delete(%s) (through the receiver)", fname, fd.Name.Name, exprString(p.Fset, x.Args[0])))
						}
						if id, ok := x.Fun.(*ast.Ident); ok && id.Name == "delete" && len(x.Args) > 0 && isPkgVar(x.Args[0]) {
							out = append(out, fmt.Sprintf("write %s %s delete(%s)", fname, fd.Name.Name, exprString(p.Fset, x.Args[0])))
						}
					}
					return true
				})
			}
		}
	}
	sort.Strings(out)
	for _, l := range out {
		fmt.Println(l)
	}
}

func main() {
	if os.Args[1] == "writes" {
		writes(os.Args[2], os.Args[3:])
		return
	}
	dir := os.Args[1]
	cfg := &packages.Config{Mode: packages.NeedName | packages.NeedFiles | packages.NeedSyntax | packages.NeedTypes |
		packages.NeedTypesInfo | packages.NeedImports | packages.NeedDeps, Dir: dir, Tests: false}
	pkgs, err := packages.Load(cfg, "./...")
	if err != nil {
		fmt.Println("ERROR", err)
		os.Exit(1)
	}
	var out []string
	for _, p := range pkgs {
		if strings.Contains(p.PkgPath, "/example/") || strings.Contains(p.PkgPath, "/internal/test/") || strings.Contains(p.PkgPath, "verifdump") {
			continue
		}
		for _, e := range p.Errors {
			fmt.Println("ERROR", e)
		}
		for _, f := range p.Syntax {
			fname, _ := filepath.Rel(dir, p.Fset.Position(f.Pos()).Filename)
			for _, d := range f.Decls {
				fd, ok := d.(*ast.FuncDecl)
				if !ok || fd.Body == nil {
					continue
				}
				fn := fd.Name.Name
				if fd.Recv != nil && len(fd.Recv.List) > 0 {
					fn = exprString(p.Fset, fd.Recv.List[0].Type) + "." + fn
				}
				ast.Inspect(fd.Body, func(n ast.Node) bool {
					switch x := n.(type) {
					case *ast.RangeStmt:
						if t := p.TypesInfo.TypeOf(x.X); t != nil {
							if _, ok := t.Underlying().(*types.Map); ok {
								out = append(out, fmt.Sprintf("maprange %s %s %s", fname, fn, exprString(p.Fset, x.X)))
							}
							if _, ok := t.Underlying().(*types.Chan); ok {
								out = append(out, fmt.Sprintf("chanrange %s %s", fname, fn))
							}
						}
					case *ast.GoStmt:
						out = append(out, fmt.Sprintf("go %s %s", fname, fn))
					case *ast.SelectStmt:
						out = append(out, fmt.Sprintf("select %s %s", fname, fn))
					case *ast.SendStmt:
						out = append(out, fmt.Sprintf("send %s %s", fname, fn))
					case *ast.UnaryExpr:
						if x.Op == token.ARROW {
							out = append(out, fmt.Sprintf("recv %s %s", fname, fn))
						}
					}
					return true
				})
			}
		}
	}
	sort.Strings(out)
	for _, l := range out {
		fmt.Println(l)
	}
}

func exprString(fset *token.FileSet, e ast.Expr) string {
	var b strings.Builder
	printer.Fprint(&b, fset, e)
	return strings.Join(strings.Fields(b.String()), "")
}
